# Contract for eyecite/clean.py:clean_text  (C20: applying a list of steps equals applying them one after another; unknown step -> ValueError)
import z3
from pyvc.values import Obj, SV, INT, BOOL, STR, OBJ, SEQ, class_of, strval, fresh_name, TRUE, FALSE, ForAllP, STR_CID
from pyvc.engine import And, Or, Not, Implies, I

ObjArr = z3.ArraySort(z3.IntSort(), Obj)
AP = z3.Function("apply_step", Obj, z3.StringSort(), z3.StringSort())          # the effect of one step on a text
CALLABLE = z3.Function("is_callable", Obj, z3.BoolSort())
FOLD = z3.Function("fold_steps", ObjArr, z3.IntSort(), z3.StringSort(), z3.StringSort())


def fold_theory(e, st, A, t):
    """fold(steps, 0, t) = t ; fold(steps, k+1, t) = apply(steps[k], fold(steps, k, t))  -- per step array and start text"""
    done = st.__dict__.setdefault("_fold_done", set())
    key = (A.get_id(), t.get_id())
    if key in done:
        return
    done.add(key)
    k = z3.Int(fresh_name("fk"))
    st.pc.append(FOLD(A, I(0), t) == t)
    st.pc.append(ForAllP([k], Implies(k >= 0, FOLD(A, k + 1, t) == AP(z3.Select(A, k), FOLD(A, k, t))), patterns=[FOLD(A, k + 1, t)]))


@spec("fold")
def _fold(e, st, steps, k, t):
    fold_theory(e, st, steps.v.arrs[0], t.v)
    return SV(STR, FOLD(steps.v.arrs[0], k.v, t.v))


@spec("apply_dynamic")
def _apply_dynamic(e, st, step, args):
    """calling the function selected for `step` (a name looked up in cleaners_lookup, or the callable itself)"""
    return SV(STR, AP(step.v, args[0].v if args[0].ty.kind == "str" else strval(args[0].v)))


@spec("is_callable")
def _is_callable(e, st, o):
    st.assume(Implies(class_of(o.v) == STR_CID, Not(CALLABLE(o.v))))       # str objects are not callable
    return SV(BOOL, And(Not(o.none), CALLABLE(o.v)))


@spec("step_ok")
def _step_ok(e, st, o):
    """a step is usable: a name in cleaners_lookup (keys read from the AST dict display) or a callable"""
    node = e.repo.const("clean", "cleaners_lookup")
    keys = [k.value for k in node.keys]
    st.assume(Implies(class_of(o.v) == STR_CID, Not(CALLABLE(o.v))))
    return SV(BOOL, And(Not(o.none), Or(And(class_of(o.v) == STR_CID, Or(*[strval(o.v) == z3.StringVal(k) for k in keys])), CALLABLE(o.v))))


contract("clean.clean_text",
    types={"text": "str", "steps": "seq[obj]"}, returns="str", prop="C20",
    requires={"args": "text is not None and steps is not None and forall(lambda i: implies(0 <= i and i < len(steps), steps[i] is not None))"},
    ensures={
        # applying a list of cleaning steps equals applying them one after another
        "sequential": "result == fold(steps, len(steps), text)",
        "all_steps_usable": "forall(lambda i: implies(0 <= i and i < len(steps), step_ok(steps[i])))",
    },
    # an unknown step name raises ValueError (and only then)
    raises_ensures={"ValueError": {"unknown_step": "exists(lambda i: 0 <= i and i < len(steps) and not step_ok(steps[i]))"}})

loop("clean.clean_text", 1,
    invariant={
        "folded": "text == fold(steps, k, old(text)) and text is not None",
        "usable_so_far": "forall(lambda i: implies(0 <= i and i < k, step_ok(steps[i])))",
    })
