# Contracts for C18 (year / edition guesses; disambiguation only removes) and shared integer helpers.
# Top-level clauses are taken from the property statement; helper shapes from the code.

contract("helpers.get_year",
    types={"word": "str"}, returns="int", noraise=True, prop="C18",
    requires={"is_str": "word is not None"},
    ensures={
        # a numeric year is present only if it lies in the accepted range (1600 .. next year) ...
        "range": "result is None or (1600 <= result and result <= G._highest_valid_year)",
        # ... and equals the digits of the textual year
        "value": "result is None or (int_ok(word) and result == str_to_int(word))",
        # and a parsable in-range year is never dropped
        "made": "implies(int_ok(word) and 1600 <= str_to_int(word) and str_to_int(word) <= G._highest_valid_year,"
                " result is not None)",
    })

contract("helpers.overlapping_citations",
    types={"full_span_1": "tuple[int,int]", "full_span_2": "tuple[int,int]"}, returns="bool", noraise=True, prop="C03",
    requires={"ints": "full_span_1[0] is not None and full_span_1[1] is not None and full_span_2[0] is not None and full_span_2[1] is not None"},
    ensures={
        # two half-open intervals overlap iff they share a position
        "overlap_spec": "result == exists(lambda x: full_span_1[0] <= x and x < full_span_1[1] and full_span_2[0] <= x and x < full_span_2[1])",
        "symmetric_form": "result == (full_span_1[0] < full_span_2[1] and full_span_2[0] < full_span_1[1] and full_span_1[0] < full_span_1[1] and full_span_2[0] < full_span_2[1])",
    },
    pure_result="max(full_span_1[0], full_span_2[0]) < min(full_span_1[1], full_span_2[1])")

contract("models.Edition.includes_year",
    types={"self": "obj<Edition>", "year": "int"}, returns="bool", prop="C18",
    requires={"args": "self is not None and year is not None"},
    # "publishing in that year": not in the future, not before the edition started, not after it ended
    pure_result="year <= now_year() and (self.start is None or self.start.year <= year) and (self.end is None or self.end.year >= year)")

contract("models.ResourceCitation.guess_edition",
    types={"self": "obj<ResourceCitation>"}, returns="none", prop="C18",
    requires={"self": "self is not None",
              # type invariant of the candidate lists: sequences of Edition objects (never None)
              "editions_wf": "self.exact_editions is not None and self.variation_editions is not None and forall(lambda i: implies(0 <= i and i < len(self.exact_editions), self.exact_editions[i] is not None))"
                             " and forall(lambda i: implies(0 <= i and i < len(self.variation_editions), self.variation_editions[i] is not None))"},
    modifies=["self.edition_guess"],
    ensures={
        # a guessed edition is always one of the candidate editions (exact if any, otherwise variations)
        "member": "self.edition_guess is old(self.edition_guess) or exists(lambda i: 0 <= i and i < len(self.exact_editions or self.variation_editions) and (self.exact_editions or self.variation_editions)[i] is self.edition_guess)",
        # is always made when there is exactly one such candidate
        "single": "implies(len(self.exact_editions or self.variation_editions) == 1, self.edition_guess is (self.exact_editions or self.variation_editions)[0])",
        # several candidates: made only with the help of a year, and then it is the only candidate publishing in that year
        "several_needs_year": "implies(len(self.exact_editions or self.variation_editions) > 1 and not truthy(self.year), self.edition_guess is old(self.edition_guess))",
        "several_unique": "implies(len(self.exact_editions or self.variation_editions) > 1 and self.edition_guess is not old(self.edition_guess),"
                          " self.edition_guess.includes_year(self.year) and forall(lambda i: implies(0 <= i and i < len(self.exact_editions or self.variation_editions)"
                          " and (self.exact_editions or self.variation_editions)[i].includes_year(self.year), (self.exact_editions or self.variation_editions)[i] is self.edition_guess)))",
        "several_made": "implies(len(self.exact_editions or self.variation_editions) > 1 and truthy(self.year) and exists(lambda i: 0 <= i and i < len(self.exact_editions or self.variation_editions)"
                        " and (self.exact_editions or self.variation_editions)[i].includes_year(self.year) and forall(lambda j: implies(0 <= j and j < len(self.exact_editions or self.variation_editions) and j != i,"
                        " not (self.exact_editions or self.variation_editions)[j].includes_year(self.year)))), self.edition_guess is not None)",
        "none_when_no_candidates": "implies(len(self.exact_editions or self.variation_editions) == 0, self.edition_guess is old(self.edition_guess))",
    })

contract("helpers.disambiguate_reporters",
    types={"citations": "seq[obj<CitationBase>]"}, returns="seq[obj<CitationBase>]", prop="C18",
    ensures={
        # exactly the citations that are not resource citations or have a guessed edition, in the same order
        "notnone": "result is not None",
        "only_filters": "is_filter(result, citations, lambda c: not isinstance(c, ResourceCitation) or truthy(c.edition_guess))",
    })
