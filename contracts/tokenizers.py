# Contracts for eyecite/tokenizers.py and the token classes of eyecite/models.py   (C12: the token stream partitions the text)
import z3
from pyvc.values import Obj, SV, INT, BOOL, STR, OBJ, SEQ, TUP, SeqV, class_of, strval, fresh_name, TRUE, FALSE, ForAllP
from pyvc.engine import And, Or, Not, Implies, I

ObjArr = z3.ArraySort(z3.IntSort(), Obj)
# cumulative text length of the first i elements of a token array:  cum(W, 0) = 0,  cum(W, i+1) = cum(W, i) + len(text of W[i])
cum = z3.Function("cum", ObjArr, z3.IntSort(), z3.IntSort())
cumarr = z3.Function("cumarr", ObjArr, z3.ArraySort(z3.IntSort(), z3.IntSort()))


def cum_theory(e, st=None, A=None):
    """E-CUM, instantiated per token array that is mentioned (quantifiers range over Int only):
    cum(A,0)=0, cum(A,i+1)=cum(A,i)+len(A[i]); monotone; and for A = Store(B,n,x): cum(A,i)=cum(B,i) for i<=n
    (the last two are inductive consequences of the definition, assumed)."""
    e.trust("E-CUM: cum(W,0)=0, cum(W,i+1)=cum(W,i)+len(W[i]); frame under stores above the index and monotonicity (inductive consequences, assumed)")
    if st is None or A is None:
        return
    done = st.__dict__.setdefault("_cum_done", set())
    key = A.get_id()
    if key in done:
        return
    done.add(key)
    i, j = z3.Int(fresh_name("cu_i")), z3.Int(fresh_name("cu_j"))
    st.pc.append(cum(A, I(0)) == 0)
    st.pc.append(ForAllP([i], Implies(i >= 0, cum(A, i + 1) == cum(A, i) + z3.Length(strval(z3.Select(A, i)))), patterns=[cum(A, i + 1)]))
    st.pc.append(ForAllP([i], Implies(i >= 0, cum(A, i + 1) == cum(A, i) + z3.Length(strval(z3.Select(A, i)))), patterns=[z3.MultiPattern(cum(A, i), z3.Select(A, i))]))
    st.pc.append(ForAllP([i, j], Implies(And(0 <= i, i <= j), cum(A, i) <= cum(A, j)), patterns=[z3.MultiPattern(cum(A, i), cum(A, j))]))
    st.pc.append(ForAllP([i], z3.Select(cumarr(A), i) == cum(A, i), patterns=[z3.Select(cumarr(A), i)]))
    if z3.is_app(A) and A.decl().kind() == z3.Z3_OP_STORE:
        B, nn = A.arg(0), A.arg(1)
        st.pc.append(ForAllP([i], Implies(And(0 <= i, i <= nn), cum(A, i) == cum(B, i)), patterns=[cum(A, i)]))
        cum_theory(e, st, B)
    if z3.is_app(A) and A.decl().kind() == z3.Z3_OP_ITE:
        cum_theory(e, st, A.arg(1))
        cum_theory(e, st, A.arg(2))


@spec("cum")
def _cum(e, st, words, i):
    cum_theory(e, st, words.v.arrs[0])
    return SV(INT, cum(words.v.arrs[0], i.v))


@spec("cum_offs")
def _cum_offs(e, st, words):
    """the ghost offset array of a token list: offs[i] == cum(words, i), length len(words)+1"""
    cum_theory(e, st, words.v.arrs[0])
    return SV(SEQ(INT), SeqV(words.v.len + 1, [cumarr(words.v.arrs[0]), z3.K(z3.IntSort(), FALSE)]))


@spec("PARTP")
def _PARTP(e, st, words, text, upto):
    """prefix partition: the first `upto` characters of text are exactly the concatenation of `words`;
    word i is text[cum(i):cum(i+1)], special tokens carry these offsets"""
    W = words.v.arrs[0]
    cum_theory(e, st, W)
    n = words.v.len
    i = z3.Int(fresh_name("pp"))
    w = z3.Select(W, i)
    tok = SV(OBJ("Token"), w)
    sm = e.spec_mode
    e.spec_mode = True
    try:
        ts, te = e.load_field(st, tok, "start"), e.load_field(st, tok, "end")
    finally:
        e.spec_mode = sm
    body = And(Not(z3.Select(words.v.arrs[1], i)), e.class_in(w, "TokenOrStr"),
               strval(w) == z3.SubString(text.v, cum(W, i), cum(W, i + 1) - cum(W, i)),
               Implies(e.class_in(w, "Token"), And(Not(ts.none), Not(te.none), ts.v == cum(W, i), te.v == cum(W, i + 1))))
    return SV(BOOL, And(Not(words.none), n >= 0, cum(W, n) == upto.v, 0 <= upto.v, upto.v <= z3.Length(text.v),
                        ForAllP([i], Implies(And(i >= 0, i < n), body), patterns=[z3.Select(W, i)])))


@spec("INDEXES")
def _INDEXES(e, st, cts, words):
    """citation_tokens lists exactly the non-str positions of words, in increasing order, paired with the same object"""
    W = words.v.arrs[0]
    j, j2, i = z3.Int(fresh_name("ij")), z3.Int(fresh_name("ij2")), z3.Int(fresh_name("ii"))
    # cts is seq[tuple[int, obj]]: arrs = [tuple-none, int, int-none, obj, obj-none]
    idx = lambda t: z3.Select(cts.v.arrs[1], t)
    ob = lambda t: z3.Select(cts.v.arrs[3], t)
    m = cts.v.len
    inv = z3.Function(fresh_name("ctinv"), z3.IntSort(), z3.IntSort())
    tag = getattr(e, "_indexes_inv", None)
    return SV(BOOL, And(m >= 0,
                        ForAllP([j], Implies(And(j >= 0, j < m), And(0 <= idx(j), idx(j) < words.v.len, z3.Select(W, idx(j)) == ob(j),
                                                                     class_of(ob(j)) != 0, Not(z3.Select(cts.v.arrs[0], j)), Not(z3.Select(cts.v.arrs[2], j)), Not(z3.Select(cts.v.arrs[4], j)))), patterns=[idx(j)]),
                        ForAllP([j, j2], Implies(And(j >= 0, j < j2, j2 < m), idx(j) < idx(j2)), patterns=[z3.MultiPattern(idx(j), idx(j2))])))


@spec("ALL_LISTED")
def _ALL_LISTED(e, st, cts, words, ginv):
    """every non-str element of words is listed in citation_tokens (ginv[i] = its position in the list)"""
    W = words.v.arrs[0]
    i = z3.Int(fresh_name("ai"))
    gi = z3.Select(ginv.v.arrs[0], i)
    return SV(BOOL, ForAllP([i], Implies(And(i >= 0, i < words.v.len, class_of(z3.Select(W, i)) != 0),
                                         And(0 <= gi, gi < cts.v.len, z3.Select(cts.v.arrs[1], gi) == i)), patterns=[z3.Select(W, i)]))


CAND = ("forall(lambda i: implies(0 <= i and i < len({seq}), {seq}[i] is not None and isinstance({seq}[i], Token) and {seq}[i].groups is not None "
        "and {seq}[i].start is not None and {seq}[i].end is not None "
        "and 0 <= {seq}[i].start and {seq}[i].start <= {seq}[i].end and {seq}[i].end <= len(text) and str({seq}[i]) == text[{seq}[i].start:{seq}[i].end]))")

# ------------------------------------------------------------------------------------------------ token classes
contract("models.Token.from_match",
    types={"m": "obj<Match>", "extra": "dict[str,str]", "offset": "int"}, returns="obj<Token>", prop="C12",
    func_params={},
    requires={"m": "m is not None and m_has(m, 1) and offset is not None"},
    ensures={
        # token offsets come from regex group 1 of the extractor match, shifted by `offset`; the token text is that group
        "start": "result is not None and result.start == m_start(m, 1) + offset",
        "end": "result.end == m_end(m, 1) + offset",
        "text": "str(result) == m[1]",
    })

assumed("tokenizers.Tokenizer.extract_tokens",
    types={"self": "obj<Tokenizer>", "text": "str"}, returns="seq[obj<Token>]",
    requires={"text": "text is not None"},
    ensures={"cand": CAND.format(seq="result")},
    trusted_note="CAND: every candidate token's offsets index its own text (Token.from_match: start/end = m.span(1) + offset, data = m[1]; E-RE-SPAN); "
                 "CitationTokens carry at least one edition (data invariant of the shipped extractors). The generator body is outside the subset.")

contract("models.Token.merge",
    types={"self": "obj<Token>", "other": "obj<Token>"}, returns="obj<Token>", noraise=True, prop="C12",
    requires={"args": "self is not None and other is not None and self.groups is not None and other.groups is not None"},
    ensures={"self_or_none": "result is None or result is self",
             "same_extent": "implies(result is not None, self.start == other.start and self.end == other.end)"})

contract("models.CitationToken.merge",
    types={"self": "obj<CitationToken>", "other": "obj<Token>"}, returns="obj<Token>", prop="C12",
    requires={"args": "self is not None and other is not None and self.groups is not None and other.groups is not None"},
    modifies=["self.exact_editions", "self.variation_editions"],
    ensures={"self_or_none": "result is None or result is self",
             "same_extent": "implies(result is not None, self.start == other.start and self.end == other.end)",
             "editions_kept": "self.exact_editions is not None and self.variation_editions is not None "
                              "and len(self.exact_editions) + len(self.variation_editions) >= 1"},
    assumed=True, trusted_note="body uses tuple(set(...)) over Edition values (hash of frozen dataclasses): modelled by its frame and result only")

contract("tokenizers.token_is_from_nominative_reporter",
    types={"token": "obj<Token>"}, returns="bool", prop="C12",
    requires={"tok": "token is not None"},
    ensures={"only_citation_tokens": "implies(result, isinstance(token, CitationToken))"})

# ------------------------------------------------------------------------------------------------ append_text
contract("tokenizers.Tokenizer.append_text",
    types={"tokens": "seq[obj<TokenOrStr>]", "text": "str"}, returns="none", prop="C12",
    ghost={"doc": "str", "base": "int", "snap": "seq[obj<TokenOrStr>]"},
    requires={"args": "tokens is not None and text is not None and len(text) >= 1",
              # ghost: `text` is the slice of the document starting at absolute offset ghost.base
              "is_slice": "0 <= ghost.base and ghost.base + len(text) <= len(ghost.doc) and text == ghost.doc[ghost.base:ghost.base + len(text)]"},
    modifies=["tokens"],
    ensures={
        "extends": "len(tokens) >= len(old(tokens)) and forall(lambda i: implies(0 <= i and i < len(old(tokens)), tokens[i] is old(tokens)[i]))",
        "cum_frame": "forall(lambda i: implies(0 <= i and i <= len(old(tokens)), cum(tokens, i) == cum(old(tokens), i)))",
        "only_strings": "forall(lambda i: implies(len(old(tokens)) <= i and i < len(tokens), tokens[i] is not None and isinstance(tokens[i], str)))",
        # concatenating the appended words gives exactly `text`: each word is the slice of the document at its cumulative offset
        "cat_is_text": "cum(tokens, len(tokens)) == cum(old(tokens), len(old(tokens))) + len(text) and forall(lambda i: implies(len(old(tokens)) <= i and i < len(tokens), "
                       "str(tokens[i]) == ghost.doc[ghost.base + cum(tokens, i) - cum(old(tokens), len(old(tokens))):ghost.base + cum(tokens, i + 1) - cum(old(tokens), len(old(tokens)))]))",
    })

# E-STR-SPLIT: parts = s.split(" "): part k starts at sp_off(parts, k); parts are separated by exactly one space; no part contains a space
sp_off = z3.Function("sp_off", z3.ArraySort(z3.IntSort(), z3.StringSort()), z3.IntSort(), z3.IntSort())


@spec("on_split")
def _split_theory(e, st, out, s, args):
    if not (args and args[0].tag and args[0].tag[0] == "lit" and args[0].tag[1] == " "):
        return
    P = out.v.arrs[0]
    n = out.v.len
    sv = s.v if hasattr(s, "v") else s
    k = z3.Int(fresh_name("spk"))
    pk = z3.Select(P, k)
    st.assume(sp_off(P, I(0)) == 0)
    st.assume(ForAllP([k], Implies(k >= 0, sp_off(P, k + 1) == sp_off(P, k) + z3.Length(pk) + 1), patterns=[sp_off(P, k + 1)]))
    st.assume(ForAllP([k], Implies(k >= 0, sp_off(P, k + 1) == sp_off(P, k) + z3.Length(pk) + 1), patterns=[z3.MultiPattern(sp_off(P, k), z3.Select(P, k))]))
    st.assume(ForAllP([k], Implies(And(k >= 0, k < n), And(Not(z3.Select(out.v.arrs[1], k)), sp_off(P, k) >= 0, sp_off(P, k) + z3.Length(pk) <= z3.Length(sv),
                                                            z3.SubString(sv, sp_off(P, k), z3.Length(pk)) == pk, Not(z3.Contains(pk, z3.StringVal(" "))))), patterns=[z3.Select(P, k)]))
    st.assume(ForAllP([k], Implies(And(k >= 0, k + 1 < n), z3.SubString(sv, sp_off(P, k) + z3.Length(pk), 1) == z3.StringVal(" ")), patterns=[z3.Select(P, k)]))
    st.assume(sp_off(P, n) == z3.Length(sv) + 1)
    e.trust("E-STR-SPLIT: s.split(' ') = the maximal space-free pieces of s in order, separated by exactly one space each (sp_off = start offset of a piece)")


@spec("sp_off")
def _sp_off(e, st, parts, k):
    return SV(INT, sp_off(parts.v.arrs[0], k.v))


@spec("SLICES")
def _SLICES(e, st, words, lo, text, c0, hi):
    """every word from index lo on that ends at or before offset hi (offsets relative to c0) is a str equal to the text at its cumulative offsets"""
    W = words.v.arrs[0]
    cum_theory(e, st, W)
    i = z3.Int(fresh_name("sl"))
    w = z3.Select(W, i)
    a, b = cum(W, i) - c0.v, cum(W, i + 1) - c0.v
    return SV(BOOL, ForAllP([i], Implies(And(lo.v <= i, i < words.v.len, b <= hi.v),
                                          And(Not(z3.Select(words.v.arrs[1], i)), class_of(w) == 0, strval(w) == z3.SubString(text.v, a, b - a))), patterns=[z3.Select(W, i)]))


lemma("slices_append", ["W:seq[obj<TokenOrStr>]", "lo:int", "t:str", "c0:int", "hi:int", "x:str"],
      "implies(SLICES(W, lo, t, c0, hi) and 0 <= lo and lo <= len(W) and c0 <= cum(W, lo) "
      "and implies(cum(W, len(W)) + len(x) - c0 <= hi, x == t[cum(W, len(W)) - c0:cum(W, len(W)) - c0 + len(x)]), "
      "SLICES(seq_append(W, x), lo, t, c0, hi))")

_C0 = "cum(old(tokens), len(old(tokens)))"
loop("tokenizers.Tokenizer.append_text", 1,
    invariant={
        "extends": "tokens is not None and len(tokens) >= len(old(tokens)) and forall(lambda i: implies(0 <= i and i < len(old(tokens)), tokens[i] is old(tokens)[i]))",
        "cum_frame": "forall(lambda i: implies(0 <= i and i <= len(old(tokens)), cum(tokens, i) == cum(old(tokens), i)))",
        "only_strings": "forall(lambda i: implies(len(old(tokens)) <= i and i < len(tokens), tokens[i] is not None and isinstance(tokens[i], str)))",
        # the appended words so far concatenate to the first sp_off(parts, k) characters of `text` followed by the separator of the last part
        "cum_is_offset": f"cum(tokens, len(tokens)) == {_C0} + sp_off(it, k) and 0 <= sp_off(it, k) and sp_off(it, k) <= len(text) + 1",
        "slices": f"SLICES(tokens, len(old(tokens)), ghost.doc, {_C0} - ghost.base, ghost.base + len(text))",
        "last_is_space": "implies(k >= 1, len(tokens) > len(old(tokens)) and str(tokens[len(tokens) - 1]) == ' ')",
    })


# ------------------------------------------------------------------------------------------------ tokenize
contract("tokenizers.Tokenizer.tokenize",
    types={"self": "obj<Tokenizer>", "text": "str"}, returns="tuple[seq[obj<TokenOrStr>],seq[tuple[int,obj<Token>]]]", prop="C12", frame_check=False,
    requires={"self": "self is not None and text is not None"},
    locals_types={"all_tokens": "seq[obj<TokenOrStr>]", "citation_tokens": "seq[tuple[int,obj<Token>]]", "last_token": "obj<Token>",
                  "tokens": "seq[obj<Token>]"},
    ghost={"ginv": "seq[int]"},
    ghost_args={"append_text": {"doc": "text", "base": "offset"}},
    ensures={
        # concatenating the returned tokens reproduces the text; every special token's offsets index its own text;
        # special tokens are in increasing, non-overlapping order (their offsets are the cumulative lengths)
        "partition": "PARTP(result[0], text, len(text))",
        "PART": "PART(result[0], text, cum_offs(result[0]))",
        # the index list points at exactly those tokens
        "index_list": "INDEXES(result[1], result[0])",
        "index_list_complete": "ALL_LISTED(result[1], result[0], ghost.ginv)",
    })

loop("tokenizers.Tokenizer.tokenize", 1,
    invariant={
        "offset_range": "0 <= offset and offset <= len(text)",
        "cat_is_prefix": "PARTP(all_tokens, text, offset)",
        "index_list": "INDEXES(citation_tokens, all_tokens)",
        "index_list_complete": "ALL_LISTED(citation_tokens, all_tokens, ghost.ginv)",
        "last_is_last": "implies(last_token is not None, len(all_tokens) >= 1 and all_tokens[len(all_tokens) - 1] is last_token and offset == last_token.end "
                        "and len(citation_tokens) >= 1 and citation_tokens[len(citation_tokens) - 1][0] == len(all_tokens) - 1 and isinstance(last_token, Token) "
                        "and last_token.groups is not None and last_token.start is not None and last_token.start <= last_token.end and 0 <= last_token.start)",
        "none_at_start": "implies(k == 0, last_token is None)",
        # candidates are visited in order of their start offset
        "sorted_so_far": "implies(last_token is not None and k < len(tokens), last_token.start <= tokens[k].start)",
    })
ghost_code("tokenizers.Tokenizer.tokenize", "after:Assign#2", "assert " + CAND.format(seq="tokens") + ", 'sorted_candidates_wf'")
ghost_code("tokenizers.Tokenizer.tokenize", "after:Expr#6", "ghost.ginv = seq_put(ghost.ginv, len(all_tokens) - 1, len(citation_tokens) - 1)")

assumed("tokenizers.HyperscanTokenizer.extract_tokens",
    types={"self": "obj<HyperscanTokenizer>", "text": "str"}, returns="seq[obj<Token>]",
    requires={"text": "text is not None"},
    ensures={"cand": CAND.format(seq="result")},
    trusted_note="CAND for the Hyperscan override (byte->str offset table + re-match on text[start:end] with offset=start); behaviour of the C library is C14 (not applicable)")


@spec("seq_put")
def _seq_put(e, st, s, i, v):
    from pyvc.values import to_flat
    et = s.ty.elts[0]
    comps = to_flat(e.coerce(v, et), et)
    return SV(s.ty, SeqV(s.v.len, [z3.Store(a, i.v, c) for a, c in zip(s.v.arrs, comps)]), s.none)
ghost_code("tokenizers.Tokenizer.tokenize", "after:Expr#4", "assert INDEXES(citation_tokens, all_tokens), 'indexes_after_append_text'\nassert PARTP(all_tokens, text, token.start), 'partition_after_append_text'")
ghost_code("tokenizers.Tokenizer.tokenize", "after:Expr#3", "assert INDEXES(citation_tokens, all_tokens), 'indexes_after_pop'\nassert PARTP(all_tokens, text, last_token.start), 'partition_after_pop'")
lemma("partp_append", ["W:seq[obj<TokenOrStr>]", "t:str", "x:obj<Token>", "c:int", "e:int"],
      "implies(PARTP(W, t, c) and x is not None and isinstance(x, Token) and x.start is not None and x.end is not None and x.start == c and x.end == e "
      "and c <= e and e <= len(t) and str(x) == t[c:e], PARTP(seq_append(W, x), t, e))")
ghost_code("tokenizers.Tokenizer.tokenize", "after:Expr#5", "use_lemma('partp_append', all_tokens, text, token, token.start, token.end)")


@spec("seq_append")
def _seq_append2(e, st, s, v):
    return e.seq_append(s, v)
ghost_code("tokenizers.Tokenizer.tokenize", "after:Expr#6", "assert PARTP(all_tokens, text, token.end), 'partition_after_token_append'")
ghost_code("tokenizers.Tokenizer.append_text", "loop1:body_start", "ghost.snap = tokens")
ghost_code("tokenizers.Tokenizer.append_text", "loop1:body_end",
    "assert sp_off(it, k + 1) == sp_off(it, k) + len(part) + 1 and sp_off(it, k) + len(part) <= len(text) and sp_off(it, len(it)) == len(text) + 1, 'split_step'\n"
    "assert implies(sp_off(it, k + 1) <= len(text), k + 1 < len(it) and text[sp_off(it, k) + len(part):sp_off(it, k) + len(part) + 1] == ' '), 'split_separator'\n"
    "assert str(tokens[len(tokens) - 1]) == ' ', 'last_space'\n"
    "assert cum(tokens, len(tokens)) == cum(tokens, len(tokens) - 1) + 1, 'cum_last'\n"
    "assert implies(len(part) > 0, str(tokens[len(tokens) - 2]) == part and cum(tokens, len(tokens) - 1) == cum(tokens, len(tokens) - 2) + len(part)), 'cum_part'\n"
    "assert True, 'noop'")

# the two append shapes, each with its own instances of the closed lemmas (Expr#2 = tokens.extend((part, " ")), Expr#3 = tokens.append(" "))
_SL = f"len(old(tokens)), ghost.doc, {_C0} - ghost.base, ghost.base + len(text)"
_PIECE = "use_lemma('slice_inner', ghost.doc, ghost.base, len(text), sp_off(it, k), sp_off(it, k) + len(part))\n"
_SEP = "use_lemma('slice_inner', ghost.doc, ghost.base, len(text), sp_off(it, k) + len(part), sp_off(it, k) + len(part) + 1)\n"
ghost_code("tokenizers.Tokenizer.append_text", "after:Expr#2", _PIECE + _SEP +
    f"use_lemma('slices_append', ghost.snap, {_SL}, part)\n"
    f"use_lemma('slices_append', seq_append(ghost.snap, part), {_SL}, ' ')")
ghost_code("tokenizers.Tokenizer.append_text", "after:Expr#3", _SEP +
    f"use_lemma('slices_append', ghost.snap, {_SL}, ' ')")
