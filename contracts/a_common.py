# Shared spec functions: class invariants of citation objects (established by the dataclass constructors).
import z3
from pyvc.values import Obj, SV, INT, BOOL, STR, OBJ, class_of, TRUE, FALSE
from pyvc.engine import And, Or, Not, Implies, I


@spec("metadata_wf")
def _metadata_wf(e, st, c):
    """class invariant established by CitationBase.__post_init__: type(c.metadata) is type(c).Metadata"""
    md = e.load_field(st, c, "metadata")
    cases = []
    for cname, ci in e.repo.classes.items():
        if "CitationBase" in e.repo.mro(cname) and not cname.endswith(".Metadata"):
            mc = e.repo.metadata_class(cname)
            cases.append(Implies(class_of(c.v) == ci.cid, class_of(md.v) == e.repo.classes[mc].cid))
    return SV(BOOL, And(Not(md.none), *cases))


@spec("cit_wf")
def _cit_wf(e, st, c):
    """a citation object: token is a Token, metadata is its own Metadata class, groups is a dict"""
    tok = e.load_field(st, c, "token")
    grp = e.load_field(st, c, "groups")
    idx = e.load_field(st, c, "index")
    mw = _metadata_wf(e, st, c)
    return SV(BOOL, And(Not(c.none), e.class_in(c.v, "CitationBase"), Not(tok.none), e.class_in(tok.v, "Token"), Not(grp.none), Not(idx.none), mw.v))
