# Contracts for eyecite/annotate.py  (C09 additive, C10 offsets translation, C11 guards) and the html helpers of utils.py
import z3
from pyvc.values import Obj, SV, INT, BOOL, STR, OBJ, SEQ, TUP, SeqV, class_of, strval, fresh_name, TRUE, FALSE, ForAllP
from pyvc.engine import And, Or, Not, Implies, I

fields({"SpanUpdater.offsets": "seq[int]", "SpanUpdater.updaters": "seq[obj<Partial>]",
        # ghost fields (never read by the code): position in text_after at the start of each range, and the range's length
        "SpanUpdater.posb": "seq[int]", "SpanUpdater.amt": "seq[int]", "SpanUpdater.len_a": "int", "SpanUpdater.len_b": "int"})

IntArr = z3.ArraySort(z3.IntSort(), z3.IntSort())
StrArr = z3.ArraySort(z3.IntSort(), z3.StringSort())
sumA = z3.Function("diff_sumA", StrArr, IntArr, z3.IntSort(), z3.IntSort())    # characters of text_before consumed by the first i steps
sumB = z3.Function("diff_sumB", StrArr, IntArr, z3.IntSort(), z3.IntSort())    # characters of text_after produced by the first i steps


def diff_theory(e, st, ops, amts):
    """E-DIFFSUM, per step array: sumA/sumB are the running totals of ('=','-') resp. ('=','+') amounts;
    both are monotone when all amounts are non-negative (inductive consequence, assumed)."""
    done = st.__dict__.setdefault("_diff_done", set())
    key = (ops.get_id(), amts.get_id())
    if key in done:
        return
    done.add(key)
    i, j = z3.Int(fresh_name("ds_i")), z3.Int(fresh_name("ds_j"))
    op = z3.Select(ops, i)
    am = z3.Select(amts, i)
    S_ = z3.StringVal
    st.pc.append(And(sumA(ops, amts, I(0)) == 0, sumB(ops, amts, I(0)) == 0))
    st.pc.append(ForAllP([i], Implies(i >= 0, And(
        sumA(ops, amts, i + 1) == sumA(ops, amts, i) + z3.If(Or(op == S_("="), op == S_("-")), am, I(0)),
        sumB(ops, amts, i + 1) == sumB(ops, amts, i) + z3.If(Or(op == S_("="), op == S_("+")), am, I(0)))),
        patterns=[sumA(ops, amts, i + 1)]))
    st.pc.append(ForAllP([i], Implies(i >= 0, And(
        sumA(ops, amts, i + 1) == sumA(ops, amts, i) + z3.If(Or(op == S_("="), op == S_("-")), am, I(0)),
        sumB(ops, amts, i + 1) == sumB(ops, amts, i) + z3.If(Or(op == S_("="), op == S_("+")), am, I(0)))),
        patterns=[z3.MultiPattern(sumA(ops, amts, i), z3.Select(ops, i))]))
    e.trust("E-DIFFSUM: running totals of diff steps (sumA over '=','-'; sumB over '=','+') and their monotonicity for non-negative amounts")


def _steps_arrays(steps):
    # steps: seq[tuple[str,int]] -> flat arrays [tuple-none, str, str-none, int, int-none]
    return steps.v.arrs[1], steps.v.arrs[3]


@spec("sumA")
def _sumA(e, st, steps, i):
    ops, amts = _steps_arrays(steps)
    diff_theory(e, st, ops, amts)
    return SV(INT, sumA(ops, amts, i.v))


@spec("sumB")
def _sumB(e, st, steps, i):
    ops, amts = _steps_arrays(steps)
    diff_theory(e, st, ops, amts)
    return SV(INT, sumB(ops, amts, i.v))


@spec("DIFF")
def _DIFF(e, st, steps, a, b):
    """E-DIFF: a list of (op, n) with op in {=,+,-}, n >= 1, sum(=,-) == len(a), sum(=,+) == len(b); running totals monotone"""
    ops, amts = _steps_arrays(steps)
    diff_theory(e, st, ops, amts)
    i, j = z3.Int(fresh_name("df_i")), z3.Int(fresh_name("df_j"))
    op, am = z3.Select(ops, i), z3.Select(amts, i)
    S_ = z3.StringVal
    n = steps.v.len
    return SV(BOOL, And(Not(steps.none), n >= 0,
                        ForAllP([i], Implies(And(i >= 0, i < n), And(Not(z3.Select(steps.v.arrs[0], i)), Not(z3.Select(steps.v.arrs[2], i)), Not(z3.Select(steps.v.arrs[4], i)),
                                                                     Or(op == S_("="), op == S_("+"), op == S_("-")), am >= 1)), patterns=[z3.Select(ops, i)]),
                        sumA(ops, amts, n) == z3.Length(a.v), sumB(ops, amts, n) == z3.Length(b.v),
                        ForAllP([i, j], Implies(And(0 <= i, i <= j, j <= n), And(sumA(ops, amts, i) <= sumA(ops, amts, j), sumB(ops, amts, i) <= sumB(ops, amts, j))),
                                patterns=[z3.MultiPattern(sumA(ops, amts, i), sumA(ops, amts, j))]),
                        ForAllP([i, j], Implies(And(0 <= i, i <= j, j <= n), sumB(ops, amts, i) <= sumB(ops, amts, j)),
                                patterns=[z3.MultiPattern(sumB(ops, amts, i), sumB(ops, amts, j))])))


assumed("annotate.SpanUpdater.get_diff_steps",
    types={"a": "str", "b": "str"}, returns="seq[tuple[str,int]]",
    requires={"args": "a is not None and b is not None"},
    ensures={"diff": "DIFF(result, a, b)"},
    trusted_note="E-DIFF for fast_diff_match_patch.diff (C++): steps cover both strings exactly; minimality is NOT assumed")
assumed("annotate.SpanUpdater.get_diff_steps_builtin",
    types={"a": "str", "b": "str"}, returns="seq[tuple[str,int]]",
    requires={"args": "a is not None and b is not None"},
    ensures={"diff": "DIFF(result, a, b)"},
    trusted_note="E-DIFF for difflib.SequenceMatcher.get_opcodes (generator body outside the subset): opcodes tile both strings")

# class invariant of a constructed SpanUpdater (ghost fields posb/amt/len_a/len_b are set by ghost code in __init__),
# as separate clauses over (offsets, updaters, posb, amt, cur_a, cur_b)
def upd_clauses(offsets, updaters, posb, amt, cur_a, cur_b):
    rng = f"0 <= i and i < len({offsets})"
    return {
        "shape": f"{offsets} is not None and {updaters} is not None and len({offsets}) == len({updaters}) and len({posb}) == len({offsets}) and len({amt}) == len({offsets}) "
                 f"and implies(len({offsets}) >= 1, {offsets}[0] == 0) and implies(len({offsets}) == 0, {cur_a} == 0) and 0 <= {cur_a} and 0 <= {cur_b}",
        "elems": f"forall(lambda i: implies({rng}, {updaters}[i] is not None and alive({updaters}[i]) and {updaters}[i].fn is not None and {updaters}[i].kw0 is not None "
                 f"and ({updaters}[i].fn == 0 or {updaters}[i].fn == 1) and {amt}[i] >= 1 and 0 <= {offsets}[i] and 0 <= {posb}[i] and {posb}[i] <= {cur_b}))",
        "kinds": f"forall(lambda i: implies({rng}, implies({updaters}[i].fn == 1, {updaters}[i].kw0 == {posb}[i] - {offsets}[i]) and implies({updaters}[i].fn == 0, {updaters}[i].kw0 == {posb}[i])))",
        "links": f"forall(lambda i: implies({rng} and i + 1 < len({offsets}), {offsets}[i + 1] == {offsets}[i] + {amt}[i] and {posb}[i] <= {posb}[i + 1] "
                 f"and implies({updaters}[i].fn == 1, {posb}[i] + {amt}[i] <= {posb}[i + 1])))",
        "last": f"implies(len({offsets}) >= 1, {offsets}[len({offsets}) - 1] + {amt}[len({offsets}) - 1] == {cur_a} "
                f"and implies({updaters}[len({offsets}) - 1].fn == 1, {posb}[len({offsets}) - 1] + {amt}[len({offsets}) - 1] <= {cur_b}))",
    }


UPD_SELF = upd_clauses("self.offsets", "self.updaters", "self.posb", "self.amt", "self.len_a", "self.len_b")
UPD = "self is not None and " + " and ".join(f"({v})" for v in UPD_SELF.values())

contract("annotate.SpanUpdater.__init__",
    types={"self": "obj<SpanUpdater>", "text_before": "str", "text_after": "str", "use_dmp": "bool"}, returns="none", noraise=True, prop="C10",
    requires={"args": "self is not None and text_before is not None and text_after is not None and use_dmp is not None"},
    modifies=["self.offsets", "self.updaters", "self.posb", "self.amt", "self.len_a", "self.len_b"],
    locals_types={"offsets": "seq[int]", "updaters": "seq[obj<Partial>]"},
    ghost={"posb": "seq[int]", "amt": "seq[int]"},
    ghost_init={"g0": "len(ghost.posb) == 0 and len(ghost.amt) == 0"},
    ensures=dict({"UPD_" + k: v for k, v in UPD_SELF.items()}, lens="self.len_a == len(text_before) and self.len_b == len(text_after)"))

loop("annotate.SpanUpdater.__init__", 1,
    invariant=dict(upd_clauses("offsets", "updaters", "ghost.posb", "ghost.amt", "offset", "(offset + delta)"),
        sums="offset == sumA(it, k) and offset + delta == sumB(it, k)",
        ints="offset is not None and delta is not None",
        progress="0 <= offset and 0 <= offset + delta and offset + delta <= len(text_after) and offset <= len(text_before)"))
# ghost bookkeeping at the two places a range is opened (offsets.append is Expr#2 and Expr#4 of the function; Expr#1 is the docstring)
ghost_code("annotate.SpanUpdater.__init__", "after:Expr#2", "ghost.posb = seq_append(ghost.posb, offset + delta)\nghost.amt = seq_append(ghost.amt, amount)")
ghost_code("annotate.SpanUpdater.__init__", "after:Expr#4", "ghost.posb = seq_append(ghost.posb, offset + delta)\nghost.amt = seq_append(ghost.amt, amount)")


@spec("seq_append")
def _seq_append4(e, st, s, v):
    return e.seq_append(s, v)
ghost_code("annotate.SpanUpdater.__init__", "at:return",
    "self.posb = ghost.posb\nself.amt = ghost.amt\nself.len_a = len(text_before)\nself.len_b = len(text_after)")

# the value update() computes: the updater of the range selected by bisect, applied to the offset
contract("annotate.SpanUpdater.update",
    types={"self": "obj<SpanUpdater>", "offset": "int"}, returns="int", noraise=True, prop="C10",
    func_params={"bisect": ["bisect_left", "bisect_right"]},
    requires={"upd": UPD, "offset": "offset is not None and 0 <= offset and offset <= self.len_a",
              # the excluded corner: an empty text_before has no range at all (IndexError, see DESIGN 6/C10)
              "nonempty": "len(self.offsets) >= 1"},
    ensures={
        # the translation of plain offsets to source offsets stays within the source
        "in_range": "0 <= result and result <= self.len_b",
    })
