# Contracts for eyecite/annotate.py  (C09 additive, C10 offsets translation, C11 guards) and the html helpers of utils.py
import z3
from pyvc.values import Obj, SV, INT, BOOL, STR, OBJ, SEQ, TUP, SeqV, class_of, strval, fresh_name, TRUE, FALSE, ForAllP
from pyvc.engine import And, Or, Not, Implies, I

fields({"SpanUpdater.offsets": "seq[int]", "SpanUpdater.updaters": "seq[obj<Partial>]",
        # ghost fields (never read by the code): position in text_after at the start of each range, and the range's length
        "SpanUpdater.posb": "seq[int]", "SpanUpdater.amt": "seq[int]", "SpanUpdater.len_a": "int", "SpanUpdater.len_b": "int"})

IntArr = z3.ArraySort(z3.IntSort(), z3.IntSort())
StrArr = z3.ArraySort(z3.IntSort(), z3.StringSort())
sumA = z3.Function("diff_sumA", StrArr, IntArr, z3.IntSort(), z3.IntSort())    # characters of text_before consumed by the first i steps
sumB = z3.Function("diff_sumB", StrArr, IntArr, z3.IntSort(), z3.IntSort())    # characters of text_after produced by the first i steps


def diff_theory(e, st, ops, amts):
    """E-DIFFSUM, per step array: sumA/sumB are the running totals of ('=','-') resp. ('=','+') amounts;
    both are monotone when all amounts are non-negative (inductive consequence, assumed)."""
    done = st.__dict__.setdefault("_diff_done", set())
    key = (ops.get_id(), amts.get_id())
    if key in done:
        return
    done.add(key)
    i, j = z3.Int(fresh_name("ds_i")), z3.Int(fresh_name("ds_j"))
    op = z3.Select(ops, i)
    am = z3.Select(amts, i)
    S_ = z3.StringVal
    st.pc.append(And(sumA(ops, amts, I(0)) == 0, sumB(ops, amts, I(0)) == 0))
    st.pc.append(ForAllP([i], Implies(i >= 0, And(
        sumA(ops, amts, i + 1) == sumA(ops, amts, i) + z3.If(Or(op == S_("="), op == S_("-")), am, I(0)),
        sumB(ops, amts, i + 1) == sumB(ops, amts, i) + z3.If(Or(op == S_("="), op == S_("+")), am, I(0)))),
        patterns=[sumA(ops, amts, i + 1)]))
    st.pc.append(ForAllP([i], Implies(i >= 0, And(
        sumA(ops, amts, i + 1) == sumA(ops, amts, i) + z3.If(Or(op == S_("="), op == S_("-")), am, I(0)),
        sumB(ops, amts, i + 1) == sumB(ops, amts, i) + z3.If(Or(op == S_("="), op == S_("+")), am, I(0)))),
        patterns=[z3.MultiPattern(sumA(ops, amts, i), z3.Select(ops, i))]))
    e.trust("E-DIFFSUM: running totals of diff steps (sumA over '=','-'; sumB over '=','+') and their monotonicity for non-negative amounts")


def _steps_arrays(steps):
    # steps: seq[tuple[str,int]] -> flat arrays [tuple-none, str, str-none, int, int-none]
    return steps.v.arrs[1], steps.v.arrs[3]


@spec("sumA")
def _sumA(e, st, steps, i):
    ops, amts = _steps_arrays(steps)
    diff_theory(e, st, ops, amts)
    return SV(INT, sumA(ops, amts, i.v))


@spec("sumB")
def _sumB(e, st, steps, i):
    ops, amts = _steps_arrays(steps)
    diff_theory(e, st, ops, amts)
    return SV(INT, sumB(ops, amts, i.v))


@spec("DIFF")
def _DIFF(e, st, steps, a, b):
    """E-DIFF: a list of (op, n) with op in {=,+,-}, n >= 1, sum(=,-) == len(a), sum(=,+) == len(b); running totals monotone"""
    ops, amts = _steps_arrays(steps)
    diff_theory(e, st, ops, amts)
    i, j = z3.Int(fresh_name("df_i")), z3.Int(fresh_name("df_j"))
    op, am = z3.Select(ops, i), z3.Select(amts, i)
    S_ = z3.StringVal
    n = steps.v.len
    return SV(BOOL, And(Not(steps.none), n >= 0,
                        ForAllP([i], Implies(And(i >= 0, i < n), And(Not(z3.Select(steps.v.arrs[0], i)), Not(z3.Select(steps.v.arrs[2], i)), Not(z3.Select(steps.v.arrs[4], i)),
                                                                     Or(op == S_("="), op == S_("+"), op == S_("-")), am >= 1)), patterns=[z3.Select(ops, i)]),
                        sumA(ops, amts, n) == z3.Length(a.v), sumB(ops, amts, n) == z3.Length(b.v),
                        ForAllP([i, j], Implies(And(0 <= i, i <= j, j <= n), And(sumA(ops, amts, i) <= sumA(ops, amts, j), sumB(ops, amts, i) <= sumB(ops, amts, j))),
                                patterns=[z3.MultiPattern(sumA(ops, amts, i), sumA(ops, amts, j))]),
                        ForAllP([i, j], Implies(And(0 <= i, i <= j, j <= n), sumB(ops, amts, i) <= sumB(ops, amts, j)),
                                patterns=[z3.MultiPattern(sumB(ops, amts, i), sumB(ops, amts, j))])))


assumed("annotate.SpanUpdater.get_diff_steps",
    types={"a": "str", "b": "str"}, returns="seq[tuple[str,int]]",
    requires={"args": "a is not None and b is not None"},
    ensures={"diff": "DIFF(result, a, b)"},
    trusted_note="E-DIFF for fast_diff_match_patch.diff (C++): steps cover both strings exactly; minimality is NOT assumed")
assumed("annotate.SpanUpdater.get_diff_steps_builtin",
    types={"a": "str", "b": "str"}, returns="seq[tuple[str,int]]",
    requires={"args": "a is not None and b is not None"},
    ensures={"diff": "DIFF(result, a, b)"},
    trusted_note="E-DIFF for difflib.SequenceMatcher.get_opcodes (generator body outside the subset): opcodes tile both strings")

# class invariant of a constructed SpanUpdater (ghost fields posb/amt/len_a/len_b are set by ghost code in __init__),
# as separate clauses over (offsets, updaters, posb, amt, cur_a, cur_b)
def upd_clauses(offsets, updaters, posb, amt, cur_a, cur_b):
    rng = f"0 <= i and i < len({offsets})"
    return {
        "shape": f"{offsets} is not None and {updaters} is not None and len({offsets}) >= 0 and len({offsets}) == len({updaters}) and len({posb}) == len({offsets}) and len({amt}) == len({offsets}) "
                 f"and implies(len({offsets}) >= 1, {offsets}[0] == 0) and implies(len({offsets}) == 0, {cur_a} == 0) and 0 <= {cur_a} and 0 <= {cur_b}",
        "elems": f"forall(lambda i: implies({rng}, {updaters}[i] is not None and alive({updaters}[i]) and {updaters}[i].fn is not None and {updaters}[i].kw0 is not None "
                 f"and ({updaters}[i].fn == 0 or {updaters}[i].fn == 1) and {amt}[i] >= 1 and 0 <= {offsets}[i] and 0 <= {posb}[i] and {posb}[i] <= {cur_b}))",
        "kinds": f"forall(lambda i: implies({rng}, implies({updaters}[i].fn == 1, {updaters}[i].kw0 == {posb}[i] - {offsets}[i]) and implies({updaters}[i].fn == 0, {updaters}[i].kw0 == {posb}[i])))",
        "links": f"forall(lambda i: implies({rng} and i + 1 < len({offsets}), {offsets}[i + 1] == {offsets}[i] + {amt}[i] and {posb}[i] <= {posb}[i + 1] "
                 f"and implies({updaters}[i].fn == 1, {posb}[i] + {amt}[i] <= {posb}[i + 1])))",
        "last": f"implies(len({offsets}) >= 1, {offsets}[len({offsets}) - 1] + {amt}[len({offsets}) - 1] == {cur_a} "
                f"and implies({updaters}[len({offsets}) - 1].fn == 1, {posb}[len({offsets}) - 1] + {amt}[len({offsets}) - 1] <= {cur_b}))",
        # global (transitive) forms of `links`: ranges are ordered in text_before and their images are ordered in text_after
        "below": f"forall(lambda i: implies({rng}, {offsets}[i] + {amt}[i] <= {cur_a} and {posb}[i] + ite({updaters}[i].fn == 1, {amt}[i], 0) <= {cur_b}))",
        "mono": f"forall(lambda i, j: implies(0 <= i and i < j and j < len({offsets}), {offsets}[i] + {amt}[i] <= {offsets}[j] "
                f"and {posb}[i] + ite({updaters}[i].fn == 1, {amt}[i], 0) <= {posb}[j]))",
    }


shared["upd_clauses"] = upd_clauses
UPD_SELF = upd_clauses("self.offsets", "self.updaters", "self.posb", "self.amt", "self.len_a", "self.len_b")
UPD = "self is not None and " + " and ".join(f"({v})" for v in UPD_SELF.values())

contract("annotate.SpanUpdater.__init__",
    types={"self": "obj<SpanUpdater>", "text_before": "str", "text_after": "str", "use_dmp": "bool"}, returns="none", noraise=True, prop="C10",
    requires={"args": "self is not None and text_before is not None and text_after is not None and use_dmp is not None"},
    modifies=["self.offsets", "self.updaters", "self.posb", "self.amt", "self.len_a", "self.len_b"],
    locals_types={"offsets": "seq[int]", "updaters": "seq[obj<Partial>]"},
    ghost={"posb": "seq[int]", "amt": "seq[int]"},
    ghost_init={"g0": "len(ghost.posb) == 0 and len(ghost.amt) == 0"},
    ensures=dict({"UPD_" + k: v for k, v in UPD_SELF.items()}, lens="self.len_a == len(text_before) and self.len_b == len(text_after)"))

loop("annotate.SpanUpdater.__init__", 1,
    invariant=dict(upd_clauses("offsets", "updaters", "ghost.posb", "ghost.amt", "offset", "(offset + delta)"),
        sums="offset == sumA(it, k) and offset + delta == sumB(it, k)",
        ints="offset is not None and delta is not None",
        progress="0 <= offset and 0 <= offset + delta and offset + delta <= len(text_after) and offset <= len(text_before)"))
# ghost bookkeeping at the two places a range is opened (offsets.append is Expr#2 and Expr#4 of the function; Expr#1 is the docstring)
ghost_code("annotate.SpanUpdater.__init__", "after:Expr#2", "ghost.posb = seq_append(ghost.posb, offset + delta)\nghost.amt = seq_append(ghost.amt, amount)")
ghost_code("annotate.SpanUpdater.__init__", "after:Expr#4", "ghost.posb = seq_append(ghost.posb, offset + delta)\nghost.amt = seq_append(ghost.amt, amount)")


@spec("seq_append")
def _seq_append4(e, st, s, v):
    return e.seq_append(s, v)
ghost_code("annotate.SpanUpdater.__init__", "at:return",
    "self.posb = ghost.posb\nself.amt = ghost.amt\nself.len_a = len(text_before)\nself.len_b = len(text_after)")

# the value update() computes: the updater of the range selected by bisect, applied to the offset
contract("annotate.SpanUpdater.update",
    types={"self": "obj<SpanUpdater>", "offset": "int"}, returns="int", noraise=True, prop="C10",
    func_params={"bisect": ["bisect_left", "bisect_right"]},
    # update() reads nothing but its arguments, self.offsets/self.updaters and the two fields of the selected partial
    functional=["SpanUpdater.offsets", "SpanUpdater.updaters", "Partial.fn", "Partial.kw0"],
    requires={"upd": UPD, "offset": "offset is not None and 0 <= offset and offset <= self.len_a",
              # the excluded corner: an empty text_before has no range at all (IndexError, see DESIGN 6/C10)
              "nonempty": "len(self.offsets) >= 1"},
    ensures={
        # the translation of plain offsets to source offsets stays within the source
        "in_range": "result is not None and 0 <= result and result <= self.len_b",
        # the exact value: the range selected by the bisect variant, shifted (equal range) or replaced by its image (deleted range)
        "value": "exists(lambda i: 0 <= i and i < len(self.offsets) and implies(i + 1 < len(self.offsets), "
                 "ite(bisect is bisect_right, offset < self.offsets[i + 1], offset <= self.offsets[i + 1])) "
                 "and (i == 0 or ite(bisect is bisect_right, self.offsets[i] <= offset, self.offsets[i] < offset)) "
                 "and result == ite(self.updaters[i].fn == 1, offset + self.posb[i] - self.offsets[i], self.posb[i]))",
    })


@spec("upd_post")
def _upd_post(e, st, u, off, kind):
    """the postcondition of SpanUpdater.update instantiated for the call update(u, off, bisect_<kind>) with the call's value F_update(...)
    (functional contract): what any such call may assume.  Used to state lemmas over several calls."""
    from pyvc.values import Ty
    c = e.reg.contracts["annotate.SpanUpdater.update"]
    k = SV(Ty("func"), None, tag=("builtin", "bisect_left" if kind.v.as_long() == 0 else "bisect_right"))
    res = SV(INT, e.functional_app(st, "annotate.SpanUpdater.update", [u, off, k]))
    bound = {"self": SV(OBJ("SpanUpdater"), u.v, u.none), "offset": off, "bisect": k}
    pre = And(*[e.eval_spec(x, st, bound, None, None, c) for x in c.requires.values()])
    post = And(*[e.eval_spec(x, st, bound, res, st, c) for x in c.ensures.values()])
    return SV(BOOL, Implies(pre, post))


@spec("upd_val")
def _upd_val_a(e, st, u, off, kind):
    from pyvc.values import Ty
    k = SV(Ty("func"), None, tag=("builtin", "bisect_left" if kind.v.as_long() == 0 else "bisect_right"))
    return SV(INT, e.functional_app(st, "annotate.SpanUpdater.update", [u, off, k]))


UPD_U = "u is not None and " + " and ".join(f"({v})" for v in upd_clauses("u.offsets", "u.updaters", "u.posb", "u.amt", "u.len_a", "u.len_b").values())
# C10, clause "the translation of plain offsets to source offsets is monotone": over two calls of update on one updater
for _k1, _k2 in ((0, 0), (1, 1), (0, 1), (1, 0)):
    lemma(f"update_monotone_{_k1}{_k2}", ["u:obj<SpanUpdater>", "o1:int", "o2:int"],
          f"implies({UPD_U} and len(u.offsets) >= 1 and 0 <= o1 and " + ("o1 <= o2" if (_k1, _k2) != (1, 0) else "o1 < o2") + f" and o2 <= u.len_a "
          f"and upd_post(u, o1, {_k1}) and upd_post(u, o2, {_k2}), upd_val(u, o1, {_k1}) <= upd_val(u, o2, {_k2}))", always=True)


# ------------------------------------------------------------------------------------------------ html helpers (utils.py)
wf_html = z3.Function("wf_html", z3.StringSort(), z3.BoolSort())


@spec("wf_html")
def _wf_html(e, st, s):
    return SV(BOOL, wf_html(s.v))


assumed("utils.is_balanced_html",
    types={"text": "str"}, returns="bool", requires={"t": "text is not None"},
    pure_result="wf_html(text)",
    trusted_note="E-LXML: is_balanced_html(s) is an uninterpreted predicate wf(s) (lxml's parser decides it)")

assumed("utils.wrap_html_tags",
    types={"text": "str", "before": "str", "after": "str"}, returns="str",
    requires={"args": "text is not None and before is not None and after is not None"},
    ensures={"str": "result is not None"},
    trusted_note="E-RE-SUB: re.sub(r'(<[^>]+>)', before+'\\\\1'+after, text) only inserts `before`/`after` around maximal tag matches (no backslash in before/after)")

contract("utils.maybe_balance_style_tags",
    types={"start": "int", "end": "int", "plain_text": "str", "tolerance": "int"}, returns="tuple[int,int,str]", prop="C09", merge_ifs=True,
    requires={"args": "start is not None and end is not None and plain_text is not None and tolerance is not None and tolerance >= 0 "
                      "and 0 <= start and start <= end and end <= len(plain_text)"},
    ensures={
        "is_slice": "result is not None and result[0] is not None and result[1] is not None and result[2] == plain_text[result[0]:result[1]]",
        # NOTE (found while proving): `result[0] <= start` and `end <= result[1]` do NOT hold in general -- a later style tag is
        # searched from the already moved start and may pull `end` back ('<i></em> x <em>cite</i> y', span of '<em>cite</i>'
        # gives (0, 8)); what does hold, and what annotate_citations needs, is that the result is a well-formed slice:
        "ordered_in_text": "0 <= result[0] and result[0] <= result[1] and result[1] <= len(plain_text)",
    })

# ------------------------------------------------------------------------------------------------ annotate_citations
ANN_T = "seq[tuple[tuple[int,int],str,str]]"
TARGET = "ite(truthy(old(source_text)) and old(source_text) != old(plain_text), old(source_text), old(plain_text))"

contract("annotate.annotate_citations",
    types={"plain_text": "str", "annotations": ANN_T, "source_text": "str", "unbalanced_tags": "str", "use_dmp": "bool", "annotator": "obj"},
    returns="str", noraise=True, prop="C09", merge_ifs=True, merge_except=["If#2"],
    requires={
        "args": "plain_text is not None and annotations is not None and unbalanced_tags is not None and use_dmp is not None and annotator is None",
        "mode": "unbalanced_tags in ('unchecked', 'skip', 'wrap')",
        # documented domain: every annotation span lies inside the plain text; before/after are strings
        "spans": "forall(lambda i: implies(0 <= i and i < len(annotations), annotations[i] is not None and annotations[i][0] is not None "
                 "and annotations[i][0][0] is not None and annotations[i][0][1] is not None and annotations[i][1] is not None and annotations[i][2] is not None "
                 "and 0 <= annotations[i][0][0] and annotations[i][0][0] <= annotations[i][0][1] and annotations[i][0][1] <= len(plain_text)))",
        # excluded corner (DESIGN 6/C10): an empty plain text with a non-empty source has no diff range to translate offsets with
        "nonempty_when_translating": "implies(truthy(source_text) and source_text != plain_text, len(plain_text) >= 1)",
    },
    locals_types={"out": "seq[str]", "offset_updater": "obj<SpanUpdater>"},
    ghost={"content": "str"}, ghost_init={"c0": "ghost.content == ''"},
    ensures={
        # C09: the document text emitted between/inside the inserted strings is exactly the target text
        "content_is_target": f"ghost.content == {TARGET}",
    })

loop("annotate.annotate_citations", 1,
    invariant={
        "last_end_range": "last_end is not None and 0 <= last_end and last_end <= len(plain_text)",
        "out_ok": "out is not None",
        # everything emitted so far, minus the inserted strings, is the target text up to last_end (no drop, no duplicate, no reorder)
        "content_is_prefix": "ghost.content == plain_text[0:last_end]",
        "sorted_spans_wf": "forall(lambda i: implies(0 <= i and i < len(annotations), annotations[i] is not None and annotations[i][0] is not None "
                           "and annotations[i][0][0] is not None and annotations[i][0][1] is not None and annotations[i][1] is not None and annotations[i][2] is not None "
                           "and 0 <= annotations[i][0][0] and annotations[i][0][0] <= annotations[i][0][1] and annotations[i][0][1] <= loop_entry(len(ghost.plain0))))",
    })
R.contracts["annotate.annotate_citations"].ghost["plain0"] = "str"
R.contracts["annotate.annotate_citations"].ghost_init["p0"] = "ghost.plain0 == plain_text"
# document text appended by out.extend([...]) / the trailing out.append(...)
lemma("slice_concat3", ["t:str", "a:int", "b:int", "c:int"], "implies(0 <= a and a <= b and b <= c and c <= len(t), t[0:a] + t[a:b] + t[b:c] == t[0:c])")
lemma("slice_concat_tail", ["t:str", "a:int"], "implies(0 <= a and a <= len(t), t[0:a] + t[a:len(t)] == t)")
ghost_code("annotate.annotate_citations", "after:Expr#3", "use_lemma('slice_concat3', plain_text, last_end, start, end)\nghost.content = ghost.content + plain_text[last_end:start] + plain_text[start:end]")
ghost_code("annotate.annotate_citations", "after:Expr#4", "use_lemma('slice_concat_tail', plain_text, last_end)\nghost.content = ghost.content + plain_text[last_end:len(plain_text)]")
ghost_code("annotate.annotate_citations", "after:Assign#2", "assert len(offset_updater.offsets) >= 1 and offset_updater.len_a == len(plain_text) and offset_updater.len_b == len(source_text), 'updater_ready'")
ghost_code("annotate.annotate_citations", "loop1:body_start", "assert implies(offset_updater is not None, len(offset_updater.offsets) >= 1 and offset_updater.len_a == len(ghost.plain0)), 'updater_ready_in_loop'")

# two-state clauses of one loop iteration (prev(x) = value at the start of the iteration)
_SPAN_S = "it[k][0][0]"
_SPAN_E = "it[k][0][1]"
R.loops[("annotate.annotate_citations", 1)].step.update({
    # C10 clause A (no source text, 'unchecked'): a non-empty span that does not overlap an earlier one is emitted exactly once,
    # as  gap + before + text[start:end] + after,  in the (sorted) span order of the iteration
    "emits_exact": f"implies(offset_updater is None and unbalanced_tags == 'unchecked' and {_SPAN_S} >= prev(last_end) and {_SPAN_S} < {_SPAN_E}, "
                   f"len(out) == len(prev(out)) + 2 and out[len(out) - 1] == it[k][1] + plain_text[{_SPAN_S}:{_SPAN_E}] + it[k][2] "
                   f"and out[len(out) - 2] == plain_text[prev(last_end):{_SPAN_S}] and last_end == {_SPAN_E})",
    "never_more_than_once": "len(out) == len(prev(out)) or len(out) == len(prev(out)) + 2",
    # C11 guards: 'skip' emits an annotation only around a span that passed the balance test (also after the style-tag repair) ...
    "skip_emits_only_balanced": "implies(unbalanced_tags == 'skip' and len(out) > len(prev(out)), wf_html(plain_text[start:end]))",
    # ... and 'wrap' omits an annotation only when its span is completely covered by an earlier one
    "wrap_emits_all": "implies(unbalanced_tags == 'wrap' and len(out) == len(prev(out)), start >= end)",
})
R.loops[("annotate.annotate_citations", 1)].props.update({"emits_exact": "C10", "never_more_than_once": "C10", "skip_emits_only_balanced": "C11", "wrap_emits_all": "C11"})
