# Top-level composition: find.extract_reference_citations and find.get_citations  (C02 lifted to "every returned citation"; C04 no-raise)
# Loaded last (file name) so that the names exported by find.py / refs.py are available.
import z3
from pyvc.values import Obj, SV, INT, BOOL, STR, OBJ, SEQ, class_of, strval, TRUE, FALSE, fresh_name, ForAllP
from pyvc.engine import And, Or, Not, Implies, I

F = shared["find"]
RF = shared["refs"]
fields({"Document.offs": "seq[int]"})

# ------------------------------------------------------------------------------------------------ extract_reference_citations
contract("find.extract_reference_citations",
    types={"citation": "obj<ResourceCitation>", "document": "obj<Document>"}, returns="seq[obj<ReferenceCitation>]", noraise=True, prop="C02",
    requires={"cit": "cit_wf(citation) and alive(citation) and alive(citation.token) and citation.token.start is not None and citation.token.end is not None "
                     "and 0 <= citation.span()[0] and citation.span()[0] <= citation.span()[1]",
              "doc": RF["DOC_WF"], "roundtrip": RF["ROUNDTRIP"]},
    locals_types={"reference_citations": "seq[obj<ReferenceCitation>]"},
    ensures={"refs_spans": "result is not None and forall(lambda j: implies(0 <= j and j < len(result), result[j] is not None and alive(result[j]) and alive(result[j].metadata) and cit_wf(result[j]) and isinstance(result[j], ReferenceCitation) "
                           "and SPANS(result[j], document.plain_text) and result[j].span_start >= citation.span()[0]))"})

# ------------------------------------------------------------------------------------------------ Document construction and tokenization (assumed, pinned)
def _doc(s, name):
    import re as _re
    return _re.sub(r"\bdocument\b", name, s)


assumed("models.Document.__init__",
    params=["plain_text", "markup_text", "clean_steps"], defaults={"plain_text": "''", "markup_text": "''", "clean_steps": "None"},
    types={"plain_text": "str", "markup_text": "str", "clean_steps": "seq[str]"}, returns="obj<Document>", fresh_result=True,
    requires={"domain": "plain_text is not None and steps_valid(markup_text, clean_steps)"},
    ensures={"text": "result is not None and result.plain_text is not None and result.markup_text == markup_text "
                     "and implies((markup_text is None or markup_text == '') and (clean_steps is None or len(clean_steps) == 0), result.plain_text == plain_text)",
             "updaters": _doc(RF["DOC_WF"], "result"), "roundtrip": _doc(RF["ROUNDTRIP"], "result")},
    trusted_note="dataclass-generated __init__ + Document.__post_init__ (pinned): plain_text is the cleaned text; with markup, the two SpanUpdaters are built by "
                 "SpanUpdater.__init__ (verified: UPD) over (plain, markup) and (markup, plain); ROUNDTRIP is the assumed consistency of the two diffs; "
                 "steps_valid = the documented domain (every step a known cleaner name; 'html' among them when markup is given) -- outside it the constructor raises")


@spec("steps_valid")
def _steps_valid(e, st, markup, steps):
    f = z3.Function("steps_valid", z3.StringSort(), z3.BoolSort(), z3.IntSort(), z3.BoolSort())
    return SV(BOOL, f(markup.v if markup.ty.kind == "str" else z3.StringVal(""), steps.none if steps.ty.kind != "none" else TRUE,
                      steps.v.len if steps.ty.kind == "seq" else I(0)))


_TOK = lambda i: f"typed(self.words[{i}], 'obj<CitationToken>')"
TOKEN_DATA = (
    # data invariants of the tokens the shipped extractors build (reporters-db): edition lists are well formed and come from one of the three databases;
    # a short-form token has a page group that is a suffix of its text; a stop-word token has its group
    "forall(lambda t: implies(0 <= t and t < len(self.words) and isinstance(self.words[t], CitationToken), "
    + F["EDITIONS_WF"].replace("words[index]", "self.words[t]")
    + f" and len(({_TOK('t')}.exact_editions or {_TOK('t')}.variation_editions)) >= 1 "
    + f"and forall(lambda i: implies(0 <= i and i < len(({_TOK('t')}.exact_editions or {_TOK('t')}.variation_editions)), "
      f"({_TOK('t')}.exact_editions or {_TOK('t')}.variation_editions)[i].reporter.source in ('reporters', 'laws', 'journals'))) "
    + f"and {_TOK('t')}.short is not None and implies({_TOK('t')}.short, 'page' in {_TOK('t')}.groups and {_TOK('t')}.groups['page'] is not None "
      f"and suffix_of({_TOK('t')}.groups['page'], str(self.words[t]))))) "
    "and forall(lambda i: implies(0 <= i and i < len(self.words) and isinstance(self.words[i], Token), typed(self.words[i], 'obj<Token>').groups is not None)) "
    "and forall(lambda i: implies(0 <= i and i < len(self.words) and isinstance(self.words[i], StopWordToken), "
    "typed(self.words[i], 'obj<StopWordToken>').groups is not None and 'stop_word' in typed(self.words[i], 'obj<StopWordToken>').groups))")

assumed("models.Document.tokenize",
    types={"self": "obj<Document>", "tokenizer": "obj<Tokenizer>"}, returns="none",
    requires={"args": "self is not None and tokenizer is not None and self.plain_text is not None"},
    modifies=["self.words", "self.citation_tokens", "self.offs"],
    ensures={"part": "PART(self.words, self.plain_text, self.offs)",           # postcondition of Tokenizer.tokenize (proved, C12)
             "index_list": "INDEXES(self.citation_tokens, self.words)",         # likewise
             "lists": "self.words is not None and self.citation_tokens is not None",
             "alive": "forall(lambda i: implies(0 <= i and i < len(self.words), alive(self.words[i])))",
             "nonl": "NONL(self.words)", "token_data": TOKEN_DATA, "lemmas": "regex_lemmas()"},
    trusted_note="one line: self.words, self.citation_tokens = tokenizer.tokenize(self.plain_text); PART and INDEXES are the proved postconditions of "
                 "Tokenizer.tokenize (C12) over the ghost offsets; NONL and the token data invariants are properties of the shipped extractor list (assumed)")

# ------------------------------------------------------------------------------------------------ get_citations
_EX = {"text": "document.plain_text", "offs": "document.offs"}
def _year_def(c):
    x = f"{c}[j]"
    return (f"lambda j: (typed({x}, 'obj<ResourceCitation>').year is None or (1600 <= typed({x}, 'obj<ResourceCitation>').year and typed({x}, 'obj<ResourceCitation>').year <= G._highest_valid_year "
            f"and {x}.metadata.year is not None and len({x}.metadata.year) >= 4 and typed({x}, 'obj<ResourceCitation>').year == str_to_int({x}.metadata.year[0:4])))")


def _cits(c, t):
    rng = f"0 <= j and j < len({c})"
    return {"notnone": f"{c} is not None and forall(lambda j: implies({rng}, {c}[j] is not None))",
            "alive": f"forall(lambda j: implies({rng}, alive({c}[j]) and {c}[j].metadata is not None and alive({c}[j].metadata)))",
            "wf": f"forall(lambda j: implies({rng}, cit_wf({c}[j])))",
            # C02 for every citation, w.r.t. the cleaned text of the document
            "spans": f"forall(lambda j: implies({rng}, SPANS({c}[j], {t})))",
            # C18 (year soundness) for every full case citation
            "years": f"forall(lambda j: implies({rng} and isinstance({c}[j], FullCaseCitation), YS_{c}(j)))"}


contract("find.get_citations",
    types={"plain_text": "str", "remove_ambiguous": "bool", "tokenizer": "obj<Tokenizer>", "markup_text": "str", "clean_steps": "seq[str]"},
    returns="seq[obj<CitationBase>]", noraise=True, prop="C02",
    # no frame obligation: the objects get_citations mutates (is_parallel_citation on the citation just built) are allocated inside the call, but the
    # extractor contracts do not state freshness of their results
    frame_check=False,
    requires={"args": "plain_text is not None and remove_ambiguous is not None and tokenizer is not None and steps_valid(markup_text, clean_steps)",
              # the canned easter-egg citation (known finding C02-4) is outside the contract
              "not_easter_egg": "plain_text != 'eyecite'"},
    locals_types={"citations": "seq[obj<CitationBase>]", "references": "seq[obj<ReferenceCitation>]"},
    ghost={"doc": "obj<Document>"},
    ghost_args={"_extract_full_citation": _EX, "_extract_shortform_citation": _EX, "_extract_id_citation": _EX, "_extract_supra_citation": _EX},
    defs={"YS_citations": _year_def("citations"), "YS_result": _year_def("result")},
    props={"ordered_by_span": "C03", "distinct_spans": "C03", "years": "C18"},
    ensures=dict(_cits("result", "ghost.doc.plain_text"),
        # C03 at the API: document order, no two returned citations with identical spans (filter_citations' postconditions carried through remove_ambiguous)
        ordered_by_span="forall(lambda j, j2: implies(0 <= j and j < j2 and j2 < len(result), result[j].span() <= result[j2].span()))",
        distinct_spans="forall(lambda j, j2: implies(0 <= j and j < j2 and j2 < len(result), result[j].span() != result[j2].span()))",
        text_is_input= "implies((markup_text is None or markup_text == '') and (clean_steps is None or len(clean_steps) == 0), ghost.doc.plain_text == plain_text)"))
ghost_code("find.get_citations", "after:assign:document#1", "ghost.doc = document")
loop("find.get_citations", 1,
    invariant=dict(_cits("citations", "document.plain_text"), doc="document is ghost.doc"))
# lemma steps
ghost_code("find.get_citations", "after:assign:citation#5",
    "assert document.words[i] is token and isinstance(token, Token), 'unknown_token_is_word'\n"
    "assert token.start is not None and token.end is not None, 'unknown_token_offsets'\n"
    "assert 0 <= token.start and token.start <= token.end and token.end <= len(document.plain_text), 'unknown_token_in_text'\n"
    "assert str(token) == document.plain_text[token.start:token.end], 'unknown_token_text'")
ghost_code("find.get_citations", "after:assign:citation#5", "assert cit_wf(citation) and alive(citation) and alive(citation.metadata), 'unknown_citation_wf'\nassert SPANS(citation, document.plain_text), 'unknown_citation_spans'")
ghost_code("find.get_citations", "after:assign:citations#1", "assert citations is not None, 'filtered_not_none'\nassert forall(lambda j: implies(0 <= j and j < len(citations), citations[j] is not None)), 'filtered_elems_not_none'")
