# Contract for helpers.filter_citations  (C03: document order, unique spans; two-step merge keeps non-reference citations)
ELEMS_WF = "citations is not None and forall(lambda i: implies(0 <= i and i < len(citations), cit_wf(citations[i]) and citations[i].token.start is not None and citations[i].token.end is not None))"

contract("helpers.filter_citations",
    types={"citations": "seq[obj<CitationBase>]"}, returns="seq[obj<CitationBase>]", noraise=True, prop="C03",
    requires={"elems": ELEMS_WF},
    locals_types={"filtered_citations": "seq[obj<CitationBase>]", "sorted_citations": "seq[obj<CitationBase>]"},
    ghost={"fidx": "seq[int]", "finv": "seq[int]"},
    ghost_init={"g0": "len(ghost.fidx) == 1 and ghost.fidx[0] == 0 and len(ghost.finv) == 1 and ghost.finv[0] == 0"},
    ensures={
        "notnone": "result is not None",
        "nonempty_iff": "(len(result) == 0) == (len(citations) == 0)",
        # nothing invented: every returned citation is one of the given objects
        "subseq": "forall(lambda j: implies(0 <= j and j < len(result), exists(lambda i: 0 <= i and i < len(citations) and result[j] is citations[i])))",
        # no two returned citations have identical spans
        "distinct_spans": "forall(lambda j, j2: implies(0 <= j and j < j2 and j2 < len(result), result[j].span() != result[j2].span()))",
        # citations are returned in increasing order of their position in the text
        "ordered_by_span": "forall(lambda j, j2: implies(0 <= j and j < j2 and j2 < len(result), result[j].span() <= result[j2].span()))",
        # merging keeps every non-reference citation (of several NON-reference citations with the very same span the last one is kept:
        # "no two returned citations have identical spans"); a reference citation never displaces one
        "keeps_non_references": "forall(lambda i: implies(0 <= i and i < len(citations) and not isinstance(citations[i], ReferenceCitation) "
                                "and forall(lambda i2: implies(i < i2 and i2 < len(citations) and not isinstance(citations[i2], ReferenceCitation), citations[i2].span() != citations[i].span())), "
                                "exists(lambda j: 0 <= j and j < len(result) and result[j] is citations[i])))",
    })

loop("helpers.filter_citations", 1,
    invariant={
        "wf": "filtered_citations is not None and len(filtered_citations) >= 1 and len(ghost.fidx) == len(filtered_citations) and len(ghost.finv) == k + 1",
        "sub": "forall(lambda j: implies(0 <= j and j < len(filtered_citations), 0 <= ghost.fidx[j] and ghost.fidx[j] <= k and filtered_citations[j] is sorted_citations[ghost.fidx[j]]))",
        "elems_wf": "forall(lambda i: implies(0 <= i and i < len(filtered_citations), cit_wf(filtered_citations[i]) and filtered_citations[i].token.start is not None and filtered_citations[i].token.end is not None))",
        "increasing": "forall(lambda j, j2: implies(0 <= j and j < j2 and j2 < len(filtered_citations), ghost.fidx[j] < ghost.fidx[j2]))",
        "keeps": "forall(lambda i: implies(0 <= i and i <= k and not isinstance(sorted_citations[i], ReferenceCitation), "
                 "0 <= ghost.finv[i] and ghost.finv[i] < len(filtered_citations) and ghost.fidx[ghost.finv[i]] == i))",
    })
# ghost bookkeeping: fidx mirrors pop/append on filtered_citations; finv records where sorted[k+1] went
ghost_code("helpers.filter_citations", "after:call:filtered_citations.pop#1", "ghost.fidx = seq_pop(ghost.fidx)")
ghost_code("helpers.filter_citations", "after:call:filtered_citations.append#1", "ghost.fidx = seq_append(ghost.fidx, k + 1)")
ghost_code("helpers.filter_citations", "after:call:filtered_citations.append#2", "ghost.fidx = seq_append(ghost.fidx, k + 1)")
ghost_code("helpers.filter_citations", "loop1:body_end", "ghost.finv = seq_append(ghost.finv, len(filtered_citations) - 1)")


@spec("seq_pop")
def _seq_pop(e, st, s):
    from pyvc.values import SeqV, SV
    return SV(s.ty, SeqV(s.v.len - 1, s.v.arrs), s.none)


@spec("seq_append")
def _seq_append3(e, st, s, v):
    return e.seq_append(s, v)

WF_OF = "{x} is not None and forall(lambda i: implies(0 <= i and i < len({x}), cit_wf({x}[i]) and {x}[i].token.start is not None and {x}[i].token.end is not None))"
ghost_code("helpers.filter_citations", "after:assign:citations#1", "assert " + WF_OF.format(x="citations") + ", 'deduped_wf'")
ghost_code("helpers.filter_citations", "after:assign:sorted_citations#1", "assert " + WF_OF.format(x="sorted_citations") + ", 'sorted_wf'")
ghost_code("helpers.filter_citations", "loop1:body_start", "assert cit_wf(citation) and citation.token.start is not None and citation.token.end is not None, 'current_wf'")
# the de-duplication runs over D = sorted(citations, key=<is not a reference>): a stable permutation of the argument with the reference citations
# first, so that among citations with one span the last writer is a non-reference citation whenever there is one
ghost_code("helpers.filter_citations", "after:assign:citations#1",
    "assert forall(lambda b: implies(0 <= b and b < len(citations), 0 <= dedupe_src(citations, b) and dedupe_src(citations, b) < len(dedupe_input(citations)) "
    "and citations[b] is dedupe_input(citations)[dedupe_src(citations, b)] and 0 <= dsrc(citations, b) and dsrc(citations, b) < len(old(citations)) "
    "and citations[b] is old(citations)[dsrc(citations, b)])), 'dedupe_sources'\n"
    "assert forall(lambda i: implies(0 <= i and i < len(old(citations)), 0 <= sort_inv(dedupe_input(citations), i) and sort_inv(dedupe_input(citations), i) < len(old(citations)) "
    "and dedupe_input(citations)[sort_inv(dedupe_input(citations), i)] is old(citations)[i] and sort_src(dedupe_input(citations), sort_inv(dedupe_input(citations), i)) == i)), 'presort_is_permutation'\n"
    "assert forall(lambda i: implies(0 <= i and i < len(old(citations)) and not isinstance(old(citations)[i], ReferenceCitation) "
    "and forall(lambda i2: implies(i < i2 and i2 < len(old(citations)) and not isinstance(old(citations)[i2], ReferenceCitation), old(citations)[i2].span() != old(citations)[i].span())), "
    "dedupe_src(citations, dedupe_rep(citations, sort_inv(dedupe_input(citations), i))) == sort_inv(dedupe_input(citations), i))), 'nonref_is_last_writer'\n"
    "assert forall(lambda i: implies(0 <= i and i < len(old(citations)) and not isinstance(old(citations)[i], ReferenceCitation) "
    "and forall(lambda i2: implies(i < i2 and i2 < len(old(citations)) and not isinstance(old(citations)[i2], ReferenceCitation), old(citations)[i2].span() != old(citations)[i].span())), "
    "exists(lambda j: 0 <= j and j < len(citations) and citations[j] is old(citations)[i]))), 'dedupe_keeps_nonref'\n"
    "assert forall(lambda j: implies(0 <= j and j < len(citations), exists(lambda i: 0 <= i and i < len(old(citations)) and citations[j] is old(citations)[i]))), 'dedupe_subseq'")
ghost_code("helpers.filter_citations", "after:assign:sorted_citations#1",
    "assert forall(lambda a, b: implies(0 <= a and a < b and b < len(sorted_citations), sorted_citations[a].span() != sorted_citations[b].span())), 'sorted_distinct_spans'\n"
    "assert forall(lambda j: implies(0 <= j and j < len(citations), exists(lambda a: 0 <= a and a < len(sorted_citations) and sorted_citations[a] is citations[j]))), 'sorted_keeps_all'\n"
    "assert forall(lambda a: implies(0 <= a and a < len(sorted_citations), 0 <= sort_src(sorted_citations, a) and sort_src(sorted_citations, a) < len(citations) "
    "and sorted_citations[a] is citations[sort_src(sorted_citations, a)])), 'sorted_subseq'\n"
    "assert forall(lambda a: implies(0 <= a and a < len(sorted_citations), 0 <= dsrc(citations, sort_src(sorted_citations, a)) "
    "and dsrc(citations, sort_src(sorted_citations, a)) < len(old(citations)) "
    "and sorted_citations[a] is old(citations)[dsrc(citations, sort_src(sorted_citations, a))])), 'sorted_sources'")
ghost_code("helpers.filter_citations", "at:return",
    "assert forall(lambda j: implies(0 <= j and j < len(result), 0 <= sort_src(result, j) and sort_src(result, j) < len(filtered_citations) and result[j] is filtered_citations[sort_src(result, j)])), 'result_is_permutation'\n"
    "assert forall(lambda j: implies(0 <= j and j < len(result), result[j] is old(citations)[dsrc(citations, sort_src(sorted_citations, ghost.fidx[sort_src(result, j)]))] "
    "and 0 <= dsrc(citations, sort_src(sorted_citations, ghost.fidx[sort_src(result, j)])) and dsrc(citations, sort_src(sorted_citations, ghost.fidx[sort_src(result, j)])) < len(old(citations)))), 'result_sources'")


@spec("sort_src")
def _sort_src(e, st, s, a):
    """index in the input of the a-th element of sorted(input) (the ghost permutation of E-SORTED)"""
    from pyvc.values import SV, INT
    if not (s.tag and s.tag[0] == "sorted"):
        return SV(INT, a.v)          # not a sorted() result: identity
    return SV(INT, s.tag[2](a.v))


@spec("sort_inv")
def _sort_inv(e, st, s, i):
    """position in sorted(input) of the i-th input element (inverse of the ghost permutation of E-SORTED)"""
    from pyvc.values import SV, INT
    if not (s.tag and s.tag[0] == "sorted"):
        return SV(INT, i.v)
    return SV(INT, s.tag[3](i.v))


@spec("dedupe_input")
def _dedupe_input(e, st, s):
    """the sequence the {key: x for x in <seq>} comprehension iterated over"""
    if not (s.tag and s.tag[0] == "dedupe"):
        raise Exception("dedupe_input: not a de-duplicated sequence")
    return s.tag[1]


@spec("dedupe_rep")
def _dedupe_rep(e, st, s, i):
    """index in the de-duplicated result of the element kept for the key of input element i"""
    from pyvc.values import SV, INT
    if not (s.tag and s.tag[0] == "dedupe"):
        raise Exception("dedupe_rep: not a de-duplicated sequence")
    return SV(INT, s.tag[3](i.v))


@spec("dsrc")
def _dsrc(e, st, s, j):
    """index in the ARGUMENT list of the j-th de-duplicated citation: through the de-duplication witness and the pre-sort permutation"""
    from pyvc.values import SV, INT
    if not (s.tag and s.tag[0] == "dedupe"):
        raise Exception("dsrc: not a de-duplicated sequence")
    src = s.tag[1]
    w = s.tag[2](j.v)
    if src.tag and src.tag[0] == "sorted":
        return SV(INT, src.tag[2](w))
    return SV(INT, w)


@spec("dedupe_src")
def _dedupe_src(e, st, s, j):
    from pyvc.values import SV, INT
    if not (s.tag and s.tag[0] == "dedupe"):
        raise Exception("dedupe_src: not a de-duplicated sequence")
    return SV(INT, s.tag[2](j.v))
