# Contracts for the reference-citation extractors of eyecite/find.py  (C19)
import z3
from pyvc.values import Obj, SV, INT, BOOL, STR, OBJ, SEQ, class_of, strval, TRUE, FALSE, fresh_name, ForAllP
from pyvc.engine import And, Or, Not, Implies, I

assumed("utils.is_valid_name",
    types={"name": "str"}, returns="bool",
    trusted_note="name-validity rule: an uninterpreted predicate here (which names qualify is checked by the bounded stand-in)")

REF_OK = ("{r} is not None and alive({r}) and {r}.token is not None and alive({r}.token) and {r}.metadata is not None and alive({r}.metadata) "
          # every reference citation lies after the full case citation it derives from
          "and {r}.span_start is not None and {r}.span_start >= old(citation.span()[1]) "
          # and its offsets are valid in the (cleaned) plain text
          "and {r}.span_end is not None and {r}.full_span_start is not None and {r}.full_span_end is not None "
          "and 0 <= {r}.full_span_start and {r}.full_span_start <= {r}.span_start and {r}.span_start <= {r}.span_end "
          "and {r}.span_end <= {r}.full_span_end and {r}.full_span_end <= len(plain_text) "
          "and {r}.token.start == {r}.span_start and {r}.token.end == {r}.span_end "
          # C02 for a reference citation: class invariant and SPANS (the token text is the text at the span)
          "and cit_wf({r}) and isinstance({r}, ReferenceCitation) and SPANS({r}, plain_text)")

contract("find.extract_pincited_reference_citations",
    types={"citation": "obj<FullCaseCitation>", "plain_text": "str"}, returns="seq[obj<ReferenceCitation>]", noraise=True, prop="C19",
    requires={"cit": "cit_wf(citation) and plain_text is not None and citation.token.start is not None and citation.token.end is not None",
              "span_in_text": "0 <= citation.span()[1] and citation.span()[1] <= len(plain_text)"},
    locals_types={"reference_citations": "seq[obj<ReferenceCitation>]"},
    ensures={"refs_ok": "result is not None and forall(lambda j: implies(0 <= j and j < len(result), " + REF_OK.format(r="result[j]") + "))"})

loop("find.extract_pincited_reference_citations", 1,
    invariant={"refs_ok": "reference_citations is not None and forall(lambda j: implies(0 <= j and j < len(reference_citations), " + REF_OK.format(r="reference_citations[j]") + "))"})


# ------------------------------------------------------------------------------------------------ markup-derived references


def _upd_of(u):
    # the SpanUpdater class invariant (contracts/annotate.py: upd_clauses) for the updater `u`
    cl = shared["upd_clauses"](f"{u}.offsets", f"{u}.updaters", f"{u}.posb", f"{u}.amt", f"{u}.len_a", f"{u}.len_b")
    return f"{u} is not None and alive({u}) and isinstance({u}, SpanUpdater) and " + " and ".join(f"({v})" for v in cl.values())


P2M, M2P = "document.plain_to_markup", "document.markup_to_plain"
DOC_WF = ("document is not None and alive(document) and document.plain_text is not None "
          f"and implies({P2M} is not None, {_upd_of(P2M)} and {P2M}.len_a == len(document.plain_text) and implies(document.markup_text is not None, {P2M}.len_b == len(document.markup_text))) "
          f"and implies({M2P} is not None, {_upd_of(M2P)} and {M2P}.len_b == len(document.plain_text) and implies(document.markup_text is not None, {M2P}.len_a == len(document.markup_text)))")
# ROUNDTRIP (assumed of the two independently computed diffs; see checks/table.py C19 assumptions): a markup position at or after the
# image of plain offset p translates back to a plain offset at or after p
ROUNDTRIP = (f"implies({P2M} is not None and {M2P} is not None and document.markup_text is not None, "
             "forall(lambda p, q: implies(0 <= p and p <= len(document.plain_text) and upd_val(document.plain_to_markup, p, 1) <= q and q <= len(document.markup_text), "
             "upd_val(document.markup_to_plain, q, 0) >= p)))")

shared["refs"] = {"DOC_WF": DOC_WF, "ROUNDTRIP": ROUNDTRIP}
MREF_PARTS = {
    "shape": "{r} is not None and alive({r}) and {r}.token is not None and alive({r}.token) and {r}.metadata is not None and alive({r}.metadata) "
             "and {r}.span_start is not None and {r}.span_end is not None and {r}.full_span_start is not None and {r}.full_span_end is not None "
             "and {r}.token.start == {r}.span_start and {r}.token.end == {r}.span_end",
    # offsets valid in the cleaned text
    "in_text": "0 <= {r}.span_start and {r}.span_start <= len(document.plain_text) and 0 <= {r}.span_end and {r}.span_end <= len(document.plain_text) "
               "and 0 <= {r}.full_span_start and {r}.full_span_start <= len(document.plain_text) and 0 <= {r}.full_span_end and {r}.full_span_end <= len(document.plain_text)",
    # the four offsets are ordered (monotone translation, lemma update_monotone_*) and the token text is the text at the span
    "ordered": "{r}.full_span_start <= {r}.span_start and {r}.span_start <= {r}.span_end and {r}.span_end <= {r}.full_span_end "
               "and {r}.token.data == document.plain_text[{r}.span_start:{r}.span_end]",
    # C02 for a reference citation: class invariant and SPANS
    "spans": "cit_wf({r}) and isinstance({r}, ReferenceCitation) and SPANS({r}, document.plain_text)",
    # derived from a full case citation that starts at or before it
    "after_full": "0 <= ghost.src[{j}] and ghost.src[{j}] < len(citations) and isinstance(citations[ghost.src[{j}]], FullCaseCitation) "
                  "and {r}.span_start >= citations[ghost.src[{j}]].span()[0] and {r}.full_span_start >= citations[ghost.src[{j}]].span()[0]",
}


def _mref(seq, head):
    return dict({"len": f"{seq} is not None and {head}"},
                **{k: f"forall(lambda j: implies(0 <= j and j < len({seq}), " + v.format(r=f"{seq}[j]", j="j") + "))" for k, v in MREF_PARTS.items()})


contract("find.find_reference_citations_from_markup",
    types={"document": "obj<Document>", "citations": "seq[obj<CitationBase>]"}, returns="seq[obj<ReferenceCitation>]", noraise=True, prop="C19",
    requires={"doc": DOC_WF,
              "roundtrip": ROUNDTRIP,
              "cits": "citations is not None and forall(lambda k: implies(0 <= k and k < len(citations), cit_wf(citations[k]) and alive(citations[k]) and alive(citations[k].token) and citations[k].token.start is not None "
                      "and citations[k].token.end is not None and 0 <= citations[k].span()[0] and citations[k].span()[0] < len(document.plain_text)))"},
    locals_types={"references": "seq[obj<ReferenceCitation>]", "regexes": "seq[str]"},
    ghost={"src": "seq[int]", "cur": "int"},
    ghost_init={"g0": "len(ghost.src) == 0"},
    ensures=_mref("result", "len(result) <= len(ghost.src)"))

loop("find.find_reference_citations_from_markup", 1,
    invariant=_mref("references", "len(ghost.src) == len(references)"))
loop("find.find_reference_citations_from_markup", 2,
    invariant={"rx": "regexes is not None"})
loop("find.find_reference_citations_from_markup", 3,
    invariant=_mref("references", "len(ghost.src) == len(references)"))
ghost_code("find.find_reference_citations_from_markup", "loop1:body_start", "ghost.cur = k")
ghost_code("find.find_reference_citations_from_markup", "after:call:references.append#1", "ghost.src = seq_append(ghost.src, ghost.cur)")

MARKUP_REF_SKELETON = ["<(?:", ")>\\s*(", ")[:;.,\\s]*</(?:", ")>"]


@spec("on_finditer")
def _markup_ref_group1(e, st, ms, pat, text):
    """E-RE-GROUP1 for the style-tag regex of find_reference_citations_from_markup: its literal skeleton is
    <(?:TAGS)>\\s*(ALTS)[:;.,\\s]*</(?:TAGS)> -- the only top-level capturing group is neither optional nor inside an
    alternation, so it participates in every match.  The skeleton is re-read from the AST on every run; if it differs the
    fact is not assumed."""
    import ast as _ast
    if e.fn is None or e.fn.qname != "find.find_reference_citations_from_markup":
        return
    lit = None
    for n in _ast.walk(e.fn.node):
        if isinstance(n, _ast.Assign) and isinstance(n.targets[0], _ast.Name) and n.targets[0].id == "regex" and isinstance(n.value, _ast.JoinedStr):
            lit = [v.value for v in n.value.values if isinstance(v, _ast.Constant)]
    if lit != MARKUP_REF_SKELETON:
        return
    from pyvc.builtins_model import m_ghas, S
    j = z3.Int(fresh_name("g1j"))
    st.assume(ForAllP([j], Implies(And(j >= 0, j < ms.v.len), m_ghas(z3.Select(ms.v.arrs[0], j), S("#1"))), patterns=[z3.Select(ms.v.arrs[0], j)]))
    e.trust("E-RE-GROUP1: group 1 of the style-tag regex <(?:em|i)>\\s*(NAMES)[:;.,\\s]*</(?:em|i)> participates in every match (skeleton re-read from the AST)")

# lemma steps: monotone translation of the four markup offsets of one match
ghost_code("find.find_reference_citations_from_markup", "after:assign:end_in_plain#1",
    "use_lemma('update_monotone_00', document.markup_to_plain, start_in_markup + match.start(), start_in_markup + match.start(1))\n"
    "use_lemma('update_monotone_01', document.markup_to_plain, start_in_markup + match.start(1), start_in_markup + match.end(1))\n"
    "use_lemma('update_monotone_11', document.markup_to_plain, start_in_markup + match.end(1), start_in_markup + match.end())\n"
    "assert full_start_in_plain <= start_in_plain and start_in_plain <= end_in_plain and end_in_plain <= full_end_in_plain, 'offsets_ordered'")
# lemma steps: the two instances of ROUNDTRIP the invariant needs
ghost_code("find.find_reference_citations_from_markup", "after:assign:full_start_in_plain#1", "assert full_start_in_plain >= citation.span()[0], 'roundtrip_full_start'")
ghost_code("find.find_reference_citations_from_markup", "after:assign:start_in_plain#1", "assert start_in_plain >= citation.span()[0], 'roundtrip_start'")
