# Contracts for the reference-citation extractors of eyecite/find.py  (C19)
import z3
from pyvc.values import Obj, SV, INT, BOOL, STR, OBJ, SEQ, class_of, strval, TRUE, FALSE
from pyvc.engine import And, Or, Not, Implies, I

assumed("utils.is_valid_name",
    types={"name": "str"}, returns="bool",
    trusted_note="name-validity rule: an uninterpreted predicate here (which names qualify is checked by the bounded stand-in)")

REF_OK = ("{r} is not None and alive({r}) and {r}.token is not None and alive({r}.token) and {r}.metadata is not None and alive({r}.metadata) "
          # every reference citation lies after the full case citation it derives from
          "and {r}.span_start is not None and {r}.span_start >= old(citation.span()[1]) "
          # and its offsets are valid in the (cleaned) plain text
          "and {r}.span_end is not None and {r}.full_span_start is not None and {r}.full_span_end is not None "
          "and 0 <= {r}.full_span_start and {r}.full_span_start <= {r}.span_start and {r}.span_start <= {r}.span_end "
          "and {r}.span_end <= {r}.full_span_end and {r}.full_span_end <= len(plain_text) "
          "and {r}.token.start == {r}.span_start and {r}.token.end == {r}.span_end")

contract("find.extract_pincited_reference_citations",
    types={"citation": "obj<FullCaseCitation>", "plain_text": "str"}, returns="seq[obj<ReferenceCitation>]", noraise=True, prop="C19",
    requires={"cit": "cit_wf(citation) and plain_text is not None and citation.token.start is not None and citation.token.end is not None",
              "span_in_text": "0 <= citation.span()[1] and citation.span()[1] <= len(plain_text)"},
    locals_types={"reference_citations": "seq[obj<ReferenceCitation>]"},
    ensures={"refs_ok": "result is not None and forall(lambda j: implies(0 <= j and j < len(result), " + REF_OK.format(r="result[j]") + "))"})

loop("find.extract_pincited_reference_citations", 1,
    invariant={"refs_ok": "reference_citations is not None and forall(lambda j: implies(0 <= j and j < len(reference_citations), " + REF_OK.format(r="reference_citations[j]") + "))"})
