# Contracts for eyecite/find.py extraction functions and the add_metadata chain of eyecite/models.py
# C02: every constructed citation satisfies SPANS w.r.t. the document text.
import z3
from pyvc.values import Obj, SV, INT, BOOL, STR, OBJ, SEQ, class_of, strval, TRUE, FALSE
from pyvc.engine import And, Or, Not, Implies, I

WORDS_T = "seq[obj<TokenOrStr>]"
GHOST_DOC = {"text": "str", "offs": "seq[int]"}


def _fields(e, st, c):
    sm = e.spec_mode
    e.spec_mode = True
    try:
        tok = e.load_field(st, c, "token")
        tokT = SV(OBJ("Token"), tok.v, tok.none)
        d = {"tok": tokT, "ts": e.load_field(st, tokT, "start"), "te": e.load_field(st, tokT, "end")}
        for f in ("span_start", "span_end", "full_span_start", "full_span_end"):
            d[f] = e.load_field(st, c, f)
        md = e.load_field(st, c, "metadata")
        d["md"] = md
        d["pcss"] = e.load_field(st, md, "pin_cite_span_start")
        d["pcse"] = e.load_field(st, md, "pin_cite_span_end")
        d["pin"] = e.load_field(st, md, "pin_cite")
    finally:
        e.spec_mode = sm
    d["s"] = z3.If(d["span_start"].none, d["ts"].v, d["span_start"].v)
    d["e"] = z3.If(d["span_end"].none, d["te"].v, d["span_end"].v)
    d["fs"] = z3.If(d["full_span_start"].none, d["s"], d["full_span_start"].v)
    d["fe"] = z3.If(d["full_span_end"].none, d["e"], d["full_span_end"].v)
    return d


@spec("SPANS")
def _SPANS(e, st, c, text):
    """C02 for one citation: 0 <= full start <= span start <= span end <= full end <= len(text); the span starts at the
    token and covers it; the text at the token's offsets is the matched text; pin-cite span offsets are inside the text."""
    d = _fields(e, st, c)
    L = z3.Length(text.v)
    return SV(BOOL, And(Not(d["ts"].none), Not(d["te"].none),
                        0 <= d["fs"], d["fs"] <= d["s"], d["s"] <= d["e"], d["e"] <= d["fe"], d["fe"] <= L,
                        d["s"] == d["ts"].v, d["e"] >= d["te"].v, d["ts"].v <= d["te"].v,
                        z3.SubString(text.v, d["ts"].v, d["te"].v - d["ts"].v) == strval(d["tok"].v),
                        Implies(Not(d["pcss"].none), And(0 <= d["pcss"].v, d["pcss"].v <= d["s"])),
                        Implies(Not(d["pcse"].none), And(d["e"] <= d["pcse"].v, d["pcse"].v <= L))))


@spec("PIN_IN")
def _PIN_IN(e, st, c, text):
    """when a pin cite was captured, the pin-cite text lies inside the pin-cite span (min/max of the span and pin offsets)"""
    d = _fields(e, st, c)
    lo = z3.If(And(Not(d["pcss"].none), d["pcss"].v < d["s"]), d["pcss"].v, d["s"])
    hi = z3.If(And(Not(d["pcse"].none), d["pcse"].v > d["e"]), d["pcse"].v, d["e"])
    return SV(BOOL, Or(d["pin"].none, And(0 <= lo, lo <= hi, hi <= z3.Length(text.v),
                                          z3.Contains(z3.SubString(text.v, lo, hi - lo), d["pin"].v))))


_YEAR_OF = lambda c: (f"({c}.year is None or (1600 <= {c}.year and {c}.year <= G._highest_valid_year and {c}.metadata.year is not None "
                      f"and len({c}.metadata.year) >= 4 and {c}.year == str_to_int({c}.metadata.year[0:4])))")
TOK_AT = "index is not None and 0 <= index and index < len(words) and isinstance(words[index], {cls})"
EDITIONS_WF = ("typed(words[index], 'obj<CitationToken>').groups is not None and typed(words[index], 'obj<CitationToken>').exact_editions is not None and typed(words[index], 'obj<CitationToken>').variation_editions is not None "
               "and forall(lambda i: implies(0 <= i and i < len(typed(words[index], 'obj<CitationToken>').exact_editions), typed(words[index], 'obj<CitationToken>').exact_editions[i] is not None and typed(words[index], 'obj<CitationToken>').exact_editions[i].reporter is not None)) "
               "and forall(lambda i: implies(0 <= i and i < len(typed(words[index], 'obj<CitationToken>').variation_editions), typed(words[index], 'obj<CitationToken>').variation_editions[i] is not None and typed(words[index], 'obj<CitationToken>').variation_editions[i].reporter is not None))")

shared["find"] = {"TOK_AT": TOK_AT, "EDITIONS_WF": EDITIONS_WF, "WORDS_T": WORDS_T}

# ------------------------------------------------------------------------------------------------ add_metadata chain
SELF_AT = ("cit_wf(self) and 0 <= self.index and self.index < len(words) and words[self.index] is self.token "
           "and self.span_start is None and self.span_end is None")
SELF_EDITIONS = ("self.exact_editions is not None and self.variation_editions is not None and self.all_editions is not None "
                 "and forall(lambda i: implies(0 <= i and i < len(self.exact_editions), self.exact_editions[i] is not None)) "
                 "and forall(lambda i: implies(0 <= i and i < len(self.variation_editions), self.variation_editions[i] is not None)) "
                 "and forall(lambda i: implies(0 <= i and i < len(self.all_editions), self.all_editions[i] is not None and self.all_editions[i].reporter is not None))")

contract("models.ResourceCitation.add_metadata",
    types={"self": "obj<ResourceCitation>", "words": WORDS_T}, returns="none", noraise=True, prop="C18",
    requires={"self": "self is not None", "editions": SELF_EDITIONS},
    modifies=["self.edition_guess"],
    ensures={"guess_member": "self.edition_guess is old(self.edition_guess) or exists(lambda i: 0 <= i and i < len(self.exact_editions or self.variation_editions) and (self.exact_editions or self.variation_editions)[i] is self.edition_guess)"})

contract("models.CaseCitation.guess_court",
    types={"self": "obj<CaseCitation>"}, returns="none", noraise=True, prop="C04",
    requires={"self": "self is not None and self.metadata is not None and metadata_wf(self)", "editions": SELF_EDITIONS},
    modifies=["self.metadata.court"])

FRESH_FULL = ("self.full_span_start is None and self.full_span_end is None and self.year is None and self.metadata.pin_cite is None "
              "and self.metadata.pin_cite_span_start is None and self.metadata.pin_cite_span_end is None and self.metadata.year is None "
              "and self.metadata.parenthetical is None")

contract("models.FullCaseCitation.add_metadata",
    types={"self": "obj<FullCaseCitation>", "words": WORDS_T}, returns="none", noraise=True, prop="C02", ghost=GHOST_DOC,
    requires={"part": "PART(words, ghost.text, ghost.offs)", "nonl": "NONL(words)", "self_at": SELF_AT, "editions": SELF_EDITIONS, "lemmas": "regex_lemmas()",
              "fresh": FRESH_FULL + " and self.metadata.extra is None and self.metadata.plaintiff is None and self.metadata.defendant is None and self.metadata.antecedent_guess is None",
              "stopword_groups": "forall(lambda i: implies(0 <= i and i < len(words) and isinstance(words[i], StopWordToken), "
                                 "typed(words[i], 'obj<StopWordToken>').groups is not None and 'stop_word' in typed(words[i], 'obj<StopWordToken>').groups))"},
    modifies=["self.full_span_start", "self.full_span_end", "self.year", "self.edition_guess", "self.metadata.pin_cite", "self.metadata.pin_cite_span_start",
              "self.metadata.pin_cite_span_end", "self.metadata.extra", "self.metadata.parenthetical", "self.metadata.year", "self.metadata.court",
              "self.metadata.plaintiff", "self.metadata.defendant", "self.metadata.antecedent_guess"],
    ensures={"spans": "SPANS(self, ghost.text)",
             "year_sound": "self.year is None or (1600 <= self.year and self.year <= G._highest_valid_year and self.metadata.year is not None and len(self.metadata.year) >= 4 and self.year == str_to_int(self.metadata.year[0:4]))"},
    props={"year_sound": "C18"})

for _cls in ("FullLawCitation", "FullJournalCitation"):
    contract(f"models.{_cls}.add_metadata",
        types={"self": f"obj<{_cls}>", "words": WORDS_T}, returns="none", noraise=True, prop="C02", ghost=GHOST_DOC,
        requires={"part": "PART(words, ghost.text, ghost.offs)", "self_at": SELF_AT, "editions": SELF_EDITIONS, "lemmas": "regex_lemmas()",
                  "fresh": FRESH_FULL + (" and self.metadata.publisher is None and self.metadata.day is None and self.metadata.month is None" if _cls == "FullLawCitation" else "")},
        modifies=["self.full_span_end", "self.year", "self.edition_guess", "self.metadata.pin_cite", "self.metadata.parenthetical", "self.metadata.year"]
                 + (["self.metadata.publisher", "self.metadata.day", "self.metadata.month"] if _cls == "FullLawCitation" else []),
        ensures={"spans": "SPANS(self, ghost.text)",
                 "year_sound": "self.year is None or (1600 <= self.year and self.year <= G._highest_valid_year and self.metadata.year is not None and len(self.metadata.year) >= 4 and self.year == str_to_int(self.metadata.year[0:4]))"},
        props={"year_sound": "C18"})

# ------------------------------------------------------------------------------------------------ extraction functions
contract("find._extract_id_citation",
    types={"words": WORDS_T, "index": "int"}, returns="obj<IdCitation>", noraise=True, prop="C02", ghost=GHOST_DOC,
    requires={"part": "PART(words, ghost.text, ghost.offs)", "tok": TOK_AT.format(cls="IdToken"), "lemmas": "regex_lemmas()",
              "groups": "typed(words[index], 'obj<Token>').groups is not None"},       # Token.from_match stores m.groupdict()
    ensures={"made": "result is not None and result.token is words[index] and result.index == index",
             "wf": "cit_wf(result) and alive(result) and alive(result.metadata) and isinstance(result, IdCitation)",
             "spans": "SPANS(result, ghost.text)", "pin_in": "PIN_IN(result, ghost.text)"})

contract("find._extract_supra_citation",
    types={"words": WORDS_T, "index": "int"}, returns="obj<SupraCitation>", noraise=True, prop="C02", ghost=GHOST_DOC,
    requires={"part": "PART(words, ghost.text, ghost.offs)", "tok": TOK_AT.format(cls="SupraToken"), "lemmas": "regex_lemmas()",
              "groups": "typed(words[index], 'obj<Token>').groups is not None"},       # Token.from_match stores m.groupdict()
    ensures={"made": "result is not None and result.token is words[index] and result.index == index",
             "wf": "cit_wf(result) and alive(result) and alive(result.metadata) and isinstance(result, SupraCitation)",
             "spans": "SPANS(result, ghost.text)", "pin_in": "PIN_IN(result, ghost.text)"})

contract("find._extract_shortform_citation",
    types={"words": WORDS_T, "index": "int"}, returns="obj<ShortCaseCitation>", noraise=True, prop="C02", ghost=GHOST_DOC,
    requires={"part": "PART(words, ghost.text, ghost.offs)", "tok": TOK_AT.format(cls="CitationToken"), "lemmas": "regex_lemmas()",
              "editions": EDITIONS_WF,
              # a short-form token has a page group (the regex was made by short_cite_re from a template with (?P<page>...))
              "page_group": "typed(words[index], 'obj<CitationToken>').groups is not None and 'page' in typed(words[index], 'obj<CitationToken>').groups "
                            "and typed(words[index], 'obj<CitationToken>').groups['page'] is not None",
              "page_is_suffix": "suffix_of(typed(words[index], 'obj<CitationToken>').groups['page'], str(words[index]))"},
    ensures={"made": "result is not None and result.token is words[index] and result.index == index",
             "wf": "cit_wf(result) and alive(result) and alive(result.metadata) and isinstance(result, ShortCaseCitation)",
             "spans": "SPANS(result, ghost.text)", "pin_in": "PIN_IN(result, ghost.text)"})

contract("find._extract_full_citation",
    types={"words": WORDS_T, "index": "int"}, returns="obj<FullCitation>", noraise=True, prop="C02", ghost=GHOST_DOC,
    fresh_paths=["result", "result.metadata"],     # the citation and its Metadata object are allocated here (the caller mutates them: is_parallel_citation)
    requires={"part": "PART(words, ghost.text, ghost.offs)", "nonl": "NONL(words)", "tok": TOK_AT.format(cls="CitationToken"), "lemmas": "regex_lemmas()",
              "editions": EDITIONS_WF,
              # data invariant of the shipped extractors: every edition's reporter source is one of the three databases
              "sources": "forall(lambda i: implies(0 <= i and i < len((typed(words[index], 'obj<CitationToken>').exact_editions or typed(words[index], 'obj<CitationToken>').variation_editions)), "
                         "(typed(words[index], 'obj<CitationToken>').exact_editions or typed(words[index], 'obj<CitationToken>').variation_editions)[i].reporter.source in ('reporters', 'laws', 'journals'))) "
                         "and len((typed(words[index], 'obj<CitationToken>').exact_editions or typed(words[index], 'obj<CitationToken>').variation_editions)) >= 1",
              "stopword_groups": "forall(lambda i: implies(0 <= i and i < len(words) and isinstance(words[i], StopWordToken), "
                                 "typed(words[i], 'obj<StopWordToken>').groups is not None and 'stop_word' in typed(words[i], 'obj<StopWordToken>').groups))"},
    ensures={"made": "result is not None and result.token is words[index] and result.index == index",
             "wf": "cit_wf(result) and alive(result) and alive(result.metadata) and isinstance(result, FullCitation)",
             "spans": "SPANS(result, ghost.text)",
             "year_sound": _YEAR_OF("typed(result, 'obj<ResourceCitation>')").replace("typed(result, 'obj<ResourceCitation>').metadata", "result.metadata")},
    props={"year_sound": "C18"})

for _fn in ("find._extract_id_citation", "find._extract_supra_citation", "find._extract_shortform_citation"):
    ghost_code(_fn, "at:return",
        "use_lemma('window_sub', ghost.text, ghost.offs[index + 1] - len(ghost.pfx), result.span_end, ghost.offs[index], result.span_end, result.metadata.pin_cite)")
    R.contracts[_fn].ghost = dict(GHOST_DOC, pfx="str")
R.contracts["find._extract_id_citation"].ghost_init["pfx"] = "ghost.pfx == ''"
R.contracts["find._extract_supra_citation"].ghost_init["pfx"] = "ghost.pfx == ''"
R.contracts["find._extract_shortform_citation"].ghost_init["pfx"] = "ghost.pfx == typed(words[index], 'obj<CitationToken>').groups['page']"

# ------------------------------------------------------------------------------------------------ parallel citations (C17)
contract("models.FullCaseCitation.is_parallel_citation",
    types={"self": "obj<FullCaseCitation>", "preceding": "obj<CaseCitation>"}, returns="none", noraise=True, prop="C17",
    requires={"objs": "cit_wf(self) and cit_wf(preceding) and isinstance(preceding, FullCaseCitation)",     # the only call site passes a FullCaseCitation
              "year_pre": _YEAR_OF("preceding"), "year_self": _YEAR_OF("self")},
    modifies=["self.metadata.defendant", "self.metadata.plaintiff", "self.metadata.year", "self.year"],
    ensures={
        # a citation takes parties / year from the preceding one only when both are part of one joined extent:
        # both full spans are defined and start at the same place
        "parallel_only_when_joined": "implies(not (self.full_span_start is not None and preceding.full_span_start is not None and self.full_span_start == preceding.full_span_start), "
                                     "self.metadata.defendant == old(self.metadata.defendant) and self.metadata.plaintiff == old(self.metadata.plaintiff) "
                                     "and self.metadata.year == old(self.metadata.year) and self.year == old(self.year))",
        "copies_when_joined": "implies(self.full_span_start is not None and preceding.full_span_start is not None and self.full_span_start == preceding.full_span_start, "
                              "self.metadata.defendant == preceding.metadata.defendant and self.metadata.plaintiff == preceding.metadata.plaintiff "
                              "and self.metadata.year == preceding.metadata.year and self.year == preceding.year)",
        "year_sound": _YEAR_OF("self"),
    },
    props={"year_sound": "C18"})
