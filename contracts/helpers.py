# Contracts for eyecite/helpers.py and the span methods of eyecite/models.py
# (C02 offsets, C17 provenance, C18 year stores, C03 overlap helper is in c18_helpers.py)
#
# Shared abstractions (DESIGN section 5):
#   PART(words, text, offs)  -- the token list partitions the text, pointwise over the ghost offset array
#   WIN                      -- what helpers.match_on_tokens returns (window of the text, anchored)
import z3
from pyvc.values import Obj, SV, INT, BOOL, STR, OBJ, SEQ, TUP, class_of, strval, fresh_name, TRUE, FALSE
from pyvc.engine import And, Or, Not, Implies, I
from pyvc import builtins_model as bm

m_regex = z3.Function("m_regex", Obj, z3.StringSort())
re_nullable = z3.Function("re_nullable", z3.StringSort(), z3.BoolSort())     # the pattern matches the empty string      # the (unwrapped) pattern a window match was made with


def _off(offs, i):
    return z3.Select(offs.v.arrs[0], i)


@spec("PART")
def _PART(e, st, words, text, offs):
    """The token list partitions `text`: offs[0] == 0, offs[n] == len(text), word i is text[offs[i]:offs[i+1]],
    special tokens carry exactly these offsets; offs is non-decreasing (needed by consumers, proved by C12)."""
    n = words.v.len
    i = z3.Int(fresh_name("pi"))
    j = z3.Int(fresh_name("pj"))
    w = z3.Select(words.v.arrs[0], i)
    wnone = z3.Select(words.v.arrs[1], i)
    tok = SV(OBJ("Token"), w)
    saved = e.spec_mode
    e.spec_mode = True
    try:
        ts = e.load_field(st, tok, "start")
        te = e.load_field(st, tok, "end")
    finally:
        e.spec_mode = saved
    body = And(Not(wnone), e.class_in(w, "TokenOrStr"),
               _off(offs, i + 1) == _off(offs, i) + z3.Length(strval(w)),
               strval(w) == z3.SubString(text.v, _off(offs, i), _off(offs, i + 1) - _off(offs, i)),
               Implies(e.class_in(w, "Token"), And(Not(ts.none), Not(te.none), ts.v == _off(offs, i), te.v == _off(offs, i + 1))))
    return SV(BOOL, And(Not(words.none), Not(text.none), offs.v.len == n + 1, _off(offs, I(0)) == 0, _off(offs, n) == z3.Length(text.v),
                        z3.ForAll([i], Implies(And(i >= 0, i < n), body), patterns=[z3.Select(words.v.arrs[0], i)]),
                        z3.ForAll([i, j], Implies(And(0 <= i, i <= j, j <= n), _off(offs, i) <= _off(offs, j)),
                                  patterns=[z3.MultiPattern(_off(offs, i), _off(offs, j))])))


@spec("NONL")
def _NONL(e, st, words):
    """Plain-string words contain no newline (every newline is a ParagraphToken of the shipped extractors)."""
    i = z3.Int(fresh_name("ni"))
    w = z3.Select(words.v.arrs[0], i)
    return SV(BOOL, z3.ForAll([i], Implies(And(i >= 0, i < words.v.len, class_of(w) == 0), Not(z3.Contains(strval(w), z3.StringVal("\n")))),
                              patterns=[z3.Select(words.v.arrs[0], i)]))


@spec("m_text")
def _m_text(e, st, m):
    return SV(STR, bm.m_text(m.v))


@spec("m_start")
def _m_start(e, st, m, g=None):
    return SV(INT, bm.m_gstart(m.v, z3.StringVal("0") if g is None else bm.group_key(e, g)))


@spec("m_end")
def _m_end(e, st, m, g=None):
    return SV(INT, bm.m_gend(m.v, z3.StringVal("0") if g is None else bm.group_key(e, g)))


@spec("m_has")
def _m_has(e, st, m, g):
    return SV(BOOL, And(Not(m.none), bm.m_ghas(m.v, bm.group_key(e, g))))


@spec("m_regex")
def _m_regex(e, st, m):
    return SV(STR, m_regex(m.v))


@spec("re_nullable")
def _re_nullable(e, st, r):
    return SV(BOOL, re_nullable(r.v))


@spec("prefix_of")
def _prefix_of(e, st, a, b):
    return SV(BOOL, z3.PrefixOf(a.v, b.v))


@spec("suffix_of")
def _suffix_of(e, st, a, b):
    return SV(BOOL, z3.SuffixOf(a.v, b.v))


@spec("tail")
def _tail(e, st, s, a):
    """s[a:] for 0 <= a <= len(s)"""
    return SV(STR, z3.SubString(s.v, a.v, z3.Length(s.v) - a.v))


@spec("on_re_match")
def _on_re_match(e, st, m, fname, pat, text, kw):
    """E-RE-ANCHOR: a pattern written ^(?:R) (no MULTILINE) can only match at offset 0; (?:R)$ ends at the end of
    the text or just before a final newline.  Recognised syntactically on the pattern term built by the code."""
    def flat(t):
        if z3.is_app(t) and t.decl().kind() == z3.Z3_OP_SEQ_CONCAT:
            out = []
            for k_ in range(t.num_args()):
                out += flat(t.arg(k_))
            return out
        return [t]
    parts = flat(pat.v)
    if len(parts) == 3:
        a0, a1, a2 = parts
        zero = z3.StringVal("0")
        if z3.is_string_value(a0) and a0.as_string() == "^(?:" and z3.is_string_value(a2) and a2.as_string() == ")":
            st.assume(Implies(Not(m.none), And(bm.m_gstart(m.v, zero) == 0, m_regex(m.v) == a1)))
            # a pattern that matches the empty string, anchored at the start, matches every text
            st.assume(Implies(re_nullable(a1), Not(m.none)))
            e.trust("E-RE-ANCHOR: a match of ^(?:R) starts at 0; a match of (?:R)$ ends at len(text) or just before a final newline")
        if z3.is_string_value(a0) and a0.as_string() == "(?:" and z3.is_string_value(a2) and a2.as_string() == ")$":
            T = bm.m_text(m.v)
            st.assume(Implies(Not(m.none), And(Or(bm.m_gend(m.v, zero) == z3.Length(T),
                                                  And(bm.m_gend(m.v, zero) == z3.Length(T) - 1, z3.SuffixOf(z3.StringVal("\n"), T))),
                                               m_regex(m.v) == a1)))
            e.trust("E-RE-ANCHOR: a match of ^(?:R) starts at 0; a match of (?:R)$ ends at len(text) or just before a final newline")


# ------------------------------------------------------------------------------------------------ span methods
contract("models.CitationBase.span",
    types={"self": "obj<CitationBase>"}, returns="tuple[int,int]", noraise=True, prop="C02",
    requires={"self": "cit_wf(self)"},
    pure_result="(ite(self.span_start is not None, self.span_start, self.token.start), ite(self.span_end is not None, self.span_end, self.token.end))")

contract("models.CitationBase.full_span",
    types={"self": "obj<CitationBase>"}, returns="tuple[int,int]", noraise=True, prop="C02",
    requires={"self": "cit_wf(self)"},
    pure_result="(ite(self.full_span_start is not None, self.full_span_start, ite(self.span_start is not None, self.span_start, self.token.start)),"
                " ite(self.full_span_end is not None, self.full_span_end, ite(self.span_end is not None, self.span_end, self.token.end)))")

contract("models.CitationBase.span_with_pincite",
    types={"self": "obj<CitationBase>"}, returns="tuple[int,int]", noraise=True, prop="C02",
    requires={"self": "cit_wf(self) and self.token.start is not None and self.token.end is not None"},
    ensures={
        # the pin-cite span contains the span
        "contains_span": "result[0] <= ite(self.span_start is not None, self.span_start, self.token.start) and "
                         "result[1] >= ite(self.span_end is not None, self.span_end, self.token.end)",
        "start_is_min": "result[0] <= self.token.start and implies(self.metadata.pin_cite_span_start is not None, result[0] <= self.metadata.pin_cite_span_start)"
                        " and (result[0] == self.token.start or (self.span_start is not None and result[0] == self.span_start) or (self.metadata.pin_cite_span_start is not None and result[0] == self.metadata.pin_cite_span_start))",
        "end_is_max": "result[1] >= self.token.end and implies(self.metadata.pin_cite_span_end is not None, result[1] >= self.metadata.pin_cite_span_end)"
                      " and (result[1] == self.token.end or (self.span_end is not None and result[1] == self.span_end) or (self.metadata.pin_cite_span_end is not None and result[1] == self.metadata.pin_cite_span_end))",
    })

# ------------------------------------------------------------------------------------------------ WIN: match_on_tokens
WORDS_T = "seq[obj<TokenOrStr>]"
GHOST_DOC = {"text": "str", "offs": "seq[int]"}

contract("helpers.match_on_tokens",
    types={"words": WORDS_T, "start_index": "int", "regex": "str", "prefix": "str", "strings_only": "bool", "forward": "bool", "flags": "int"},
    returns="obj<Match>", noraise=True, prop="C02", ghost=GHOST_DOC,
    requires={
        "part": "PART(words, ghost.text, ghost.offs)",
        "args": "start_index is not None and regex is not None and prefix is not None and strings_only is not None and forward is not None and flags is not None",
        "forward_from": "implies(forward, start_index >= 0)",
        "backward_from": "implies(not forward, start_index >= 0 - 1 and start_index < len(words) and prefix == '')",
    },
    ensures={
        # forward: the matched window is a prefix of  prefix ++ text[offs[s]:]  and the match is anchored at 0
        "fwd_window": "implies(forward and result is not None, prefix_of(m_text(result), prefix + tail(ghost.text, ghost.offs[min(start_index, len(words))])))",
        "fwd_anchor": "implies(forward and result is not None, m_start(result) == 0)",
        # backward: the window is a suffix of the text before the end of word start_index, the match ends at its end
        "bwd_window": "implies(not forward and result is not None, suffix_of(m_text(result), ghost.text[0:ghost.offs[start_index + 1]]))",
        "bwd_anchor": "implies(not forward and result is not None, m_end(result) == len(m_text(result)) or m_end(result) == len(m_text(result)) - 1)",
        "bwd_no_newline": "implies(not forward and strings_only and NONL(words) and result is not None, not ('\\n' in m_text(result)) and m_end(result) == len(m_text(result)))",
        "regex": "implies(result is not None, m_regex(result) == old(regex))",
        "nullable_always_matches": "implies(forward and re_nullable(old(regex)), result is not None)",
        "bounded": "implies(result is not None, len(m_text(result)) <= 300 + len(prefix))",
    })

loop("helpers.match_on_tokens", 1,
    invariant={
        "fwd": "implies(forward, text == prefix + ghost.text[ghost.offs[min(start_index, len(words))]:ghost.offs[min(start_index, len(words)) + k]])",
        "bwd": "implies(not forward, text == ghost.text[ghost.offs[start_index + 1 - k]:ghost.offs[start_index + 1]])",
        "txt": "text is not None",
        "bounded": "k == 0 or len(text) < 300",
        "no_newline": "implies(not forward and strings_only and NONL(words), not ('\\n' in text))",
    })
# intermediate lemma (slice concatenation) right after the append / prepend
ghost_code("helpers.match_on_tokens", "after:AugAssign#1",
    "assert text == prefix + ghost.text[ghost.offs[min(start_index, len(words))]:ghost.offs[min(start_index, len(words)) + k + 1]], 'slice_concat_fwd'")
ghost_code("helpers.match_on_tokens", "after:Assign#7",
    "assert text == ghost.text[ghost.offs[start_index - k]:ghost.offs[start_index + 1]], 'slice_concat_bwd'")

# ------------------------------------------------------------------------------------------------ regex lemmas (DESIGN 4.2)
REGEX_HEAD = ["POST_FULL_CITATION_REGEX", "POST_SHORT_CITATION_REGEX", "POST_JOURNAL_CITATION_REGEX"]
REGEX_YEAR = ["POST_FULL_CITATION_REGEX", "POST_LAW_CITATION_REGEX", "POST_JOURNAL_CITATION_REGEX"]


def _G(name):
    return z3.Const("G_" + name, z3.StringSort())


@spec("regex_lemmas")
def _regex_lemmas(e, st):
    """Facts about the metadata regexes used as lemmas (E-RE-LANG, DESIGN 4.2): head position of the pin_cite group,
    digit shape of the year group, and group order (everything captured before the parenthetical ends before it starts)."""
    from pyvc import cpy_tables
    m = z3.Const("rl!m", Obj)
    S_ = z3.StringVal
    D = cpy_tables.char_class("re_d")

    def grp(g):
        return z3.SubString(bm.m_text(m), bm.m_gstart(m, S_(g)), bm.m_gend(m, S_(g)) - bm.m_gstart(m, S_(g)))
    def mk():
        head = z3.ForAll([m], Implies(And(Or(*[m_regex(m) == _G(r) for r in REGEX_HEAD]), bm.m_ghas(m, S_("pin_cite"))),
                                      bm.m_gstart(m, S_("pin_cite")) == bm.m_gstart(m, S_("0"))), patterns=[bm.m_ghas(m, S_("pin_cite"))])
        year = z3.ForAll([m], Implies(And(Or(*[m_regex(m) == _G(r) for r in REGEX_YEAR]), bm.m_ghas(m, S_("year"))),
                                      And(z3.InRe(grp("year"), z3.Loop(D, 4, 4)), bm.m_gend(m, S_("year")) - bm.m_gstart(m, S_("year")) == 4,
                                          z3.Length(grp("year")) == 4)), patterns=[bm.m_ghas(m, S_("year"))])
        order = []
        for g in ("pin_cite", "extra", "court", "year", "publisher", "month", "day"):
            order.append(z3.ForAll([m], Implies(And(bm.m_ghas(m, S_(g)), bm.m_ghas(m, S_("parenthetical"))),
                                                bm.m_gend(m, S_(g)) <= bm.m_gstart(m, S_("parenthetical"))),
                                   patterns=[z3.MultiPattern(bm.m_ghas(m, S_(g)), bm.m_ghas(m, S_("parenthetical")))]))
        S2 = z3.StringVal
        always = z3.ForAll([m], Implies(m_regex(m) == _G("SHORT_CITE_ANTECEDENT_REGEX"), bm.m_ghas(m, S2("antecedent"))), patterns=[m_regex(m)])
        return And(head, year, always, re_nullable(_G("POST_SHORT_CITATION_REGEX")), re_nullable(_G("POST_LAW_CITATION_REGEX")),
                   re_nullable(_G("POST_JOURNAL_CITATION_REGEX")), *order)
    e.axioms_once("regex_lemmas", mk)
    e.trust("E-RE-LANG lemmas (DESIGN 4.2): pin_cite group starts at the head of POST_{FULL,SHORT,JOURNAL}_CITATION_REGEX matches; "
            "year group is \\d{4}; captured groups end before the parenthetical group starts")
    return SV(BOOL, TRUE)


@spec("in_window")
def _in_window(e, st, val, text, lo, hi):
    """val is None, or a substring of text[lo:hi] (and lo <= hi within the text)"""
    return SV(BOOL, Or(val.none, And(0 <= lo.v, lo.v <= hi.v, hi.v <= z3.Length(text.v),
                                     z3.Contains(z3.SubString(text.v, lo.v, hi.v - lo.v), val.v))))


# ------------------------------------------------------------------------------------------------ small helpers
contract("helpers.clean_pin_cite",
    types={"pin_cite": "str"}, returns="str", noraise=True, prop="C17",
    ensures={"none_iff": "(result is None) == (pin_cite is None)",
             "is_strip": "pin_cite is None or result == py_strip(pin_cite, ', ')",
             "substring": "pin_cite is None or (result in pin_cite and len(result) <= len(pin_cite))"})

contract("helpers.process_parenthetical",
    types={"matched_parenthetical": "str"}, returns="str", noraise=True, prop="C17",
    ensures={"none_in": "implies(matched_parenthetical is None, result is None)",
             # the result is the balanced prefix of what was matched (never empty)
             "prefix": "result is None or (matched_parenthetical is not None and prefix_of(result, matched_parenthetical) and len(result) >= 1)"})
loop("helpers.process_parenthetical", 1, invariant={"bal": "paren_balance is not None"})

# ------------------------------------------------------------------------------------------------ extract_pin_cite
contract("helpers.extract_pin_cite",
    types={"words": WORDS_T, "index": "int", "prefix": "str"}, returns="tuple[str,int,str]", noraise=True, prop="C02", ghost=GHOST_DOC,
    requires={"part": "PART(words, ghost.text, ghost.offs)",
              "idx": "index is not None and 0 <= index and index < len(words) and isinstance(words[index], Token)",
              "prefix": "prefix is not None", "lemmas": "regex_lemmas()"},
    ensures={
        "is_tuple": "result is not None",
        # C02: the reported span end never cuts the matched token and stays inside the text
        "span_end_ge_token_end": "result[1] is None or result[1] >= ghost.offs[index + 1]",
        "span_end_in_text": "result[1] is None or result[1] <= len(ghost.text)",
        # C17: the pin cite is taken from the text between the start of the page prefix and the reported end
        "pin_inside": "implies(suffix_of(prefix, str(words[index])) and result[0] is not None, result[1] is not None and "
                      "in_window(result[0], ghost.text, ghost.offs[index + 1] - len(prefix), result[1]))",
        "pin_needs_end": "implies(result[0] is not None, result[1] is not None)",
        # POST_SHORT_CITATION_REGEX matches the empty string, so there is always a match and an end offset
        "end_made": "result[1] is not None",
    },
    props={"pin_inside": "C17"})
# ------------------------------------------------------------------------------------------------ closed string lemmas
lemma("prefix_slice", ["T:str", "U:str", "n:int"], "implies(prefix_of(T, U) and 0 <= n and n <= len(T), T[0:n] == U[0:n])")
lemma("tail_slice", ["t:str", "a:int", "n:int"], "implies(0 <= a and 0 <= n and a + n <= len(t), tail(t, a)[0:n] == t[a:a + n])")
lemma("slice_concat", ["t:str", "a:int", "b:int", "c:int"], "implies(0 <= a and a <= b and b <= c and c <= len(t), t[a:b] + t[b:c] == t[a:c])")
lemma("concat_tail", ["t:str", "a:int", "b:int"], "implies(0 <= a and a <= b and b <= len(t), t[a:b] + tail(t, b) == tail(t, a))")
lemma("slice_slice", ["t:str", "a:int", "m:int", "n:int"], "implies(0 <= a and 0 <= n and n <= m and a + m <= len(t), t[a:a + m][0:n] == t[a:a + n])")
lemma("suffix_is_slice", ["p:str", "w:str"], "implies(suffix_of(p, w), p == w[len(w) - len(p):len(w)])")

# lemma steps for the provenance clause of extract_pin_cite (string reasoning split into small obligations)
ghost_code("helpers.extract_pin_cite", "after:Assign#2",
    "use_lemma('suffix_is_slice', prefix, str(words[index]))\n"
    "use_lemma('slice_slice', ghost.text, ghost.offs[index], ghost.offs[index + 1] - ghost.offs[index], ghost.offs[index + 1] - ghost.offs[index])\n"
    "assert implies(suffix_of(prefix, str(words[index])), prefix == ghost.text[ghost.offs[index + 1] - len(prefix):ghost.offs[index + 1]] and ghost.offs[index + 1] - len(prefix) >= 0), 'prefix_is_text'\n"
    "use_lemma('concat_tail', ghost.text, ghost.offs[index + 1] - len(prefix), ghost.offs[index + 1])\n"
    "assert implies(suffix_of(prefix, str(words[index])), prefix + tail(ghost.text, ghost.offs[index + 1]) == tail(ghost.text, ghost.offs[index + 1] - len(prefix))), 'window_is_tail'\n"
    "assert implies(suffix_of(prefix, str(words[index])) and m is not None, prefix_of(m_text(m), tail(ghost.text, ghost.offs[index + 1] - len(prefix)))), 'match_text_is_text'")
ghost_code("helpers.extract_pin_cite", "after:Assign#4",
    "use_lemma('prefix_slice', m_text(m), tail(ghost.text, ghost.offs[index + 1] - len(prefix)), len(m['pin_cite']))\n"
    "use_lemma('tail_slice', ghost.text, ghost.offs[index + 1] - len(prefix), len(m['pin_cite']))\n"
    "assert implies(suffix_of(prefix, str(words[index])), m['pin_cite'] == ghost.text[ghost.offs[index + 1] - len(prefix):ghost.offs[index + 1] - len(prefix) + len(m['pin_cite'])]), 'group_is_text'\n"
    "use_lemma('slice_slice', ghost.text, ghost.offs[index + 1] - len(prefix), len(m['pin_cite']), extra_chars)\n"
    "assert implies(suffix_of(prefix, str(words[index])), py_rstrip(m['pin_cite'], ', ') == ghost.text[ghost.offs[index + 1] - len(prefix):ghost.offs[index + 1] - len(prefix) + extra_chars]), 'rstrip_is_text'\n"
    "assert pin_cite in py_rstrip(m['pin_cite'], ', '), 'strip_in_rstrip'")
lemma("window_mono", ["t:str", "a:int", "b:int", "c:int", "x:str"],
      "implies(0 <= a and a <= b and b <= c and c <= len(t) and x in t[a:b], x in t[a:c])")
ghost_code("helpers.extract_pin_cite", "at:return",
    "use_lemma('window_mono', ghost.text, ghost.offs[index + 1] - len(prefix), ghost.offs[index + 1] - len(prefix) + py_last(m['pin_cite'], ', '), result[1], result[0])")

# ------------------------------------------------------------------------------------------------ add_post_citation
# a freshly constructed full citation positioned at words[citation.index]
CIT_AT = ("cit_wf(citation) and 0 <= citation.index and citation.index < len(words) and words[citation.index] is citation.token "
          "and citation.span_start is None and citation.span_end is None")
E0 = "ghost.offs[citation.index + 1]"          # span end of the citation (= its token's end)
S0 = "ghost.offs[citation.index]"              # span start

YEAR_INV = ("(citation.year is None or (1600 <= citation.year and citation.year <= G._highest_valid_year and citation.metadata.year is not None "
            "and len(citation.metadata.year) >= 4 and citation.year == str_to_int(citation.metadata.year[0:4])))")

contract("helpers.add_post_citation",
    types={"citation": "obj<FullCaseCitation>", "words": WORDS_T}, returns="none", noraise=True, prop="C02", ghost=GHOST_DOC, merge_ifs=True,
    requires={"part": "PART(words, ghost.text, ghost.offs)", "cit": CIT_AT, "lemmas": "regex_lemmas()",
              "fresh_year": "citation.year is None", "fresh_end": "citation.full_span_end is None and citation.metadata.pin_cite_span_end is None",
              "fresh_metadata": "citation.metadata.pin_cite is None and citation.metadata.extra is None and citation.metadata.year is None and citation.metadata.parenthetical is None"},
    modifies=["citation.full_span_end", "citation.year", "citation.metadata.pin_cite", "citation.metadata.pin_cite_span_end",
              "citation.metadata.extra", "citation.metadata.parenthetical", "citation.metadata.year", "citation.metadata.court"],
    ensures={
        # C02: full span end and pin-cite span end lie between the span end and the end of the text
        "full_span_end_bounds": f"citation.full_span_end is None or ({E0} <= citation.full_span_end and citation.full_span_end <= len(ghost.text))",
        "pin_span_end_bounds": f"citation.metadata.pin_cite_span_end is None or ({E0} <= citation.metadata.pin_cite_span_end "
                               f"and citation.full_span_end is not None and citation.metadata.pin_cite_span_end <= len(ghost.text))",
        # C02: when a pin cite was captured, the pin-cite span contains the pin-cite text
        "pincite_text_inside": f"citation.metadata.pin_cite is None or (citation.metadata.pin_cite_span_end is not None and "
                               f"in_window(citation.metadata.pin_cite, ghost.text, {E0}, citation.metadata.pin_cite_span_end))",
        # C17: textual metadata comes from the text between the span end and the full span end
        "extra_inside": f"citation.metadata.extra is None or (citation.full_span_end is not None and in_window(citation.metadata.extra, ghost.text, {E0}, citation.full_span_end))",
        "year_inside": f"citation.metadata.year is None or (citation.full_span_end is not None and in_window(citation.metadata.year, ghost.text, {E0}, citation.full_span_end))",
        "parenthetical_inside": f"citation.metadata.parenthetical is None or (citation.full_span_end is not None and in_window(citation.metadata.parenthetical, ghost.text, {E0}, citation.full_span_end))",
        # C18: numeric year only in range and equal to the (four) digits of the textual year
        "year_sound": YEAR_INV,
    },
    props={"extra_inside": "C17", "year_inside": "C17", "parenthetical_inside": "C17", "year_sound": "C18"})

assumed("helpers.get_court_by_paren",
    types={"paren_string": "str"}, returns="str",
    requires={"s": "paren_string is not None"},
    trusted_note="court id lookup over courts_db (not text provenance; C17 does not list court)")

lemma("full_slice", ["y:str", "n:int"], "implies(len(y) == n, y[0:n] == y)")
ghost_code("helpers.add_post_citation", "after:Assign#9", "use_lemma('full_slice', m['year'], 4)")
lemma("prefix_inner", ["T:str", "U:str", "a:int", "b:int"], "implies(prefix_of(T, U) and 0 <= a and a <= b and b <= len(T), T[a:b] == U[a:b])")
lemma("tail_inner", ["t:str", "o:int", "a:int", "b:int"], "implies(0 <= o and 0 <= a and a <= b and o + b <= len(t), tail(t, o)[a:b] == t[o + a:o + b])")
lemma("slice_in", ["t:str", "a:int", "b:int"], "implies(0 <= a and a <= b and b <= len(t), t[a:b] in t)")
lemma("window_sub", ["t:str", "a:int", "b:int", "a0:int", "b0:int", "x:str"],
      "implies(0 <= a0 and a0 <= a and a <= b and b <= b0 and b0 <= len(t) and x in t[a:b], x in t[a0:b0])")
lemma("in_trans", ["x:str", "y:str", "z:str"], "implies(x in y and y in z, x in z)")
lemma("prefix_in", ["p:str", "s:str"], "implies(prefix_of(p, s), p in s)")


def group_is_text(g, E0_):
    """lemma steps showing m[g] == text[E0+start(g) : E0+end(g)] for a forward window match with empty prefix"""
    return (f"use_lemma('prefix_inner', m_text(m), tail(ghost.text, {E0_}), m_start(m, '{g}'), m_end(m, '{g}'))\n"
            f"use_lemma('tail_inner', ghost.text, {E0_}, m_start(m, '{g}'), m_end(m, '{g}'))\n"
            f"assert implies(m is not None and m_has(m, '{g}'), m['{g}'] == ghost.text[{E0_} + m_start(m, '{g}'):{E0_} + m_end(m, '{g}')]), 'group_{g}_is_text'\n")


ghost_code("helpers.add_post_citation", "at:return",
    group_is_text("pin_cite", E0) + group_is_text("extra", E0) + group_is_text("year", E0) + group_is_text("parenthetical", E0) +
    # pin cite: strip of the group, group starts at the head
    f"use_lemma('slice_in', m['pin_cite'], py_first(m['pin_cite'], ', '), py_last(m['pin_cite'], ', '))\n"
    f"use_lemma('window_sub', ghost.text, {E0} + m_start(m, 'pin_cite'), {E0} + m_end(m, 'pin_cite'), {E0}, citation.metadata.pin_cite_span_end, citation.metadata.pin_cite)\n"
    # extra: strip of the group (or of "")
    f"use_lemma('slice_in', m['extra'], py_first_ws(m['extra']), py_last_ws(m['extra']))\n"
    f"use_lemma('window_sub', ghost.text, {E0} + m_start(m, 'extra'), {E0} + m_end(m, 'extra'), {E0}, citation.full_span_end, citation.metadata.extra)\n"
    f"use_lemma('slice_in', m['year'], 0, len(m['year']))\n"
    f"use_lemma('window_sub', ghost.text, {E0} + m_start(m, 'year'), {E0} + m_end(m, 'year'), {E0}, citation.full_span_end, citation.metadata.year)\n"
    # parenthetical: a prefix of the group
    f"use_lemma('prefix_in', citation.metadata.parenthetical, m['parenthetical'][0:len(citation.metadata.parenthetical)])\n"
    f"use_lemma('slice_slice', ghost.text, {E0} + m_start(m, 'parenthetical'), m_end(m, 'parenthetical') - m_start(m, 'parenthetical'), len(citation.metadata.parenthetical))\n"
    f"use_lemma('prefix_slice', citation.metadata.parenthetical, m['parenthetical'], len(citation.metadata.parenthetical))\n"
    f"use_lemma('slice_in', ghost.text, {E0} + m_start(m, 'parenthetical'), {E0} + m_start(m, 'parenthetical') + len(citation.metadata.parenthetical))\n"
    f"use_lemma('window_sub', ghost.text, {E0} + m_start(m, 'parenthetical'), {E0} + m_start(m, 'parenthetical') + len(citation.metadata.parenthetical), {E0}, citation.full_span_end, citation.metadata.parenthetical)\n")

# ------------------------------------------------------------------------------------------------ L-CAT: "".join over a slice of words
@spec("on_join")
def _on_join(e, st, sv, sep, xs):
    """L-CAT (consequence of PART, by induction with lemma slice_concat as the step):
    "".join(str(w) for w in words[a:b]) == text[offs[a]:offs[b]]."""
    if not (z3.is_string_value(sep) and sep.as_string() == ""):
        return
    t = xs.tag
    if not (t and t[0] == "map" and t[1].tag and t[1].tag[0] == "slice"):
        return
    src, ivar, val = t[1], t[2], t[3]
    base, lo, hi = src.tag[1], src.tag[2], src.tag[3]
    words = st.store.get("words")
    text, offs = st.store.get("ghost.text"), st.store.get("ghost.offs")
    if words is None or text is None or offs is None or not base.v.arrs[0].eq(words.v.arrs[0]):
        return
    # the mapped function must be str(w)
    if not (val.ty.kind == "str" and val.v.eq(strval(e.seq_get(src, ivar).v))):
        return
    sv.v = z3.SubString(text.v, _off(offs, z3.simplify(lo)), _off(offs, z3.simplify(hi)) - _off(offs, z3.simplify(lo)))
    e.trust("L-CAT: ''.join(str(w) for w in words[a:b]) == text[offs[a]:offs[b]] (induction over PART; step = lemma slice_concat)")


@spec("match_groups")
def _match_groups(e, st, m):
    pat = m.tag[2] if m.tag and len(m.tag) > 2 else None
    if pat is not None and pat.tag == ("global", "DEFENDANT_YEAR_REGEX"):
        from pyvc import cpy_tables
        d = bm.match_group_sv(e, st, m, z3.StringVal("defendant"))
        y = bm.match_group_sv(e, st, m, z3.StringVal("year"))
        # E-RE-LANG(DEFENDANT_YEAR_REGEX): both groups participate in every match; year is \d{4};
        # the defendant group starts at the match start and ends before the year group
        st.assume(Implies(Not(m.none), And(bm.m_ghas(m.v, z3.StringVal("defendant")), bm.m_ghas(m.v, z3.StringVal("year")),
                                           z3.InRe(y.v, z3.Loop(cpy_tables.char_class("re_d"), 4, 4)), z3.Length(y.v) == 4,
                                           bm.m_gend(m.v, z3.StringVal("defendant")) <= bm.m_gstart(m.v, z3.StringVal("year")))))
        e.trust("E-RE-LANG(DEFENDANT_YEAR_REGEX): groups defendant and year always participate; year is \\d{4} (lemma 4.2)")
        return SV(TUP(STR, STR), [d, y])
    from pyvc.engine import Unsupported
    raise Unsupported("match.groups() on a pattern without a group-structure lemma (the E-RE-LANG fact is stated for the shipped DEFENDANT_YEAR_REGEX text)")


# ------------------------------------------------------------------------------------------------ add_defendant
FSS = "citation.full_span_start"
contract("helpers.add_defendant",
    types={"citation": "obj<FullCaseCitation>", "words": WORDS_T}, returns="none", noraise=True, prop="C02", ghost=GHOST_DOC,
    requires={"part": "PART(words, ghost.text, ghost.offs)", "cit": CIT_AT,
              "fresh": "citation.full_span_start is None and citation.metadata.plaintiff is None and citation.metadata.defendant is None",
              "year_inv": YEAR_INV,
              "stopword_groups": "forall(lambda i: implies(0 <= i and i < len(words) and isinstance(words[i], StopWordToken), "
                                 "typed(words[i], 'obj<StopWordToken>').groups is not None and 'stop_word' in typed(words[i], 'obj<StopWordToken>').groups))"},
    modifies=["citation.full_span_start", "citation.year", "citation.metadata.plaintiff", "citation.metadata.defendant", "citation.metadata.year"],
    locals_types={"start_index": "int"},
    ensures={
        # C02: 0 <= full-span start <= span start
        "full_span_start_bounds": f"{FSS} is None or (0 <= {FSS} and {FSS} <= {S0})",
        # C17: the extracted plaintiff is the text at the start of the full span, the defendant lies inside it
        "plaintiff_at_full_span_start": f"citation.metadata.plaintiff is None or ({FSS} is not None and 0 <= {FSS} and {FSS} + len(citation.metadata.plaintiff) <= {S0} "
                                        f"and ghost.text[{FSS}:{FSS} + len(citation.metadata.plaintiff)] == citation.metadata.plaintiff)",
        # C18
        "year_sound": YEAR_INV,
    },
    props={"plaintiff_at_full_span_start": "C17", "year_sound": "C18"})

loop("helpers.add_defendant", 1,
    invariant={
        "offset": "offset == ghost.offs[citation.index] - ghost.offs[citation.index - k]",
        "range": "0 <= citation.index - k",
        "start_none": "start_index is None",
        "plaintiff_none": "citation.metadata.plaintiff is None",
    })

# ------------------------------------------------------------------------------------------------ add_pre_citation
contract("helpers.add_pre_citation",
    types={"citation": "obj<FullCaseCitation>", "words": WORDS_T}, returns="none", noraise=True, prop="C02", ghost=GHOST_DOC, merge_ifs=False,
    requires={"part": "PART(words, ghost.text, ghost.offs)", "cit": CIT_AT, "lemmas": "regex_lemmas()",
              # every newline of the text is a ParagraphToken (shipped extractors), so plain words contain none
              "no_newline_words": "NONL(words)",
              "fss_ok": f"{FSS} is None or (0 <= {FSS} and {FSS} <= {S0})",
              "fresh": "citation.metadata.pin_cite_span_start is None and citation.metadata.antecedent_guess is None"},
    modifies=["citation.full_span_start", "citation.metadata.pin_cite", "citation.metadata.pin_cite_span_start", "citation.metadata.antecedent_guess"],
    ensures={
        "full_span_start_bounds": f"{FSS} is None or (0 <= {FSS} and {FSS} <= {S0})",
        "pin_span_start_bounds": f"citation.metadata.pin_cite_span_start is None or (0 <= citation.metadata.pin_cite_span_start and citation.metadata.pin_cite_span_start <= {S0} "
                                 f"and {FSS} is not None and {FSS} <= citation.metadata.pin_cite_span_start)",
        "antecedent_inside": f"citation.metadata.antecedent_guess is None or ({FSS} is not None and in_window(citation.metadata.antecedent_guess, ghost.text, {FSS}, {S0}))",
        "pre_pin_inside": f"implies(citation.metadata.pin_cite_span_start is not None and citation.metadata.pin_cite is not None, "
                          f"in_window(citation.metadata.pin_cite, ghost.text, citation.metadata.pin_cite_span_start, {S0}))",
    },
    props={"antecedent_inside": "C17", "pre_pin_inside": "C02"})

# ------------------------------------------------------------------------------------------------ law / journal metadata
LAW_CIT_AT = CIT_AT
for _fn, _cls, _fields in (("add_law_metadata", "FullLawCitation", ["pin_cite", "publisher", "day", "month", "parenthetical", "year"]),
                           ("add_journal_metadata", "FullJournalCitation", ["pin_cite", "parenthetical", "year"])):
    _ens = {
        "full_span_end_bounds": f"citation.full_span_end is None or ({E0} <= citation.full_span_end and citation.full_span_end <= len(ghost.text))",
        "year_sound": YEAR_INV,
    }
    _props = {"year_sound": "C18"}
    for _f in _fields:
        _ens[f"{_f}_inside"] = f"citation.metadata.{_f} is None or (citation.full_span_end is not None and in_window(citation.metadata.{_f}, ghost.text, {E0}, citation.full_span_end))"
        _props[f"{_f}_inside"] = "C17"
    contract(f"helpers.{_fn}",
        types={"citation": f"obj<{_cls}>", "words": WORDS_T}, returns="none", noraise=True, prop="C02", ghost=GHOST_DOC, merge_ifs=True,
        requires={"part": "PART(words, ghost.text, ghost.offs)", "cit": LAW_CIT_AT, "lemmas": "regex_lemmas()",
                  "fresh_year": "citation.year is None", "fresh_end": "citation.full_span_end is None",
                  "fresh_metadata": " and ".join(f"citation.metadata.{_f} is None" for _f in _fields)},
        modifies=["citation.full_span_end", "citation.year"] + [f"citation.metadata.{_f}" for _f in _fields],
        ensures=_ens, props=_props)
lemma("sub_no", ["x:str", "s:str", "a:int", "b:int"], "implies(not (x in s) and 0 <= a and a <= b and b <= len(s), not (x in s[a:b]))")
ghost_code("helpers.match_on_tokens", "after:Assign#7",
    "use_lemma('sub_no', '\\n', text, len(text) - 300, len(text))")
lemma("suffix_inner", ["T:str", "U:str", "a:int", "b:int"],
      "implies(suffix_of(T, U) and 0 <= a and a <= b and b <= len(T), T[a:b] == U[len(U) - len(T) + a:len(U) - len(T) + b])")
lemma("prefix_slice_inner", ["t:str", "S:int", "x:int", "y:int"], "implies(0 <= x and x <= y and y <= S and S <= len(t), t[0:S][x:y] == t[x:y])")


def group_is_text_bwd(g, S0_):
    base = f"({S0_} - len(m_text(m)))"
    return (f"use_lemma('suffix_inner', m_text(m), ghost.text[0:{S0_}], m_start(m, '{g}'), m_end(m, '{g}'))\n"
            f"use_lemma('prefix_slice_inner', ghost.text, {S0_}, {base} + m_start(m, '{g}'), {base} + m_end(m, '{g}'))\n"
            f"assert implies(m is not None and m_has(m, '{g}'), m['{g}'] == ghost.text[{base} + m_start(m, '{g}'):{base} + m_end(m, '{g}')]), 'group_{g}_is_text'\n")


ghost_code("helpers.add_pre_citation", "at:return",
    group_is_text_bwd("pin_cite", S0) + group_is_text_bwd("antecedent", S0) +
    f"use_lemma('slice_in', m['pin_cite'], py_first(m['pin_cite'], ', '), py_last(m['pin_cite'], ', '))\n"
    f"use_lemma('window_sub', ghost.text, ({S0} - len(m_text(m))) + m_start(m, 'pin_cite'), ({S0} - len(m_text(m))) + m_end(m, 'pin_cite'), citation.metadata.pin_cite_span_start, {S0}, citation.metadata.pin_cite)\n"
    f"use_lemma('slice_in', m['antecedent'], 0, len(m['antecedent']))\n"
    f"use_lemma('window_sub', ghost.text, ({S0} - len(m_text(m))) + m_start(m, 'antecedent'), ({S0} - len(m_text(m))) + m_end(m, 'antecedent'), {FSS}, {S0}, citation.metadata.antecedent_guess)\n")


def fwd_group_steps(field, g, kind, E0_, fe):
    """lemma steps: metadata.<field> (derived from group g by `kind`) lies in text[E0:fe]"""
    s_ = group_is_text(g, E0_)
    lo, hi = f"{E0_} + m_start(m, '{g}')", f"{E0_} + m_end(m, '{g}')"
    if kind == "strip":
        s_ += f"use_lemma('slice_in', m['{g}'], py_first(m['{g}'], ', '), py_last(m['{g}'], ', '))\n"
        s_ += f"use_lemma('window_sub', ghost.text, {lo}, {hi}, {E0_}, {fe}, citation.metadata.{field})\n"
    elif kind == "raw":
        s_ += f"use_lemma('slice_in', m['{g}'], 0, len(m['{g}']))\n"
        s_ += f"use_lemma('window_sub', ghost.text, {lo}, {hi}, {E0_}, {fe}, citation.metadata.{field})\n"
    elif kind == "prefix":
        s_ += f"use_lemma('prefix_slice', citation.metadata.{field}, m['{g}'], len(citation.metadata.{field}))\n"
        s_ += f"use_lemma('slice_slice', ghost.text, {lo}, m_end(m, '{g}') - m_start(m, '{g}'), len(citation.metadata.{field}))\n"
        s_ += f"use_lemma('slice_in', ghost.text, {lo}, {lo} + len(citation.metadata.{field}))\n"
        s_ += f"use_lemma('window_sub', ghost.text, {lo}, {lo} + len(citation.metadata.{field}), {E0_}, {fe}, citation.metadata.{field})\n"
    return s_


ghost_code("helpers.add_law_metadata", "at:return",
    "".join(fwd_group_steps(f, f, k, E0, "citation.full_span_end") for f, k in
            (("pin_cite", "strip"), ("publisher", "raw"), ("day", "raw"), ("month", "raw"), ("year", "raw"), ("parenthetical", "prefix"))))
ghost_code("helpers.add_journal_metadata", "at:return",
    "".join(fwd_group_steps(f, f, k, E0, "citation.full_span_end") for f, k in
            (("pin_cite", "strip"), ("year", "raw"), ("parenthetical", "prefix"))))
lemma("slice_inner", ["t:str", "a:int", "m:int", "x:int", "y:int"],
      "implies(0 <= a and 0 <= x and x <= y and y <= m and a + m <= len(t), t[a:a + m][x:y] == t[a + x:a + y])")
lemma("group_in_text", ["T:str", "a:int", "b:int"], "implies(0 <= a and a <= b and b <= len(T), T[a:b] in T)")

# add_defendant provenance steps (statement ordinals refer to the function's Assign statements in source order)
_A = "max(index - 2, 0)"
ghost_code("helpers.add_defendant", "after:Assign#6",
    f"use_lemma('slice_inner', ghost.text, ghost.offs[{_A}], ghost.offs[index] - ghost.offs[{_A}], py_first(plaintiff_raw, '( '), py_last(plaintiff_raw, '( '))\n"
    f"assert citation.metadata.plaintiff == ghost.text[ghost.offs[{_A}] + py_first(plaintiff_raw, '( '):ghost.offs[{_A}] + py_last(plaintiff_raw, '( ')], 'plaintiff_is_text'")
ghost_code("helpers.add_defendant", "after:Assign#11", "use_lemma('full_slice', year, 4)")
