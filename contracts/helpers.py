# Contracts for eyecite/helpers.py and the span methods of eyecite/models.py
# (C02 offsets, C17 provenance, C18 year stores, C03 overlap helper is in c18_helpers.py)
#
# Shared abstractions (DESIGN section 5):
#   PART(words, text, offs)  -- the token list partitions the text, pointwise over the ghost offset array
#   WIN                      -- what helpers.match_on_tokens returns (window of the text, anchored)
import z3
from pyvc.values import Obj, SV, INT, BOOL, STR, OBJ, SEQ, TUP, class_of, strval, fresh_name, TRUE, FALSE
from pyvc.engine import And, Or, Not, Implies, I
from pyvc import builtins_model as bm

m_regex = z3.Function("m_regex", Obj, z3.StringSort())      # the (unwrapped) pattern a window match was made with


def _off(offs, i):
    return z3.Select(offs.v.arrs[0], i)


@spec("PART")
def _PART(e, st, words, text, offs):
    """The token list partitions `text`: offs[0] == 0, offs[n] == len(text), word i is text[offs[i]:offs[i+1]],
    special tokens carry exactly these offsets; offs is non-decreasing (needed by consumers, proved by C12)."""
    n = words.v.len
    i = z3.Int(fresh_name("pi"))
    j = z3.Int(fresh_name("pj"))
    w = z3.Select(words.v.arrs[0], i)
    wnone = z3.Select(words.v.arrs[1], i)
    tok = SV(OBJ("Token"), w)
    saved = e.spec_mode
    e.spec_mode = True
    try:
        ts = e.load_field(st, tok, "start")
        te = e.load_field(st, tok, "end")
    finally:
        e.spec_mode = saved
    body = And(Not(wnone), e.class_in(w, "TokenOrStr"),
               _off(offs, i + 1) == _off(offs, i) + z3.Length(strval(w)),
               strval(w) == z3.SubString(text.v, _off(offs, i), _off(offs, i + 1) - _off(offs, i)),
               Implies(e.class_in(w, "Token"), And(Not(ts.none), Not(te.none), ts.v == _off(offs, i), te.v == _off(offs, i + 1))))
    return SV(BOOL, And(Not(words.none), Not(text.none), offs.v.len == n + 1, _off(offs, I(0)) == 0, _off(offs, n) == z3.Length(text.v),
                        z3.ForAll([i], Implies(And(i >= 0, i < n), body), patterns=[z3.Select(words.v.arrs[0], i)]),
                        z3.ForAll([i, j], Implies(And(0 <= i, i <= j, j <= n), _off(offs, i) <= _off(offs, j)),
                                  patterns=[z3.MultiPattern(_off(offs, i), _off(offs, j))])))


@spec("m_text")
def _m_text(e, st, m):
    return SV(STR, bm.m_text(m.v))


@spec("m_start")
def _m_start(e, st, m, g=None):
    return SV(INT, bm.m_gstart(m.v, z3.StringVal("0") if g is None else bm.group_key(e, g)))


@spec("m_end")
def _m_end(e, st, m, g=None):
    return SV(INT, bm.m_gend(m.v, z3.StringVal("0") if g is None else bm.group_key(e, g)))


@spec("m_has")
def _m_has(e, st, m, g):
    return SV(BOOL, And(Not(m.none), bm.m_ghas(m.v, bm.group_key(e, g))))


@spec("m_regex")
def _m_regex(e, st, m):
    return SV(STR, m_regex(m.v))


@spec("prefix_of")
def _prefix_of(e, st, a, b):
    return SV(BOOL, z3.PrefixOf(a.v, b.v))


@spec("suffix_of")
def _suffix_of(e, st, a, b):
    return SV(BOOL, z3.SuffixOf(a.v, b.v))


@spec("tail")
def _tail(e, st, s, a):
    """s[a:] for 0 <= a <= len(s)"""
    return SV(STR, z3.SubString(s.v, a.v, z3.Length(s.v) - a.v))


@spec("on_re_match")
def _on_re_match(e, st, m, fname, pat, text, kw):
    """E-RE-ANCHOR: a pattern written ^(?:R) (no MULTILINE) can only match at offset 0; (?:R)$ ends at the end of
    the text or just before a final newline.  Recognised syntactically on the pattern term built by the code."""
    def flat(t):
        if z3.is_app(t) and t.decl().kind() == z3.Z3_OP_SEQ_CONCAT:
            out = []
            for k_ in range(t.num_args()):
                out += flat(t.arg(k_))
            return out
        return [t]
    parts = flat(pat.v)
    if len(parts) == 3:
        a0, a1, a2 = parts
        zero = z3.StringVal("0")
        if z3.is_string_value(a0) and a0.as_string() == "^(?:" and z3.is_string_value(a2) and a2.as_string() == ")":
            st.assume(Implies(Not(m.none), And(bm.m_gstart(m.v, zero) == 0, m_regex(m.v) == a1)))
            e.trust("E-RE-ANCHOR: a match of ^(?:R) starts at 0; a match of (?:R)$ ends at len(text) or just before a final newline")
        if z3.is_string_value(a0) and a0.as_string() == "(?:" and z3.is_string_value(a2) and a2.as_string() == ")$":
            T = bm.m_text(m.v)
            st.assume(Implies(Not(m.none), And(Or(bm.m_gend(m.v, zero) == z3.Length(T),
                                                  And(bm.m_gend(m.v, zero) == z3.Length(T) - 1, z3.SuffixOf(z3.StringVal("\n"), T))),
                                               m_regex(m.v) == a1)))
            e.trust("E-RE-ANCHOR: a match of ^(?:R) starts at 0; a match of (?:R)$ ends at len(text) or just before a final newline")


# ------------------------------------------------------------------------------------------------ span methods
contract("models.CitationBase.span",
    types={"self": "obj<CitationBase>"}, returns="tuple[int,int]", noraise=True, prop="C02",
    requires={"self": "self is not None and self.token is not None"},
    pure_result="(ite(self.span_start is not None, self.span_start, self.token.start), ite(self.span_end is not None, self.span_end, self.token.end))")

contract("models.CitationBase.full_span",
    types={"self": "obj<CitationBase>"}, returns="tuple[int,int]", noraise=True, prop="C02",
    requires={"self": "self is not None and self.token is not None"},
    pure_result="(ite(self.full_span_start is not None, self.full_span_start, ite(self.span_start is not None, self.span_start, self.token.start)),"
                " ite(self.full_span_end is not None, self.full_span_end, ite(self.span_end is not None, self.span_end, self.token.end)))")

contract("models.CitationBase.span_with_pincite",
    types={"self": "obj<CitationBase>"}, returns="tuple[int,int]", noraise=True, prop="C02",
    requires={"self": "self is not None and self.token is not None and self.metadata is not None and self.token.start is not None and self.token.end is not None"},
    ensures={
        # the pin-cite span contains the span
        "contains_span": "result[0] <= ite(self.span_start is not None, self.span_start, self.token.start) and "
                         "result[1] >= ite(self.span_end is not None, self.span_end, self.token.end)",
        "start_is_min": "result[0] <= self.token.start and implies(self.metadata.pin_cite_span_start is not None, result[0] <= self.metadata.pin_cite_span_start)"
                        " and (result[0] == self.token.start or (self.span_start is not None and result[0] == self.span_start) or (self.metadata.pin_cite_span_start is not None and result[0] == self.metadata.pin_cite_span_start))",
        "end_is_max": "result[1] >= self.token.end and implies(self.metadata.pin_cite_span_end is not None, result[1] >= self.metadata.pin_cite_span_end)"
                      " and (result[1] == self.token.end or (self.span_end is not None and result[1] == self.span_end) or (self.metadata.pin_cite_span_end is not None and result[1] == self.metadata.pin_cite_span_end))",
    })

# ------------------------------------------------------------------------------------------------ WIN: match_on_tokens
WORDS_T = "seq[obj<TokenOrStr>]"
GHOST_DOC = {"text": "str", "offs": "seq[int]"}

contract("helpers.match_on_tokens",
    types={"words": WORDS_T, "start_index": "int", "regex": "str", "prefix": "str", "strings_only": "bool", "forward": "bool", "flags": "int"},
    returns="obj<Match>", noraise=True, prop="C02", ghost=GHOST_DOC,
    requires={
        "part": "PART(words, ghost.text, ghost.offs)",
        "args": "start_index is not None and regex is not None and prefix is not None and strings_only is not None and forward is not None and flags is not None",
        "forward_from": "implies(forward, start_index >= 0)",
        "backward_from": "implies(not forward, start_index >= 0 - 1 and start_index < len(words) and prefix == '')",
    },
    ensures={
        # forward: the matched window is a prefix of  prefix ++ text[offs[s]:]  and the match is anchored at 0
        "fwd_window": "implies(forward and result is not None, prefix_of(m_text(result), prefix + tail(ghost.text, ghost.offs[min(start_index, len(words))])))",
        "fwd_anchor": "implies(forward and result is not None, m_start(result) == 0)",
        # backward: the window is a suffix of the text before the end of word start_index, the match ends at its end
        "bwd_window": "implies(not forward and result is not None, suffix_of(m_text(result), ghost.text[0:ghost.offs[start_index + 1]]))",
        "bwd_anchor": "implies(not forward and result is not None, m_end(result) == len(m_text(result)) or m_end(result) == len(m_text(result)) - 1)",
        "regex": "implies(result is not None, m_regex(result) == old(regex))",
        "bounded": "implies(result is not None, len(m_text(result)) <= 300 + len(prefix))",
    })

loop("helpers.match_on_tokens", 1,
    invariant={
        "fwd": "implies(forward, text == prefix + ghost.text[ghost.offs[min(start_index, len(words))]:ghost.offs[min(start_index, len(words)) + k]])",
        "bwd": "implies(not forward, text == ghost.text[ghost.offs[start_index + 1 - k]:ghost.offs[start_index + 1]])",
        "txt": "text is not None",
        "bounded": "k == 0 or len(text) < 300",
    })
# intermediate lemma (slice concatenation) right after the append / prepend
ghost_code("helpers.match_on_tokens", "after:AugAssign#1",
    "assert text == prefix + ghost.text[ghost.offs[min(start_index, len(words))]:ghost.offs[min(start_index, len(words)) + k + 1]], 'slice_concat_fwd'")
ghost_code("helpers.match_on_tokens", "after:Assign#7",
    "assert text == ghost.text[ghost.offs[start_index - k]:ghost.offs[start_index + 1]], 'slice_concat_bwd'")

# ------------------------------------------------------------------------------------------------ regex lemmas (DESIGN 4.2)
REGEX_HEAD = ["POST_FULL_CITATION_REGEX", "POST_SHORT_CITATION_REGEX", "POST_JOURNAL_CITATION_REGEX"]
REGEX_YEAR = ["POST_FULL_CITATION_REGEX", "POST_LAW_CITATION_REGEX", "POST_JOURNAL_CITATION_REGEX"]


def _G(name):
    return z3.Const("G_" + name, z3.StringSort())


@spec("regex_lemmas")
def _regex_lemmas(e, st):
    """Facts about the metadata regexes used as lemmas (E-RE-LANG, DESIGN 4.2): head position of the pin_cite group,
    digit shape of the year group, and group order (everything captured before the parenthetical ends before it starts)."""
    from pyvc import cpy_tables
    m = z3.Const("rl!m", Obj)
    S_ = z3.StringVal
    D = cpy_tables.char_class("re_d")

    def grp(g):
        return z3.SubString(bm.m_text(m), bm.m_gstart(m, S_(g)), bm.m_gend(m, S_(g)) - bm.m_gstart(m, S_(g)))
    def mk():
        head = z3.ForAll([m], Implies(And(Or(*[m_regex(m) == _G(r) for r in REGEX_HEAD]), bm.m_ghas(m, S_("pin_cite"))),
                                      bm.m_gstart(m, S_("pin_cite")) == bm.m_gstart(m, S_("0"))), patterns=[bm.m_ghas(m, S_("pin_cite"))])
        year = z3.ForAll([m], Implies(And(Or(*[m_regex(m) == _G(r) for r in REGEX_YEAR]), bm.m_ghas(m, S_("year"))),
                                      z3.InRe(grp("year"), z3.Loop(D, 4, 4))), patterns=[bm.m_ghas(m, S_("year"))])
        order = []
        for g in ("pin_cite", "extra", "court", "year", "publisher", "month", "day"):
            order.append(z3.ForAll([m], Implies(And(bm.m_ghas(m, S_(g)), bm.m_ghas(m, S_("parenthetical"))),
                                                bm.m_gend(m, S_(g)) <= bm.m_gstart(m, S_("parenthetical"))),
                                   patterns=[z3.MultiPattern(bm.m_ghas(m, S_(g)), bm.m_ghas(m, S_("parenthetical")))]))
        return And(head, year, *order)
    e.axioms_once("regex_lemmas", mk)
    e.trust("E-RE-LANG lemmas (DESIGN 4.2): pin_cite group starts at the head of POST_{FULL,SHORT,JOURNAL}_CITATION_REGEX matches; "
            "year group is \\d{4}; captured groups end before the parenthetical group starts")
    return SV(BOOL, TRUE)


@spec("in_window")
def _in_window(e, st, val, text, lo, hi):
    """val is None, or a substring of text[lo:hi] (and lo <= hi within the text)"""
    return SV(BOOL, Or(val.none, And(0 <= lo.v, lo.v <= hi.v, hi.v <= z3.Length(text.v),
                                     z3.Contains(z3.SubString(text.v, lo.v, hi.v - lo.v), val.v))))


# ------------------------------------------------------------------------------------------------ small helpers
contract("helpers.clean_pin_cite",
    types={"pin_cite": "str"}, returns="str", noraise=True, prop="C17",
    ensures={"none_iff": "(result is None) == (pin_cite is None)",
             "is_strip": "pin_cite is None or result == py_strip(pin_cite, ', ')",
             "substring": "pin_cite is None or (result in pin_cite and len(result) <= len(pin_cite))"})

contract("helpers.process_parenthetical",
    types={"matched_parenthetical": "str"}, returns="str", noraise=True, prop="C17",
    ensures={"none_in": "implies(matched_parenthetical is None, result is None)",
             # the result is the balanced prefix of what was matched (never empty)
             "prefix": "result is None or (matched_parenthetical is not None and prefix_of(result, matched_parenthetical) and len(result) >= 1)"})
loop("helpers.process_parenthetical", 1, invariant={"bal": "paren_balance is not None"})

# ------------------------------------------------------------------------------------------------ extract_pin_cite
contract("helpers.extract_pin_cite",
    types={"words": WORDS_T, "index": "int", "prefix": "str"}, returns="tuple[str,int,str]", noraise=True, prop="C02", ghost=GHOST_DOC,
    requires={"part": "PART(words, ghost.text, ghost.offs)",
              "idx": "index is not None and 0 <= index and index < len(words) and isinstance(words[index], Token)",
              "prefix": "prefix is not None", "lemmas": "regex_lemmas()"},
    ensures={
        "is_tuple": "result is not None",
        # C02: the reported span end never cuts the matched token and stays inside the text
        "span_end_ge_token_end": "result[1] is None or result[1] >= ghost.offs[index + 1]",
        "span_end_in_text": "result[1] is None or result[1] <= len(ghost.text)",
        # C17: the pin cite is taken from the text between the start of the page prefix and the reported end
        "pin_inside": "implies(suffix_of(prefix, str(words[index])) and result[0] is not None, result[1] is not None and "
                      "in_window(result[0], ghost.text, ghost.offs[index + 1] - len(prefix), result[1]))",
        "pin_needs_end": "implies(result[0] is not None, result[1] is not None)",
    },
    props={"pin_inside": "C17"})
# ------------------------------------------------------------------------------------------------ closed string lemmas
lemma("prefix_slice", ["T:str", "U:str", "n:int"], "implies(prefix_of(T, U) and 0 <= n and n <= len(T), T[0:n] == U[0:n])")
lemma("tail_slice", ["t:str", "a:int", "n:int"], "implies(0 <= a and 0 <= n and a + n <= len(t), tail(t, a)[0:n] == t[a:a + n])")
lemma("slice_concat", ["t:str", "a:int", "b:int", "c:int"], "implies(0 <= a and a <= b and b <= c and c <= len(t), t[a:b] + t[b:c] == t[a:c])")
lemma("concat_tail", ["t:str", "a:int", "b:int"], "implies(0 <= a and a <= b and b <= len(t), t[a:b] + tail(t, b) == tail(t, a))")
lemma("slice_slice", ["t:str", "a:int", "m:int", "n:int"], "implies(0 <= a and 0 <= n and n <= m and a + m <= len(t), t[a:a + m][0:n] == t[a:a + n])")
lemma("suffix_is_slice", ["p:str", "w:str"], "implies(suffix_of(p, w), p == w[len(w) - len(p):len(w)])")

# lemma steps for the provenance clause of extract_pin_cite (string reasoning split into small obligations)
ghost_code("helpers.extract_pin_cite", "after:Assign#2",
    "use_lemma('suffix_is_slice', prefix, str(words[index]))\n"
    "use_lemma('slice_slice', ghost.text, ghost.offs[index], ghost.offs[index + 1] - ghost.offs[index], ghost.offs[index + 1] - ghost.offs[index])\n"
    "assert implies(suffix_of(prefix, str(words[index])), prefix == ghost.text[ghost.offs[index + 1] - len(prefix):ghost.offs[index + 1]] and ghost.offs[index + 1] - len(prefix) >= 0), 'prefix_is_text'\n"
    "use_lemma('concat_tail', ghost.text, ghost.offs[index + 1] - len(prefix), ghost.offs[index + 1])\n"
    "assert implies(suffix_of(prefix, str(words[index])), prefix + tail(ghost.text, ghost.offs[index + 1]) == tail(ghost.text, ghost.offs[index + 1] - len(prefix))), 'window_is_tail'\n"
    "assert implies(suffix_of(prefix, str(words[index])) and m is not None, prefix_of(m_text(m), tail(ghost.text, ghost.offs[index + 1] - len(prefix)))), 'match_text_is_text'")
ghost_code("helpers.extract_pin_cite", "after:Assign#4",
    "use_lemma('prefix_slice', m_text(m), tail(ghost.text, ghost.offs[index + 1] - len(prefix)), len(m['pin_cite']))\n"
    "use_lemma('tail_slice', ghost.text, ghost.offs[index + 1] - len(prefix), len(m['pin_cite']))\n"
    "assert implies(suffix_of(prefix, str(words[index])), m['pin_cite'] == ghost.text[ghost.offs[index + 1] - len(prefix):ghost.offs[index + 1] - len(prefix) + len(m['pin_cite'])]), 'group_is_text'\n"
    "use_lemma('slice_slice', ghost.text, ghost.offs[index + 1] - len(prefix), len(m['pin_cite']), extra_chars)\n"
    "assert implies(suffix_of(prefix, str(words[index])), py_rstrip(m['pin_cite'], ', ') == ghost.text[ghost.offs[index + 1] - len(prefix):ghost.offs[index + 1] - len(prefix) + extra_chars]), 'rstrip_is_text'\n"
    "assert pin_cite in py_rstrip(m['pin_cite'], ', '), 'strip_in_rstrip'")
lemma("window_mono", ["t:str", "a:int", "b:int", "c:int", "x:str"],
      "implies(0 <= a and a <= b and b <= c and c <= len(t) and x in t[a:b], x in t[a:c])")
ghost_code("helpers.extract_pin_cite", "at:return",
    "use_lemma('window_mono', ghost.text, ghost.offs[index + 1] - len(prefix), ghost.offs[index + 1] - len(prefix) + py_last(m['pin_cite'], ', '), result[1], result[0])")
