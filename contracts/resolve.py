# Contracts for eyecite/resolve.py  (C06 faithful ordered partition, C07 never guesses, C08 online, C04 no raise)
#
# Equality of resources/citations is the A-HASH abstraction (DESIGN 2.3): `reskey(r)` / `citekey(c)` are the
# abstract hash values; r1 == r2  <=>  reskey(r1) == reskey(r2).  reskey(Resource(c)) == RK(citekey(c)) with RK
# injective is what models.Resource.__hash__ computes (proved under C16, assumed here at the constructor).
import z3
from pyvc.values import Obj, SV, INT, BOOL, OBJ, SEQ, DICT, MapV, SeqV, to_flat, from_flat, fresh_name, TRUE, FALSE
from pyvc.engine import And, Or, Not, Implies, I

reskey = z3.Function("reskey", Obj, z3.IntSort())
citekey = z3.Function("citekey", Obj, z3.IntSort())
RK = z3.Function("RK", z3.IntSort(), z3.IntSort())
RKinv = z3.Function("RKinv", z3.IntSort(), z3.IntSort())
strip_punct_f = z3.Function("strip_punct_spec", z3.StringSort(), z3.StringSort())


@spec("eq_key")
def _eq_key(e, st, o):
    cls = e.static_class(st, o)
    if cls == "Resource" or (cls in e.repo.classes and "Resource" in e.repo.mro(cls)):
        return reskey(o.v)
    if cls in e.repo.classes and "CitationBase" in e.repo.mro(cls):
        return citekey(o.v)
    raise Exception(f"eq_key: no abstract key for static class {cls}")


@spec("obj_eq")
def _obj_eq(e, st, a, b):
    ca, cb = e.static_class(st, a), e.static_class(st, b)
    if ca == cb == "Resource":
        return reskey(a.v) == reskey(b.v)
    return None


@spec("reskey")
def _reskey(e, st, o):
    return SV(INT, reskey(o.v), o.none)


@spec("citekey")
def _citekey(e, st, o):
    return SV(INT, citekey(o.v), o.none)


@spec("RK")
def _RK(e, st, x):
    e.axioms_once("RK-injective", lambda: z3.ForAll([z3.Int("rkx")], RKinv(RK(z3.Int("rkx"))) == z3.Int("rkx")))
    return SV(INT, RK(x.v))


@spec("strip_punct_spec")
def _sp(e, st, s):
    return SV(s.ty, strip_punct_f(s.v), s.none)


@spec("seq_append")
def _seq_append(e, st, s, v):
    return e.seq_append(s, v)


@spec("map_get")
def _map_get(e, st, d, k):
    """value stored under key k (an int key), or the empty sequence if absent"""
    vt = d.ty.elts[1]
    stored = from_flat(vt, [z3.Select(a, k.v) for a in d.v.arrs])
    empty = e.seq_from_items([], vt.elts[0])
    from pyvc.values import ite_sv
    return ite_sv(z3.Select(d.v.has, k.v), stored, empty)


@spec("map_has")
def _map_has(e, st, d, k):
    return SV(BOOL, z3.Select(d.v.has, k.v))


@spec("map_put")
def _map_put(e, st, d, k, v):
    vt = d.ty.elts[1]
    comps = to_flat(e.coerce(v, vt), vt)
    return SV(d.ty, MapV(z3.Store(d.v.has, k.v, TRUE), [z3.Store(a, k.v, c) for a, c in zip(d.v.arrs, comps)]), d.none)


# ------------------------------------------------------------------------------------------------ externals

assumed("utils.strip_punct",
    types={"text": "str"}, returns="str",
    requires={"is_str": "text is not None"},
    pure_result="strip_punct_spec(text)",
    trusted_note="uninterpreted function of its argument; only determinism is used (what it strips is not part of C07)")

assumed("models.Resource.__init__",
    params=["citation"], types={"citation": "obj<FullCitation>"}, returns="obj<Resource>", fresh_result=True,
    ensures={"field": "result is not None and result.citation is citation",
             "hash": "reskey(result) == RK(citekey(citation))"},
    trusted_note="dataclass-generated __init__; reskey(Resource(c)) == RK(citekey(c)) is Resource.__hash__'s contract, proved under C16")

# ------------------------------------------------------------------------------------------------ resolvers

contract("resolve.resolve_full_citation",
    types={"full_citation": "obj<FullCitation>"}, returns="obj<Resource>", fresh_result=True, noraise=True, prop="C06",
    requires={"arg": "full_citation is not None"},
    ensures={"wraps": "result is not None and result.citation is full_citation",
             "key": "reskey(result) == RK(citekey(full_citation))"})

RFC_WF = ("resolved_full_cites is not None and forall(lambda i: implies(0 <= i and i < len(resolved_full_cites), "
          "resolved_full_cites[i][0] is not None and resolved_full_cites[i][1] is not None "
          "and resolved_full_cites[i][0].metadata is not None and isinstance(resolved_full_cites[i][0], FullCitation)))")

# which entries of resolved_full_cites match an antecedent guess (written from the statement:
# "whose party names contain the short form's antecedent")
ANTE_DEFS = {
    "M": "lambda i: isinstance(resolved_full_cites[i][0], FullCaseCitation) and ("
         "(truthy(resolved_full_cites[i][0].metadata.defendant) and strip_punct_spec(antecedent_guess) in resolved_full_cites[i][0].metadata.defendant)"
         " or (truthy(resolved_full_cites[i][0].metadata.plaintiff) and strip_punct_spec(antecedent_guess) in resolved_full_cites[i][0].metadata.plaintiff))",
}

contract("resolve._filter_by_matching_antecedent",
    types={"resolved_full_cites": "seq[tuple[obj<FullCitation>,obj<Resource>]]", "antecedent_guess": "str"},
    returns="obj<Resource>", noraise=True, prop="C07",
    requires={"rfc_wf": RFC_WF, "ag": "antecedent_guess is not None"},
    defs=ANTE_DEFS,
    locals_types={"matches": "seq[obj<Resource>]"},
    ensures={
        # attached only to the unique matching case: every matching entry has the returned resource
        "unique": "implies(result is not None, forall(lambda i: implies(0 <= i and i < len(resolved_full_cites) and M(i), "
                  "reskey(resolved_full_cites[i][1]) == reskey(result))))",
        # nothing invented: the result is the resource object of a matching entry
        "member": "implies(result is not None, exists(lambda i: 0 <= i and i < len(resolved_full_cites) and M(i) and resolved_full_cites[i][1] is result))",
        # never guesses: two distinct candidates -> unresolved
        "ambiguous_none": "implies(exists(lambda i, j: 0 <= i and i < len(resolved_full_cites) and 0 <= j and j < len(resolved_full_cites) and M(i) and M(j) "
                          "and reskey(resolved_full_cites[i][1]) != reskey(resolved_full_cites[j][1])), result is None)",
        "nomatch_none": "implies(forall(lambda i: implies(0 <= i and i < len(resolved_full_cites), not M(i))), result is None)",
        # and it does resolve when the candidate is unique
        "resolves_unique": "implies(exists(lambda i: 0 <= i and i < len(resolved_full_cites) and M(i)) and forall(lambda i, j: implies(0 <= i and i < len(resolved_full_cites) and 0 <= j and j < len(resolved_full_cites) and M(i) and M(j), "
                           "reskey(resolved_full_cites[i][1]) == reskey(resolved_full_cites[j][1]))), result is not None)",
    })

loop("resolve._filter_by_matching_antecedent", 1,
    defs=ANTE_DEFS,
    invariant={
        "matches_wf": "matches is not None and len(matches) == len(ghost.midx) and len(ghost.minv) == k",
        # matches is exactly the resources of the matching entries seen so far, in order
        "sound": "forall(lambda j: implies(0 <= j and j < len(matches), 0 <= ghost.midx[j] and ghost.midx[j] < k and M(ghost.midx[j]) "
                 "and matches[j] is resolved_full_cites[ghost.midx[j]][1] and ghost.minv[ghost.midx[j]] == j))",
        "complete": "forall(lambda i: implies(0 <= i and i < k and M(i), 0 <= ghost.minv[i] and ghost.minv[i] < len(matches) and ghost.midx[ghost.minv[i]] == i))",
    })
R.contracts["resolve._filter_by_matching_antecedent"].ghost = {"midx": "seq[int]", "minv": "seq[int]"}
R.contracts["resolve._filter_by_matching_antecedent"].requires["ghost0"] = "len(ghost.midx) == 0 and len(ghost.minv) == 0"
ghost_code("resolve._filter_by_matching_antecedent", "loop1:body_end",
    "ghost.minv = seq_append(ghost.minv, ite(M(k), len(matches) - 1, 0 - 1))\n"
    "ghost.midx = ite(M(k), seq_append(ghost.midx, k), ghost.midx)")
