# Contracts for eyecite/resolve.py  (C06 faithful ordered partition, C07 never guesses, C08 online, C04 no raise)
#
# Equality of resources/citations is the A-HASH abstraction (DESIGN 2.3): `reskey(r)` / `citekey(c)` are the
# abstract hash values; r1 == r2  <=>  reskey(r1) == reskey(r2).  reskey(Resource(c)) == RK(citekey(c)) with RK
# injective is what models.Resource.__hash__ computes (proved under C16, assumed here at the constructor).
import z3
from pyvc.values import Obj, SV, INT, BOOL, OBJ, SEQ, DICT, MapV, SeqV, to_flat, from_flat, fresh_name, TRUE, FALSE
from pyvc.engine import And, Or, Not, Implies, I

reskey = z3.Function("reskey", Obj, z3.IntSort())
citekey = z3.Function("citekey", Obj, z3.IntSort())
RK = z3.Function("RK", z3.IntSort(), z3.IntSort())
RKinv = z3.Function("RKinv", z3.IntSort(), z3.IntSort())
strip_punct_f = z3.Function("strip_punct_spec", z3.StringSort(), z3.StringSort())


@spec("eq_key")
def _eq_key(e, st, o):
    cls = e.static_class(st, o)
    if cls == "Resource" or (cls in e.repo.classes and "Resource" in e.repo.mro(cls)):
        return reskey(o.v)
    if cls in e.repo.classes and "CitationBase" in e.repo.mro(cls):
        return citekey(o.v)
    raise Exception(f"eq_key: no abstract key for static class {cls}")


@spec("obj_eq")
def _obj_eq(e, st, a, b):
    ca, cb = e.static_class(st, a), e.static_class(st, b)
    if ca == cb == "Resource":
        return reskey(a.v) == reskey(b.v)
    return None


@spec("reskey")
def _reskey(e, st, o):
    return SV(INT, reskey(o.v), o.none)


@spec("citekey")
def _citekey(e, st, o):
    return SV(INT, citekey(o.v), o.none)


@spec("RK")
def _RK(e, st, x):
    e.axioms_once("RK-injective", lambda: z3.ForAll([z3.Int("rkx")], RKinv(RK(z3.Int("rkx"))) == z3.Int("rkx")))
    return SV(INT, RK(x.v))


@spec("strip_punct_spec")
def _sp(e, st, s):
    return SV(s.ty, strip_punct_f(s.v), s.none)


@spec("seq_append")
def _seq_append(e, st, s, v):
    return e.seq_append(s, v)


@spec("map_get")
def _map_get(e, st, d, k):
    """value stored under key k (an int key), or the empty sequence if absent"""
    vt = d.ty.elts[1]
    stored = from_flat(vt, [z3.Select(a, k.v) for a in d.v.arrs])
    empty = e.seq_from_items([], vt.elts[0])
    from pyvc.values import ite_sv
    return ite_sv(z3.Select(d.v.has, k.v), stored, empty)


@spec("map_has")
def _map_has(e, st, d, k):
    return SV(BOOL, z3.Select(d.v.has, k.v))


@spec("map_put")
def _map_put(e, st, d, k, v):
    vt = d.ty.elts[1]
    comps = to_flat(e.coerce(v, vt), vt)
    return SV(d.ty, MapV(z3.Store(d.v.has, k.v, TRUE), [z3.Store(a, k.v, c) for a, c in zip(d.v.arrs, comps)]), d.none)


# ------------------------------------------------------------------------------------------------ externals

assumed("utils.strip_punct",
    types={"text": "str"}, returns="str",
    requires={"is_str": "text is not None"},
    pure_result="strip_punct_spec(text)",
    trusted_note="uninterpreted function of its argument; only determinism is used (what it strips is not part of C07)")

assumed("models.Resource.__init__",
    params=["citation"], types={"citation": "obj<FullCitation>"}, returns="obj<Resource>", fresh_result=True,
    ensures={"field": "result is not None and result.citation is citation",
             "hash": "reskey(result) == RK(citekey(citation))"},
    trusted_note="dataclass-generated __init__; reskey(Resource(c)) == RK(citekey(c)) is Resource.__hash__'s contract, proved under C16")

# ------------------------------------------------------------------------------------------------ resolvers

contract("resolve.resolve_full_citation",
    types={"full_citation": "obj<FullCitation>"}, returns="obj<Resource>", fresh_result=True, noraise=True, prop="C06",
    requires={"arg": "full_citation is not None"},
    ensures={"wraps": "result is not None and result.citation is full_citation",
             "key": "reskey(result) == RK(citekey(full_citation))"})

RFC_WF = ("resolved_full_cites is not None and forall(lambda i: implies(0 <= i and i < len(resolved_full_cites), "
          "resolved_full_cites[i][0] is not None and resolved_full_cites[i][1] is not None "
          "and resolved_full_cites[i][0].metadata is not None and isinstance(resolved_full_cites[i][0], FullCitation)))")

MD_WF = ("forall(lambda i: implies(0 <= i and i < len(resolved_full_cites), metadata_wf(resolved_full_cites[i][0])))")

# which entries of resolved_full_cites match an antecedent guess (written from the statement:
# "whose party names contain the short form's antecedent")
ANTE_DEFS = {
    "M": "lambda i: isinstance(resolved_full_cites[i][0], FullCaseCitation) and ("
         "(truthy(resolved_full_cites[i][0].metadata.defendant) and strip_punct_spec(antecedent_guess) in resolved_full_cites[i][0].metadata.defendant)"
         " or (truthy(resolved_full_cites[i][0].metadata.plaintiff) and strip_punct_spec(antecedent_guess) in resolved_full_cites[i][0].metadata.plaintiff))",
}

contract("resolve._filter_by_matching_antecedent",
    types={"resolved_full_cites": "seq[tuple[obj<FullCitation>,obj<Resource>]]", "antecedent_guess": "str"},
    returns="obj<Resource>", noraise=True, prop="C07",
    requires={"rfc_wf": RFC_WF, "md_wf": MD_WF, "ag": "antecedent_guess is not None"},
    defs=ANTE_DEFS,
    locals_types={"matches": "seq[obj<Resource>]"},
    ensures={
        # attached only to the unique matching case: every matching entry has the returned resource
        "unique": "implies(result is not None, forall(lambda i: implies(0 <= i and i < len(resolved_full_cites) and M(i), "
                  "reskey(resolved_full_cites[i][1]) == reskey(result))))",
        # nothing invented: the result is the resource object of a matching entry
        "member": "implies(result is not None, exists(lambda i: 0 <= i and i < len(resolved_full_cites) and M(i) and resolved_full_cites[i][1] is result))",
        # never guesses: two distinct candidates -> unresolved
        "ambiguous_none": "implies(exists(lambda i, j: 0 <= i and i < len(resolved_full_cites) and 0 <= j and j < len(resolved_full_cites) and M(i) and M(j) "
                          "and reskey(resolved_full_cites[i][1]) != reskey(resolved_full_cites[j][1])), result is None)",
        "nomatch_none": "implies(forall(lambda i: implies(0 <= i and i < len(resolved_full_cites), not M(i))), result is None)",
        # and it does resolve when the candidate is unique
        "resolves_unique": "implies(exists(lambda i: 0 <= i and i < len(resolved_full_cites) and M(i)) and forall(lambda i, j: implies(0 <= i and i < len(resolved_full_cites) and 0 <= j and j < len(resolved_full_cites) and M(i) and M(j), "
                           "reskey(resolved_full_cites[i][1]) == reskey(resolved_full_cites[j][1]))), result is not None)",
    })

loop("resolve._filter_by_matching_antecedent", 1,
    defs=ANTE_DEFS,
    invariant={
        "matches_wf": "matches is not None and len(matches) == len(ghost.midx) and len(ghost.minv) == k",
        # matches is exactly the resources of the matching entries seen so far, in order
        "sound": "forall(lambda j: implies(0 <= j and j < len(matches), 0 <= ghost.midx[j] and ghost.midx[j] < k and M(ghost.midx[j]) "
                 "and matches[j] is resolved_full_cites[ghost.midx[j]][1] and ghost.minv[ghost.midx[j]] == j))",
        "complete": "forall(lambda i: implies(0 <= i and i < k and M(i), 0 <= ghost.minv[i] and ghost.minv[i] < len(matches) and ghost.midx[ghost.minv[i]] == i))",
    })
R.contracts["resolve._filter_by_matching_antecedent"].ghost = {"midx": "seq[int]", "minv": "seq[int]"}
R.contracts["resolve._filter_by_matching_antecedent"].ghost_init["ghost0"] = "len(ghost.midx) == 0 and len(ghost.minv) == 0"
ghost_code("resolve._filter_by_matching_antecedent", "loop1:body_end",
    "ghost.minv = seq_append(ghost.minv, ite(M(k), len(matches) - 1, 0 - 1))\n"
    "ghost.midx = ite(M(k), seq_append(ghost.midx, k), ghost.midx)")

# ------------------------------------------------------------------------------------------------ reference / supra
NAME_FIELDS = ["plaintiff", "defendant", "resolved_case_name_short", "resolved_case_name"]
# statement: "attached only to the unique previously cited case whose party (or resolved) names match it"
_pairs = " or ".join(
    f"(truthy(reference_citation.metadata.{f}) and truthy(resolved_full_cites[i][0].metadata.{g}) and "
    f"reference_citation.metadata.{f} == resolved_full_cites[i][0].metadata.{g})"
    for f in NAME_FIELDS for g in NAME_FIELDS)
REF_DEFS = {"MR": f"lambda i: isinstance(resolved_full_cites[i][0], FullCaseCitation) and ({_pairs})"}



def uniqueness_clauses(M):
    rfc = "resolved_full_cites"
    n = f"len({rfc})"
    return {
        "unique": f"implies(result is not None, forall(lambda i: implies(0 <= i and i < {n} and {M}(i), reskey({rfc}[i][1]) == reskey(result))))",
        "member": f"implies(result is not None, exists(lambda i: 0 <= i and i < {n} and {M}(i) and {rfc}[i][1] is result))",
        "ambiguous_none": f"implies(exists(lambda i, j: 0 <= i and i < {n} and 0 <= j and j < {n} and {M}(i) and {M}(j) and reskey({rfc}[i][1]) != reskey({rfc}[j][1])), result is None)",
        "nomatch_none": f"implies(forall(lambda i: implies(0 <= i and i < {n}, not {M}(i))), result is None)",
        "resolves_unique": f"implies(exists(lambda i: 0 <= i and i < {n} and {M}(i)) and forall(lambda i, j: implies(0 <= i and i < {n} and 0 <= j and j < {n} and {M}(i) and {M}(j), reskey({rfc}[i][1]) == reskey({rfc}[j][1]))), result is not None)",
    }


contract("resolve._filter_by_matching_plaintiff_or_defendant_or_resolved_names",
    types={"resolved_full_cites": "seq[tuple[obj<FullCitation>,obj<Resource>]]", "reference_citation": "obj<ReferenceCitation>"},
    returns="obj<Resource>", noraise=True, prop="C07",
    requires={"rfc_wf": RFC_WF, "md_wf": MD_WF,
              "ref": "reference_citation is not None and reference_citation.metadata is not None and metadata_wf(reference_citation)"},
    defs=REF_DEFS, locals_types={"matches": "seq[obj<Resource>]"}, merge_ifs=True,
    ghost={"midx": "seq[int]", "minv": "seq[int]"},
    ensures=uniqueness_clauses("MR"))
R.contracts["resolve._filter_by_matching_plaintiff_or_defendant_or_resolved_names"].ghost_init["ghost0"] = "len(ghost.midx) == 0 and len(ghost.minv) == 0"

loop("resolve._filter_by_matching_plaintiff_or_defendant_or_resolved_names", 2,
    invariant={
        "matches_wf": "matches is not None and len(matches) == len(ghost.midx) and len(ghost.minv) == k",
        "sound": "forall(lambda j: implies(0 <= j and j < len(matches), 0 <= ghost.midx[j] and ghost.midx[j] < k and MR(ghost.midx[j]) "
                 "and matches[j] is resolved_full_cites[ghost.midx[j]][1] and ghost.minv[ghost.midx[j]] == j))",
        "complete": "forall(lambda i: implies(0 <= i and i < k and MR(i), 0 <= ghost.minv[i] and ghost.minv[i] < len(matches) and ghost.midx[ghost.minv[i]] == i))",
    })
ghost_code("resolve._filter_by_matching_plaintiff_or_defendant_or_resolved_names", "loop2:body_end",
    "ghost.minv = seq_append(ghost.minv, ite(MR(k), len(matches) - 1, 0 - 1))\n"
    "ghost.midx = ite(MR(k), seq_append(ghost.midx, k), ghost.midx)")

contract("resolve._resolve_supra_citation",
    types={"supra_citation": "obj<SupraCitation>", "resolved_full_cites": "seq[tuple[obj<FullCitation>,obj<Resource>]]"},
    returns="obj<Resource>", noraise=True, prop="C07",
    requires={"rfc_wf": RFC_WF, "md_wf": MD_WF, "cite": "supra_citation is not None and supra_citation.metadata is not None and metadata_wf(supra_citation)"},
    defs={"M": ANTE_DEFS["M"].replace("antecedent_guess", "supra_citation.metadata.antecedent_guess")},
    ensures=dict({k_: (v_ if k_ != "resolves_unique" else "implies(truthy(supra_citation.metadata.antecedent_guess), " + v_ + ")") for k_, v_ in uniqueness_clauses("M").items()},
                 no_guess_none="implies(not truthy(supra_citation.metadata.antecedent_guess), result is None)"))
for _k in ("nomatch_none", "ambiguous_none", "resolves_unique"):
    pass

contract("resolve._resolve_reference_citation",
    types={"reference_citation": "obj<ReferenceCitation>", "resolved_full_cites": "seq[tuple[obj<FullCitation>,obj<Resource>]]"},
    returns="obj<Resource>", noraise=True, prop="C07",
    requires={"rfc_wf": RFC_WF, "md_wf": MD_WF,
              "ref": "reference_citation is not None and reference_citation.metadata is not None and metadata_wf(reference_citation)"},
    defs=REF_DEFS,
    ensures=dict({k_: (v_ if k_ != "resolves_unique" else "implies(truthy(reference_citation.metadata.defendant) or truthy(reference_citation.metadata.plaintiff) or truthy(reference_citation.metadata.resolved_case_name_short) or truthy(reference_citation.metadata.resolved_case_name), " + v_ + ")") for k_, v_ in uniqueness_clauses("MR").items()},
                 no_names_none="implies(not truthy(reference_citation.metadata.defendant) and not truthy(reference_citation.metadata.plaintiff)"
                               " and not truthy(reference_citation.metadata.resolved_case_name_short) and not truthy(reference_citation.metadata.resolved_case_name), result is None)"))

# ------------------------------------------------------------------------------------------------ id. pin-cite window
from pyvc import cpy_tables
pin_lo = z3.Function("pin_lo", z3.StringSort(), z3.IntSort())
pin_hi = z3.Function("pin_hi", z3.StringSort(), z3.IntSort())


def _D():
    return cpy_tables.char_class("re_d")


def pin_axioms(e, st, s):
    """E-RE-LANG(r"(?:at )?(\\d+)") for re.match: it matches iff s is in (at )?\\d+.*, and group 1 is then the
    maximal digit run starting right after the optional "at " (greedy, nothing follows the group)."""
    key = "pin:" + s.sexpr()
    done = st.__dict__.setdefault("_int_ax", set())
    if key in done:
        return
    done.add(key)
    D = _D()
    has = z3.InRe(s, z3.Concat(z3.Option(z3.Re("at ")), z3.Plus(D), z3.Full(z3.ReSort(z3.StringSort()))))
    lo, hi = pin_lo(s), pin_hi(s)
    st.assume(Implies(has, And(Or(lo == 0, lo == 3), (lo == 3) == z3.PrefixOf(z3.StringVal("at "), s), lo < hi, hi <= z3.Length(s),
                               z3.InRe(z3.SubString(s, lo, hi - lo), z3.Plus(D)),
                               Or(hi == z3.Length(s), Not(z3.InRe(z3.SubString(s, hi, 1), D))))))
    e.trust("E-RE-LANG(r\"(?:at )?(\\d+)\"): re.match succeeds iff the text is in (at )?\\d+.* and group 1 is the maximal digit run there (lemma 4.2)")
    return has


@spec("has_pin_num")
def _has_pin_num(e, st, s):
    D = _D()
    pin_axioms(e, st, s.v)
    return SV(BOOL, And(Not(s.none), z3.InRe(s.v, z3.Concat(z3.Option(z3.Re("at ")), z3.Plus(D), z3.Full(z3.ReSort(z3.StringSort()))))))


@spec("pin_num")
def _pin_num(e, st, s):
    from pyvc import builtins_model as bm
    pin_axioms(e, st, s.v)
    d = z3.SubString(s.v, pin_lo(s.v), pin_hi(s.v) - pin_lo(s.v))
    bm.int_axioms(e, st, d)
    return SV(INT, bm.str_to_int(d))


@spec("is_udigits")
def _is_udigits(e, st, s):
    return SV(BOOL, And(Not(s.none), z3.InRe(s.v, z3.Plus(_D()))))


PS = z3.Function("page_shape_p", z3.StringSort(), z3.BoolSort())


@spec("page_shape")
def _page_shape(e, st, s):
    """language of PAGE_NUMBER_REGEX = \\d+ | roman | _+ ; only the part used here: a page that satisfies
    str.isdigit() is a \\d+ string (roman numerals and underscores are not isdigit())."""
    from pyvc import builtins_model as bm
    x = z3.String("ps!x")
    e.axioms_once("page_shape_def", lambda: z3.ForAll([x], PS(x) == Implies(bm.str_isdigit(x), z3.InRe(x, z3.Plus(_D()))), patterns=[PS(x)]))
    return SV(BOOL, Or(s.none, PS(s.v)))


@spec("on_re_match")
def _on_re_match(e, st, m, fname, pat, text, kw):
    from pyvc import builtins_model as bm
    if pat.tag and pat.tag[0] == "lit" and pat.tag[1] == r"(?:at )?(\d+)" and fname == "match" and text.ty.kind == "str":
        has = pin_axioms(e, st, text.v)
        D = _D()
        hasf = z3.InRe(text.v, z3.Concat(z3.Option(z3.Re("at ")), z3.Plus(D), z3.Full(z3.ReSort(z3.StringSort()))))
        st.assume(m.none == Not(hasf))
        g = z3.StringVal("#1")
        st.assume(Implies(Not(m.none), And(bm.m_ghas(m.v, g), bm.m_gstart(m.v, g) == pin_lo(text.v), bm.m_gend(m.v, g) == pin_hi(text.v))))


def pin_defs(full, idc):
    page = f"{full}.groups.get('page')"
    pin = f"{idc}.metadata.pin_cite"
    return {
        # the antecedent has a placeholder page
        "PLACEHOLDER": f"lambda: isinstance_exact({full}, FullCaseCitation) and {page} is None",
        "HASPIN": f"lambda: truthy({pin})",
        # the antecedent's page is a decimal number that int() can read (at most 4300 digits)
        "NUMERIC": f"lambda: is_udigits({page}) and len({page}) <= 4300",
        "NONDIGIT": f"lambda: {page} is None or not str_isdigit({page})",
        # the pin cite is non-numeric, or lies before the first page, or implausibly far (150 pages) beyond it
        "WINDOW_BAD": f"lambda: not has_pin_num({pin}) or pin_num({pin}) < str_to_int({page}) or pin_num({pin}) > str_to_int({page}) + 150",
    }


@spec("str_isdigit")
def _str_isdigit(e, st, s):
    from pyvc import builtins_model as bm
    bm.int_axioms(e, st, s.v)
    return SV(BOOL, And(Not(s.none), bm.str_isdigit(s.v)))


contract("resolve._has_invalid_pin_cite",
    types={"full_cite": "obj<FullCitation>", "id_cite": "obj<IdCitation>"}, returns="bool", noraise=True, prop="C07",
    requires={
        "args": "full_cite is not None and id_cite is not None and full_cite.groups is not None and id_cite.metadata is not None and metadata_wf(id_cite)",
        # class invariant of citations built from the shipped extractors: the page group matches PAGE_NUMBER_REGEX (digit-shape lemma 4.2)
        "page_shape": "page_shape(full_cite.groups.get('page'))",
        # pin cites come from a 300-character match window (helpers.MAX_MATCH_CHARS)
        "pin_len": "id_cite.metadata.pin_cite is None or len(id_cite.metadata.pin_cite) <= 300",
    },
    defs=pin_defs("full_cite", "id_cite"),
    ensures={
        # from the statement: unresolved when the antecedent has a placeholder page ...
        "placeholder": "implies(PLACEHOLDER(), result)",
        "no_pin_ok": "implies(not PLACEHOLDER() and not HASPIN(), not result)",
        # ... or when its pin cite is non-numeric or lies before the first page or implausibly far beyond it
        "window": "implies(not PLACEHOLDER() and HASPIN() and NUMERIC(), result == WINDOW_BAD())",
        # antecedents without a numeric page (statutes, roman pages): nothing to compare against, accepted
        "nonnumeric_page_ok": "implies(not PLACEHOLDER() and HASPIN() and NONDIGIT(), not result)",
    })

contract("resolve._resolve_id_citation",
    types={"id_citation": "obj<IdCitation>", "last_resolution": "obj<Resource>",
           "resolutions": "defaultdict[obj<Resource>,seq[obj<CitationBase>]]"},
    returns="obj<Resource>", noraise=True, prop="C07",
    requires={
        "id": "id_citation is not None and id_citation.metadata is not None and metadata_wf(id_citation)",
        "pin_len": "id_citation.metadata.pin_cite is None or len(id_citation.metadata.pin_cite) <= 300",
        # loop invariant (vi) of resolve_citations: the last resolution is a key with a non-empty list whose head is a full citation
        "last_in_keys": "implies(last_resolution is not None, map_has(resolutions, reskey(last_resolution)) and len(map_get(resolutions, reskey(last_resolution))) >= 1)",
        "head_is_full": "implies(last_resolution is not None, map_get(resolutions, reskey(last_resolution))[0] is not None and isinstance(map_get(resolutions, reskey(last_resolution))[0], FullCitation))",
        "head_groups": "implies(last_resolution is not None, map_get(resolutions, reskey(last_resolution))[0].groups is not None)",
        "head_page_shape": "implies(last_resolution is not None, page_shape(map_get(resolutions, reskey(last_resolution))[0].groups.get('page')))",
    },
    defs=pin_defs("typed(map_get(resolutions, reskey(last_resolution))[0], 'obj<FullCitation>')", "id_citation"),
    ensures={
        # an id. citation is attached only to the resource of the citation immediately before it ...
        "only_last": "result is None or result is last_resolution",
        # ... and is left unresolved when that citation is unresolved, when the antecedent has a placeholder page,
        # or when the pin cite is non-numeric / before the first page / implausibly far beyond it
        "prev_unresolved": "implies(last_resolution is None, result is None)",
        "placeholder": "implies(last_resolution is not None and PLACEHOLDER(), result is None)",
        "window_bad": "implies(last_resolution is not None and not PLACEHOLDER() and HASPIN() and NUMERIC() and WINDOW_BAD(), result is None)",
        "window_ok": "implies(last_resolution is not None and not PLACEHOLDER() and HASPIN() and NUMERIC() and not WINDOW_BAD(), result is last_resolution)",
        "no_pin": "implies(last_resolution is not None and not PLACEHOLDER() and not HASPIN(), result is last_resolution)",
    })

# ------------------------------------------------------------------------------------------------ short form
contract("models.ResourceCitation.corrected_reporter",
    types={"self": "obj<ResourceCitation>"}, returns="str", prop="C16",
    requires={"self": "self is not None and self.groups is not None",
              "has_reporter": "self.edition_guess is not None or 'reporter' in self.groups"},
    # normalised reporter: the guessed edition's name if there is a guess, else the reporter as written
    pure_result="ite(self.edition_guess is not None, self.edition_guess.short_name, self.groups['reporter'])")

CASE_WF = ("(lambda c: c is not None and c.groups is not None and c.metadata is not None "
           "and (c.edition_guess is not None or 'reporter' in c.groups))")

SHORT_DEFS = {
    # statement: "a previously cited case with the same normalised reporter and volume"
    "C": "lambda i: isinstance(resolved_full_cites[i][0], FullCaseCitation) "
         "and short_citation.corrected_reporter() == typed(resolved_full_cites[i][0], 'obj<FullCaseCitation>').corrected_reporter() "
         "and short_citation.groups.get('volume') == resolved_full_cites[i][0].groups.get('volume')",
    "M": ANTE_DEFS["M"].replace("antecedent_guess", "short_citation.metadata.antecedent_guess"),
}
RFC_CASE_WF = ("forall(lambda i: implies(0 <= i and i < len(resolved_full_cites), resolved_full_cites[i][0].groups is not None and "
               "(resolved_full_cites[i][0].edition_guess is not None or 'reporter' in resolved_full_cites[i][0].groups)))")

contract("resolve._resolve_shortcase_citation",
    types={"short_citation": "obj<ShortCaseCitation>", "resolved_full_cites": "seq[tuple[obj<FullCitation>,obj<Resource>]]"},
    returns="obj<Resource>", noraise=True, prop="C07",
    requires={"rfc_wf": RFC_WF, "md_wf": MD_WF, "rfc_case_wf": RFC_CASE_WF,
              "short": "short_citation is not None and short_citation.groups is not None and short_citation.metadata is not None and metadata_wf(short_citation) "
                       "and (short_citation.edition_guess is not None or 'reporter' in short_citation.groups)"},
    defs=SHORT_DEFS, locals_types={"candidates": "seq[tuple[obj<FullCitation>,obj<Resource>]]"},
    ghost={"cidx": "seq[int]", "cinv": "seq[int]"},
    ghost_init={"ghost0": "len(ghost.cidx) == 0 and len(ghost.cinv) == 0"},
    ensures={
        # attached only to a previously cited case with the same normalised reporter and volume ...
        "member": "implies(result is not None, exists(lambda i: 0 <= i and i < len(resolved_full_cites) and C(i) and resolved_full_cites[i][1] is result))",
        # ... and only if that case is the unique such case, or the unique one among them whose party names contain the antecedent
        "unique_or_antecedent": "implies(result is not None, "
            "forall(lambda i: implies(0 <= i and i < len(resolved_full_cites) and C(i), reskey(resolved_full_cites[i][1]) == reskey(result))) "
            "or (truthy(short_citation.metadata.antecedent_guess) and forall(lambda i: implies(0 <= i and i < len(resolved_full_cites) and C(i) and M(i), "
            "reskey(resolved_full_cites[i][1]) == reskey(result)))))",
        "no_candidate_none": "implies(forall(lambda i: implies(0 <= i and i < len(resolved_full_cites), not C(i))), result is None)",
        # two or more distinct candidates and nothing to refine with -> unresolved
        "ambiguous_none": "implies(exists(lambda i, j: 0 <= i and i < len(resolved_full_cites) and 0 <= j and j < len(resolved_full_cites) and C(i) and C(j) "
                          "and reskey(resolved_full_cites[i][1]) != reskey(resolved_full_cites[j][1])) and not truthy(short_citation.metadata.antecedent_guess), result is None)",
        "ambiguous_antecedent_none": "implies(exists(lambda i, j: 0 <= i and i < len(resolved_full_cites) and 0 <= j and j < len(resolved_full_cites) and C(i) and C(j) and M(i) and M(j) "
                          "and reskey(resolved_full_cites[i][1]) != reskey(resolved_full_cites[j][1])), result is None)",
        "resolves_unique": "implies(exists(lambda i: 0 <= i and i < len(resolved_full_cites) and C(i)) and forall(lambda i, j: implies(0 <= i and i < len(resolved_full_cites) and 0 <= j and j < len(resolved_full_cites) and C(i) and C(j), "
                           "reskey(resolved_full_cites[i][1]) == reskey(resolved_full_cites[j][1]))), result is not None)",
    })

loop("resolve._resolve_shortcase_citation", 1,
    invariant={
        "cand_wf": "candidates is not None and len(candidates) == len(ghost.cidx) and len(ghost.cinv) == k "
                   "and forall(lambda j: implies(0 <= j and j < len(candidates), candidates[j] is not None))",
        "sound": "forall(lambda j: implies(0 <= j and j < len(candidates), 0 <= ghost.cidx[j] and ghost.cidx[j] < k and C(ghost.cidx[j]) "
                 "and candidates[j][0] is resolved_full_cites[ghost.cidx[j]][0] and candidates[j][1] is resolved_full_cites[ghost.cidx[j]][1] and ghost.cinv[ghost.cidx[j]] == j))",
        "complete": "forall(lambda i: implies(0 <= i and i < k and C(i), 0 <= ghost.cinv[i] and ghost.cinv[i] < len(candidates) and ghost.cidx[ghost.cinv[i]] == i))",
    })
ghost_code("resolve._resolve_shortcase_citation", "loop1:body_end",
    "ghost.cinv = seq_append(ghost.cinv, ite(C(k), len(candidates) - 1, 0 - 1))\n"
    "ghost.cidx = ite(C(k), seq_append(ghost.cidx, k), ghost.cidx)")

# ------------------------------------------------------------------------------------------------ the one-pass resolver
CIT_WF = ("citations is not None and forall(lambda i: implies(0 <= i and i < len(citations), "
          "citations[i] is not None and citations[i].metadata is not None and citations[i].groups is not None and metadata_wf(citations[i]) "
          "and implies(isinstance(citations[i], ResourceCitation), typed(citations[i], 'obj<ResourceCitation>').edition_guess is not None or 'reporter' in citations[i].groups) "
          "and implies(isinstance(citations[i], IdCitation), citations[i].metadata.pin_cite is None or len(citations[i].metadata.pin_cite) <= 300) "
          "and implies(isinstance(citations[i], FullCitation), page_shape(citations[i].groups.get('page')))))")

R_HAS = "map_has(resolutions, r)"
R_GET = "map_get(resolutions, r)"

contract("resolve.resolve_citations",
    types={"citations": "seq[obj<CitationBase>]"},
    returns="defaultdict[obj<Resource>,seq[obj<CitationBase>]]", noraise=True, prop="C06",
    requires={"citations_wf": CIT_WF},
    locals_types={"resolutions": "defaultdict[obj<Resource>,seq[obj<CitationBase>]]",
                  "resolved_full_cites": "seq[tuple[obj<FullCitation>,obj<Resource>]]",
                  "last_resolution": "obj<Resource>", "resolution": "obj<Resource>"},
    ghost={"res": "seq[int]", "pos": "seq[int]", "src": "dict[int,seq[int]]", "fidx": "seq[int]"},
    ghost_init={"ghost0": "len(ghost.res) == 0 and len(ghost.pos) == 0 and len(ghost.fidx) == 0 and forall(lambda r: not map_has(ghost.src, r))"},
    ensures={
        # C06: the values are pairwise disjoint sub-sequences of the input: same objects, input order, nothing invented/repeated
        "same_objects_in_order": "forall(lambda r, j: implies(map_has(result, r) and 0 <= j and j < len(map_get(result, r)), "
            "0 <= map_get(ghost.src, r)[j] and map_get(ghost.src, r)[j] < len(citations) and map_get(result, r)[j] is citations[map_get(ghost.src, r)[j]]))"
            " and forall(lambda r, j, j2: implies(map_has(result, r) and 0 <= j and j < j2 and j2 < len(map_get(result, r)), map_get(ghost.src, r)[j] < map_get(ghost.src, r)[j2]))",
        "disjoint": "forall(lambda r, j, r2, j2: implies(map_has(result, r) and map_has(result, r2) and 0 <= j and j < len(map_get(result, r)) and 0 <= j2 and j2 < len(map_get(result, r2)) "
            "and map_get(ghost.src, r)[j] == map_get(ghost.src, r2)[j2], r == r2 and j == j2))",
        # every list starts with a full citation
        "first_is_full": "forall(lambda r: implies(map_has(result, r), len(map_get(result, r)) >= 1 and isinstance(map_get(result, r)[0], FullCitation)))",
        # every full citation appears under exactly one resource (its own)
        "every_full_once": "forall(lambda i: implies(0 <= i and i < len(citations) and isinstance(citations[i], FullCitation), "
            "ghost.res[i] is not None and ghost.res[i] == RK(citekey(citations[i])) and map_has(result, ghost.res[i]) "
            "and 0 <= ghost.pos[i] and ghost.pos[i] < len(map_get(result, ghost.res[i])) and map_get(result, ghost.res[i])[ghost.pos[i]] is citations[i]))",
        # two full citations share a resource exactly when they are equal
        "share_iff_equal": "forall(lambda i, j: implies(0 <= i and i < len(citations) and 0 <= j and j < len(citations) and isinstance(citations[i], FullCitation) and isinstance(citations[j], FullCitation), "
            "(ghost.res[i] == ghost.res[j]) == (citekey(citations[i]) == citekey(citations[j]))))",
        # unknown (section-sign) citations never appear
        "unknown_never": "forall(lambda i: implies(0 <= i and i < len(citations) and isinstance(citations[i], UnknownCitation), ghost.res[i] is None))",
        "recorded_iff_resolved": "forall(lambda i: implies(0 <= i and i < len(citations) and ghost.res[i] is not None, map_has(result, ghost.res[i]) and 0 <= ghost.pos[i] and ghost.pos[i] < len(map_get(result, ghost.res[i])) "
            "and map_get(ghost.src, ghost.res[i])[ghost.pos[i]] == i))",
        # C08: every non-full citation is grouped only with a resource introduced by a full citation occurring EARLIER
        "causal": "forall(lambda i: implies(0 <= i and i < len(citations) and ghost.res[i] is not None and not isinstance(citations[i], FullCitation), "
            "map_get(ghost.src, ghost.res[i])[0] < i and isinstance(citations[map_get(ghost.src, ghost.res[i])[0]], FullCitation)))",
    },
    props={"causal": "C08"})

loop("resolve.resolve_citations", 1,
    invariant={
        "wf": "len(ghost.res) == k and len(ghost.pos) == k and resolutions is not None and resolved_full_cites is not None and len(ghost.fidx) == len(resolved_full_cites)",
        "keys": f"forall(lambda r: ({R_HAS} == map_has(ghost.src, r)) and implies({R_HAS}, len(map_get(ghost.src, r)) == len({R_GET}) and len({R_GET}) >= 1))",
        "members": f"forall(lambda r, j: implies({R_HAS} and 0 <= j and j < len({R_GET}), 0 <= map_get(ghost.src, r)[j] and map_get(ghost.src, r)[j] < k "
                   f"and {R_GET}[j] is citations[map_get(ghost.src, r)[j]] and ghost.res[map_get(ghost.src, r)[j]] == r and ghost.pos[map_get(ghost.src, r)[j]] == j))",
        "order": f"forall(lambda r, j, j2: implies({R_HAS} and 0 <= j and j < j2 and j2 < len({R_GET}), map_get(ghost.src, r)[j] < map_get(ghost.src, r)[j2]))",
        "recorded": "forall(lambda i: implies(0 <= i and i < k and ghost.res[i] is not None, map_has(resolutions, ghost.res[i]) and 0 <= ghost.pos[i] "
                    "and ghost.pos[i] < len(map_get(resolutions, ghost.res[i])) and map_get(ghost.src, ghost.res[i])[ghost.pos[i]] == i))",
        "full_resolved": "forall(lambda i: implies(0 <= i and i < k and isinstance(citations[i], FullCitation), ghost.res[i] is not None and ghost.res[i] == RK(citekey(citations[i]))))",
        "first_full": f"forall(lambda r: implies({R_HAS}, isinstance(citations[map_get(ghost.src, r)[0]], FullCitation)))",
        "rfc": "forall(lambda m: implies(0 <= m and m < len(resolved_full_cites), 0 <= ghost.fidx[m] and ghost.fidx[m] < k and resolved_full_cites[m] is not None "
               "and resolved_full_cites[m][0] is citations[ghost.fidx[m]] and isinstance(citations[ghost.fidx[m]], FullCitation) and resolved_full_cites[m][1] is not None "
               "and reskey(resolved_full_cites[m][1]) == ghost.res[ghost.fidx[m]] and ghost.res[ghost.fidx[m]] is not None and map_has(resolutions, reskey(resolved_full_cites[m][1]))))",
        "unknown": "forall(lambda i: implies(0 <= i and i < k and isinstance(citations[i], UnknownCitation), ghost.res[i] is None))",
        # C07: id. follows only its predecessor -- last_resolution is the resolution of the immediately preceding element, resolved or not
        "last_is_prev": "implies(k == 0, last_resolution is None) and implies(k > 0, (last_resolution is None) == (ghost.res[k - 1] is None) "
                        "and implies(last_resolution is not None, reskey(last_resolution) == ghost.res[k - 1] and map_has(resolutions, reskey(last_resolution))))",
    },
    # C08 (online): one step only appends the current citation to at most one list; nothing earlier changes
    step={
        "append_only": "forall(lambda r: implies(map_has(prev(resolutions), r), map_has(resolutions, r) and len(map_get(prev(resolutions), r)) <= len(map_get(resolutions, r)) "
                       "and forall(lambda j: implies(0 <= j and j < len(map_get(prev(resolutions), r)), map_get(resolutions, r)[j] is map_get(prev(resolutions), r)[j]))))",
        "at_most_current": "forall(lambda r: len(map_get(resolutions, r)) == len(map_get(prev(resolutions), r)) "
                           "or (len(map_get(resolutions, r)) == len(map_get(prev(resolutions), r)) + 1 and ghost.res[k] is not None and r == ghost.res[k] "
                           "and map_get(resolutions, r)[len(map_get(resolutions, r)) - 1] is citations[k]))",
        "rfc_prefix": "len(prev(resolved_full_cites)) <= len(resolved_full_cites) and len(resolved_full_cites) <= len(prev(resolved_full_cites)) + 1 "
                      "and forall(lambda m: implies(0 <= m and m < len(prev(resolved_full_cites)), resolved_full_cites[m][0] is prev(resolved_full_cites)[m][0] and resolved_full_cites[m][1] is prev(resolved_full_cites)[m][1]))",
    })
R.loops[("resolve.resolve_citations", 1)].props.update({"append_only": "C08", "at_most_current": "C08", "rfc_prefix": "C08"})
R.contracts["resolve.resolve_citations"].props.update({"append_only": "C08", "at_most_current": "C08", "rfc_prefix": "C08",
    "same_objects_in_order": "C06", "disjoint": "C06", "first_is_full": "C06", "every_full_once": "C06", "share_iff_equal": "C06", "unknown_never": "C06", "recorded_iff_resolved": "C06"})

ghost_code("resolve.resolve_citations", "loop1:body_end",
    "ghost.res = seq_append(ghost.res, ite(truthy(resolution), reskey(resolution), None))\n"
    "ghost.pos = seq_append(ghost.pos, ite(truthy(resolution), len(map_get(resolutions, reskey(resolution))) - 1, 0))\n"
    "ghost.src = ite(truthy(resolution), map_put(ghost.src, reskey(resolution), seq_append(map_get(ghost.src, reskey(resolution)), k)), ghost.src)\n"
    "ghost.fidx = ite(isinstance(citation, FullCitation), seq_append(ghost.fidx, k), ghost.fidx)")
