#!/venv/bin/python
"""Bounded stand-in driver for the extraction-side properties.

    /venv/bin/python /verif/props/run.py <ID> --seed S --n N [--focus F] [--budget-s T]
                     [--no-corpus | --only-corpus] [--tokenizers aho,ref,hs|all] [--all-violations]

Prints progress (if any) first and ONE JSON object on the last stdout line:
  {"property", "evaluations", "distinct", "violations" (first <=10), "violation_counts",
   "bound", "seed", ...}.  Exit status is always 0.
Ids not handled here are dispatched to props/run_b.py (same CLI) when that file exists.
"""
import argparse
import json
import os
import sys
import time

HERE = os.path.dirname(os.path.abspath(__file__))
if HERE not in sys.path:
    sys.path.insert(0, HERE)

MINE = ("C02", "C03", "C04", "C12", "C17", "C18", "C19")


def _dispatch_other(argv, script):
    other = os.path.join(HERE, script)
    if os.path.exists(other):
        sys.stdout.flush()
        os.execv(sys.executable, [sys.executable, other] + list(argv))
    return False


def case_key(case):
    return ("m", case["markup"], tuple(case.get("steps") or ())) if "markup" in case else ("t", case["text"])


def run_property(pid, seed, n, focus=None, budget_s=None, corpus=True, only_corpus=False, tokenizers=None, extra_cases=(), stop_on_first=False, keep=10):
    """Run the checker of `pid` over corpus + extra_cases + n generated cases.  Returns the report dict."""
    t0 = time.time()
    import checkers
    import gen

    check = checkers.CHECKERS[pid]
    kind = checkers.CASE_KIND[pid]
    if tokenizers in (None, "", "default"):
        toks = checkers.DEFAULT_TOKENIZERS[pid]
    elif tokenizers == "all":
        toks = checkers.TOKENIZER_NAMES
    else:
        toks = tuple(t for t in (tokenizers.split(",") if isinstance(tokenizers, str) else tokenizers) if t)
    # build slow tokenizers up front so that the budget is spent on evaluations
    for t in toks:
        checkers.get_tokenizer(t)
    setup_s = time.time() - t0

    def stream():
        if kind == "markup":
            yield from gen.documents(seed, 0 if only_corpus else n, focus, markup=True, corpus=corpus, extra=[e for e in extra_cases if "markup" in e] + [_as_markup(e) for e in extra_cases if "text" in e])
        elif kind == "plain":
            yield from gen.documents(seed, 0 if only_corpus else n, focus, markup=False, corpus=corpus, extra=[e for e in extra_cases if "text" in e])
        else:  # both: every 5th generated case is a markup document
            if corpus:
                yield from gen.corpus_cases(False)
                yield from gen.corpus_cases(True)
            yield from extra_cases
            if only_corpus:
                return
            n_m = n // 5
            plain = gen.documents(seed, n - n_m, focus, markup=False, corpus=False)
            mark = gen.documents(seed, n_m, focus, markup=True, corpus=False)
            k = 0
            for c in plain:
                yield c
                k += 1
                if k % 4 == 0:
                    m = next(mark, None)
                    if m is not None:
                        yield m
            yield from mark

    evaluations = 0
    seen = set()
    violations = []
    counts = {}
    by_origin = {}
    sizes = []
    checker_errors = []
    truncated = False
    for case in stream():
        if budget_s is not None and time.time() - t0 > budget_s:
            truncated = True
            break
        key = case_key(case)
        if key in seen:
            continue  # identical input: nothing new to learn (checkers are deterministic)
        seen.add(key)
        evaluations += 1
        sizes.append(len(key[1]))
        try:
            vs = check(case, tokenizers=toks)
        except Exception as e:  # a bug in the checker itself must never look like a clean run
            checker_errors.append({"input": key[1][:300], "error": f"{type(e).__name__}: {e}"})
            continue
        origin = case.get("origin", "?")
        for v in vs:
            v["detail"]["_origin"] = origin
            counts[v["clause"]] = counts.get(v["clause"], 0) + 1
            o = "corpus" if origin.startswith("corpus") else ("values" if origin.startswith("values") else "generated")
            by_origin.setdefault(v["clause"], {}).setdefault(o, 0)
            by_origin[v["clause"]][o] += 1
            if len(violations) < keep and sum(1 for w in violations if w["clause"] == v["clause"]) < max(2, keep // 3):
                violations.append(v)
        if vs and stop_on_first:
            break
    if len(violations) < keep:
        pass
    sizes.sort()
    bound = (
        f"{evaluations} distinct inputs sampled (not enumerated): "
        f"{'regression corpus of DESIGN section 7 + ' if corpus else ''}"
        f"{0 if only_corpus else n} seeded grammar documents"
        f"{' (1 in 5 marked up)' if kind == 'both' else (' (marked-up, cleaned with html[+whitespace] steps)' if kind == 'markup' else '')}"
        f", focus={focus or 'default mix'}, length min/median/max = "
        f"{sizes[0] if sizes else 0}/{sizes[len(sizes) // 2] if sizes else 0}/{sizes[-1] if sizes else 0} chars, "
        f"tokenizers={','.join(toks)}"
        f"{'; stopped early by --budget-s' if truncated else ''}"
    )
    return {
        "property": pid,
        "evaluations": evaluations,
        "distinct": len(seen),
        "violations": violations[:keep],
        "violation_counts": counts,
        "violation_origins": by_origin,
        "bound": bound,
        "seed": seed,
        "focus": focus,
        "truncated": truncated,
        "skipped": dict(checkers.STATS),
        "checker_errors": checker_errors[:5],
        "eyecite": checkers.EYECITE_FILE,
        "wall_s": round(time.time() - t0, 2),
        "setup_s": round(setup_s, 2),
    }


def _as_markup(e):
    t = e["text"].replace("&", "&amp;").replace("<", "&lt;").replace(">", "&gt;")
    return {"markup": f"<p>{t}</p>", "steps": ["html", "all_whitespace"], "origin": e.get("origin", "?")}


def main(argv=None):
    argv = list(sys.argv[1:] if argv is None else argv)
    ap = argparse.ArgumentParser()
    ap.add_argument("property")
    ap.add_argument("--seed", type=int, default=0)
    ap.add_argument("--n", type=int, default=300)
    ap.add_argument("--focus", default=None)
    ap.add_argument("--budget-s", type=float, default=None)
    ap.add_argument("--no-corpus", action="store_true", help="random generation only (no DESIGN section 7 witnesses)")
    ap.add_argument("--only-corpus", action="store_true", help="regression corpus only")
    ap.add_argument("--tokenizers", default=None, help="comma list of aho,ref,hs or 'all' (default: per property)")
    ap.add_argument("--keep", type=int, default=10)
    try:
        args = ap.parse_args(argv)
    except SystemExit:
        print(json.dumps({"property": None, "error": "bad arguments", "argv": argv, "evaluations": 0, "distinct": 0, "violations": [], "violation_counts": {}, "bound": "none", "seed": None}))
        return 0
    pid = args.property.upper()
    if pid not in MINE:
        _dispatch_other(argv, "run_b.py")
        print(json.dumps({"property": pid, "error": "unknown property id and no props/run_b.py", "evaluations": 0, "distinct": 0, "violations": [], "violation_counts": {}, "bound": "none", "seed": args.seed}))
        return 0
    try:
        rep = run_property(pid, args.seed, args.n, focus=args.focus, budget_s=args.budget_s, corpus=not args.no_corpus, only_corpus=args.only_corpus, tokenizers=args.tokenizers, keep=args.keep)
    except Exception as e:
        import traceback

        rep = {"property": pid, "error": f"{type(e).__name__}: {e}", "traceback": traceback.format_exc()[-2000:], "evaluations": 0, "distinct": 0, "violations": [], "violation_counts": {}, "bound": "none", "seed": args.seed}
    sys.stdout.flush()
    print(json.dumps(rep))
    return 0


if __name__ == "__main__":
    main()
    sys.exit(0)
