#!/venv/bin/python
"""Bounded stand-in driver for the extraction-side properties.

    /venv/bin/python /verif/props/run.py <ID> --seed S --n N [--focus F] [--budget-s T]
                     [--no-corpus | --only-corpus] [--tokenizers aho,ref,hs|all] [--keep K] [--jobs J]

Prints ONE JSON object on the last stdout line:
  {"property", "evaluations", "distinct", "violations" (first <=K, default 10, at most K/3 per clause),
   "violation_counts" {clause: n}, "bound", "seed",
   + "violation_subcounts" (clause:exception / clause:field), "violation_origins" (corpus / generated / values),
     "coverage" (citations of each kind the clauses were evaluated on, skipped inputs), "truncated",
     "checker_errors" (exceptions inside a checker: never silently a clean run), "eyecite" (module under test),
     "hashseed", "jobs", "wall_s"}.
Exit status is always 0.  Ids not handled here are dispatched to props/run_b.py (same CLI) when that file exists.

Inputs: the regression corpus (every witness text of DESIGN section 7; --no-corpus drops it, --only-corpus keeps
only it) followed by --n documents of gen.py for (--seed, --focus).  --focus takes a function qualified name
("helpers.add_defendant", "eyecite.helpers.add_defendant") or an obligation name ("helpers.add_defendant/post:x");
see gen.FOCUS; an unknown focus means the default mix.  C04 and C12 run all three shipped tokenizers and fork
--jobs workers (default 6) after building them; the other properties use the default tokenizer unless --tokenizers.
EYECITE_REPO=<dir containing eyecite/> selects the code under test.  PYTHONHASHSEED is pinned to the seed.
"""
import argparse
import json
import os
import sys
import time

HERE = os.path.dirname(os.path.abspath(__file__))
if HERE not in sys.path:
    sys.path.insert(0, HERE)

MINE = ("C02", "C03", "C04", "C12", "C17", "C18", "C19")


def _dispatch_other(argv, script):
    other = os.path.join(HERE, script)
    if os.path.exists(other):
        sys.stdout.flush()
        os.execv(sys.executable, [sys.executable, other] + list(argv))
    return False


def case_key(case):
    return ("m", case["markup"], tuple(case.get("steps") or ())) if "markup" in case else ("t", case["text"])


DEFAULT_JOBS = {"C04": 6, "C12": 6}  # the two properties that run the slow reference tokenizer
_WORK = None


def _work(ic):
    """Evaluate one case (possibly in a forked worker).  Returns (index, violations|None, error|None, stats delta)."""
    import checkers

    idx, case = ic
    check, toks, deadline = _WORK
    if deadline is not None and time.time() > deadline:
        return idx, None, None, None
    before = dict(checkers.STATS)
    try:
        vs = check(case, tokenizers=toks)
        err = None
    except Exception as e:
        vs, err = None, f"{type(e).__name__}: {e}"
    delta = {k: v - before.get(k, 0) for k, v in checkers.STATS.items() if v != before.get(k, 0)}
    return idx, vs, err, delta


def run_property(pid, seed, n, focus=None, budget_s=None, corpus=True, only_corpus=False, tokenizers=None, extra_cases=(), keep=10, jobs=None):
    """Run the checker of `pid` over corpus + extra_cases + n generated cases.  Returns the report dict."""
    t0 = time.time()
    import checkers
    import gen

    check = checkers.CHECKERS[pid]
    kind = checkers.CASE_KIND[pid]
    if tokenizers in (None, "", "default"):
        toks = checkers.DEFAULT_TOKENIZERS[pid]
    elif tokenizers == "all":
        toks = checkers.TOKENIZER_NAMES
    else:
        toks = tuple(t for t in (tokenizers.split(",") if isinstance(tokenizers, str) else tokenizers) if t)
    # build slow tokenizers up front so that the budget is spent on evaluations
    for t in toks:
        checkers.get_tokenizer(t)
    setup_s = time.time() - t0
    if pid == "C18" and not only_corpus:
        # exhaustive part of the domain: every ambiguous reporter string of reporters-db x every first/last year (+-1) of its candidate editions
        extra_cases = list(extra_cases) + [{"text": f"Smith v. Jones, 1 {rep} 1 ({y})", "origin": "exhaustive:edition-boundary"} for rep, y in gen.edition_boundaries()]

    def stream():
        if kind == "markup":
            yield from gen.documents(seed, 0 if only_corpus else n, focus, markup=True, corpus=corpus, extra=[e for e in extra_cases if "markup" in e] + [_as_markup(e) for e in extra_cases if "text" in e])
        elif kind == "plain":
            yield from gen.documents(seed, 0 if only_corpus else n, focus, markup=False, corpus=corpus, extra=[e for e in extra_cases if "text" in e])
        else:  # both: every 5th generated case is a markup document
            if corpus:
                yield from gen.corpus_cases(False)
                yield from gen.corpus_cases(True)
            yield from extra_cases
            if only_corpus:
                return
            n_m = n // 5
            plain = gen.documents(seed, n - n_m, focus, markup=False, corpus=False)
            mark = gen.documents(seed, n_m, focus, markup=True, corpus=False)
            k = 0
            for c in plain:
                yield c
                k += 1
                if k % 4 == 0:
                    m = next(mark, None)
                    if m is not None:
                        yield m
            yield from mark

    # materialise the (deterministic) case list, dropping identical inputs
    seen = set()
    cases = []
    for case in stream():
        key = case_key(case)
        if key in seen:
            continue  # identical input: nothing new to learn (checkers are deterministic)
        seen.add(key)
        cases.append(case)
    deadline = None if budget_s is None else t0 + budget_s
    if jobs is None:
        jobs = DEFAULT_JOBS.get(pid, 1)
    jobs = max(1, min(int(jobs), (len(cases) + 7) // 8))
    global _WORK
    _WORK = (check, toks, deadline)
    if jobs > 1:
        import multiprocessing as mp

        # fork AFTER the tokenizers were built: the workers inherit the compiled regexes / Hyperscan DB
        with mp.get_context("fork").Pool(jobs) as pool:
            results = pool.map(_work, list(enumerate(cases)), chunksize=4)
    else:
        results = [_work(ic) for ic in enumerate(cases)]

    evaluations = 0
    violations = []
    counts = {}
    subcounts = {}
    by_origin = {}
    sizes = []
    checker_errors = []
    truncated = False
    stats = dict(checkers.STATS) if jobs == 1 else {}
    for (idx, vs, err, st), case in zip(results, cases):
        if vs is None and err is None:
            truncated = True
            continue
        key = case_key(case)
        evaluations += 1
        sizes.append(len(key[1]))
        if jobs > 1:
            for k, v in (st or {}).items():
                stats[k] = stats.get(k, 0) + v
        if err is not None:  # a bug in the checker itself must never look like a clean run
            checker_errors.append({"input": key[1][:300], "error": err})
            continue
        origin = case.get("origin", "?")
        for v in vs:
            v["detail"]["_origin"] = origin
            counts[v["clause"]] = counts.get(v["clause"], 0) + 1
            sub = v["detail"].get("exception") or v["detail"].get("field") or v["detail"].get("reason") or v["detail"].get("stage")
            if sub:
                sk = f"{v['clause']}:{sub}"
                subcounts[sk] = subcounts.get(sk, 0) + 1
            o = "corpus" if origin.startswith("corpus") else ("values" if origin.startswith("values") else "generated")
            by_origin.setdefault(v["clause"], {}).setdefault(o, 0)
            by_origin[v["clause"]][o] += 1
            if len(violations) < keep and sum(1 for w in violations if w["clause"] == v["clause"]) < max(2, keep // 3):
                violations.append(v)
    sizes.sort()
    bound = (
        f"{evaluations} distinct inputs sampled (not enumerated): "
        f"{'regression corpus of DESIGN section 7 + ' if corpus else ''}"
        f"{0 if only_corpus else n} seeded grammar documents"
        f"{' (1 in 5 marked up)' if kind == 'both' else (' (marked-up, cleaned with html[+whitespace] steps)' if kind == 'markup' else '')}"
        f", focus={focus or 'default mix'}, length min/median/max = "
        f"{sizes[0] if sizes else 0}/{sizes[len(sizes) // 2] if sizes else 0}/{sizes[-1] if sizes else 0} chars, "
        f"tokenizers={','.join(toks)}"
        f"{'; stopped early by --budget-s' if truncated else ''}"
    )
    return {
        "property": pid,
        "evaluations": evaluations,
        "distinct": len(seen),
        "violations": violations[:keep],
        "violation_counts": counts,
        "violation_subcounts": subcounts,
        "violation_origins": by_origin,
        "bound": bound,
        "seed": seed,
        "focus": focus,
        "truncated": truncated,
        "coverage": {k: stats[k] for k in sorted(stats)},
        "jobs": jobs,
        "checker_errors": checker_errors[:5],
        "eyecite": checkers.EYECITE_FILE,
        "hashseed": os.environ.get("PYTHONHASHSEED"),
        "wall_s": round(time.time() - t0, 2),
        "setup_s": round(setup_s, 2),
    }


def _as_markup(e):
    t = e["text"].replace("&", "&amp;").replace("<", "&lt;").replace(">", "&gt;")
    return {"markup": f"<p>{t}</p>", "steps": ["html", "all_whitespace"], "origin": e.get("origin", "?")}


def main(argv=None):
    argv = list(sys.argv[1:] if argv is None else argv)
    ap = argparse.ArgumentParser()
    ap.add_argument("property")
    ap.add_argument("--seed", type=int, default=0)
    ap.add_argument("--n", type=int, default=300)
    ap.add_argument("--focus", default=None)
    ap.add_argument("--budget-s", type=float, default=None)
    ap.add_argument("--no-corpus", action="store_true", help="random generation only (no DESIGN section 7 witnesses)")
    ap.add_argument("--only-corpus", action="store_true", help="regression corpus only")
    ap.add_argument("--tokenizers", default=None, help="comma list of aho,ref,hs or 'all' (default: per property)")
    ap.add_argument("--keep", type=int, default=10)
    ap.add_argument("--jobs", type=int, default=None, help="worker processes (default 4 for C04/C12, else 1)")
    try:
        args = ap.parse_args(argv)
    except SystemExit:
        print(json.dumps({"property": None, "error": "bad arguments", "argv": argv, "evaluations": 0, "distinct": 0, "violations": [], "violation_counts": {}, "bound": "none", "seed": None}))
        return 0
    pid = args.property.upper()
    if pid not in MINE:
        _dispatch_other(argv, "run_b.py")
        print(json.dumps({"property": pid, "error": "unknown property id and no props/run_b.py", "evaluations": 0, "distinct": 0, "violations": [], "violation_counts": {}, "bound": "none", "seed": args.seed}))
        return 0
    # eyecite's own output depends on the string-hash seed (AhocorasickTokenizer.get_extractors returns a
    # set, so same-span candidates such as a full and a short reading of "2 T.C. at 82103" are ordered by
    # hash).  Pin it to the run seed so that a run is reproducible and different seeds see different orders.
    if os.environ.get("PYTHONHASHSEED") is None:
        env = dict(os.environ, PYTHONHASHSEED=str(args.seed % 4294967296))
        sys.stdout.flush()
        os.execve(sys.executable, [sys.executable, os.path.abspath(__file__)] + argv, env)
    try:
        rep = run_property(pid, args.seed, args.n, focus=args.focus, budget_s=args.budget_s, corpus=not args.no_corpus, only_corpus=args.only_corpus, tokenizers=args.tokenizers, keep=args.keep, jobs=args.jobs)
    except Exception as e:
        import traceback

        rep = {"property": pid, "error": f"{type(e).__name__}: {e}", "traceback": traceback.format_exc()[-2000:], "evaluations": 0, "distinct": 0, "violations": [], "violation_counts": {}, "bound": "none", "seed": args.seed}
    sys.stdout.flush()
    print(json.dumps(rep))
    return 0


if __name__ == "__main__":
    main()
    sys.exit(0)
