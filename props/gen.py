"""Seeded generators of citation-dense adversarial text for the bounded stand-ins / replays.

Everything here is a pure function of a ``random.Random`` (or of an int seed): no global RNG,
no hash-order dependence (all tables are lists / sorted), so ``documents(seed, n, ...)`` yields
the same sequence for the same arguments (the only time-dependent values are the "this year"
boundary years, which is intended: they straddle the library's accepted range).

Party names are emitted between two private-use marker characters (``NB``/``NE``).  The plain
generator strips the markers; the markup generator turns them into ``<i>``/``<em>`` tags, so the
same grammar feeds the plain-text properties and C19.

Public API
    REGRESSION                       fixed witness texts of DESIGN section 7 ("regression corpus")
    FAMILIES                         name -> function(rng) -> marked text
    FOCUS                            focus (function qualified name) -> [(family, weight)]
    focus_families(focus)            resolve a --focus string / obligation name to a weight table
    gen_plain(rng, focus)            one plain-text document        -> (text, family names)
    gen_markup(rng, focus)           one markup document            -> (markup, family names)
    documents(seed, n, focus, markup, corpus) iterator of cases {"text"| "markup", "origin"}
    value_seeded_texts(values)       templates instantiated from solver-model values
"""
import datetime
import os
import random
import sys

NB, NE = "\ue000", "\ue001"  # party-name markers (private use area, never produced otherwise)

THIS_YEAR = datetime.date.today().year


def P(name):
    return NB + name + NE


def strip_marks(s):
    return s.replace(NB, "").replace(NE, "")


# --------------------------------------------------------------------------------------------
# regression corpus: every witness *text* of DESIGN section 7
# (rows 10 and 12 are API-level witnesses -- an annotation tuple and a custom extractor list --
# and have no text form; the plain text of row 10 is included for completeness)
# --------------------------------------------------------------------------------------------
REGRESSION = [
    {"row": 1, "text": "Foo, 515 U.S. at 241 foo"},
    {"row": 2, "text": "x\tv. Bar, 1 U.S. 1"},
    {"row": 2, "text": "\nv. Bar, 1 U.S. 1"},
    {"row": 3, "text": "Foo( v. Bar, 1 U.S. 1"},
    {"row": 4, "text": "eyecite"},
    {"row": 4, "markup": "<p>eyecite</p>"},
    {"row": 5, "text": "A v. B, 550 U.S. at 556, 127 S.Ct. 1955"},
    {"row": 6, "text": "1 Minn. L. Rev. ___. Id. at 5."},
    {"row": 7, "text": "1 U.S. " + "1" * 5000 + ". Id. at 5."},
    {"row": 8, "text": "42 U.S.C. § 1983"},
    {"row": 8, "text": "42 U.S.C. § 1983"},
    {"row": 9, "text": "Id. at 3; id. at 5"},
    {"row": 9, "markup": "<i>Id. at 3; id.</i> at 5"},
    {"row": 10, "text": "ab"},
    {"row": 10, "markup": "a<i>b"},
    {"row": 11, "text": "Shapiro v. Thompson, 394 U. S. 618"},
    {"row": 13, "text": "Foo, ſupra, at 5"},
    {"row": 13, "text": "İd. at 5"},
    {"row": 13, "text": "ıd. at 5"},
    {"row": 13, "text": "See ıd. at 5"},
    {"row": 13, "text": "ſee Foo, 1 U.S. 1"},
    {"row": 13, "text": "Foo, cert. denıed"},
    {"row": 14, "text": "1 U.S. 1 (1999). … 2 F.2d 2 (2005)"},
    {"row": 14, "text": "1 U.S. 1 (1999). and 2 F.2d 2 (2005)"},
    {"row": 15, "text": "Foo v. Bar (2100) 1 U.S. 1"},
    # found by this layer (not in DESIGN section 7): two-step merge loses a supra citation whose span equals an
    # added reference's span (C03 keeps_non_references); extraction depends on PYTHONHASHSEED (full vs short)
    {"row": 0, "text": "Bell v. Supra, 1 U.S. 1 (1999). See Supra at 5."},
    {"row": 0, "text": "Bell v Brown, 2 T.C. at 82103, 7 S. Ct. 352"},
    # witnesses quoted in properties.jsonl / DESIGN section 6 that are not table rows
    {"row": 0, "text": "A v. B, 1 U.S. 1, 2 S. Ct. 2 (1999). Foo v. Bar, 3 F.3d 3 (2d Cir. 2000); Id. at 5."},
    {"row": 0, "markup": "<p><i>Foo</i> v. <i>Bar,</i> 1 U.S. 1 (1999). In <i>Foo</i>, the court held. Foo at 12.</p>"},
    # C19-1 (fixed): the diff aligned the italic name with attribute characters; the reference came back with an empty span
    {"row": 0, "markup": "<div class=\"opinion\" data-page=\"101\" id=\"b101-5\"><p class=\"opinion\" data-page=\"101\" id=\"b101-5\">Bell Atlantic Corp.</p>\n<p>v.</p>\n"
                         "<p class=\"opinion\" data-page=\"101\" id=\"b101-5\"><em>\nFoo,</em> 380 A.3d 497, n.3 (0000).</p>\n"
                         "<p class=\"opinion\" data-page=\"101\" id=\"b101-5\"><i>\nFoo</i>, 758 Johns.Rep., 4.\u00a0</p></div>"},
]

# --------------------------------------------------------------------------------------------
# vocabulary
# --------------------------------------------------------------------------------------------
NOMINATIVE = ["Thompson", "Cooke", "Holmes", "Olcott", "Chase", "Gilmer", "Bee", "Deady", "Taney"]
PARTIES = [
    "Foo", "Bar", "Smith", "Jones", "Roe", "Wade", "Adarand", "Peña", "Brown", "Doe",
    "Board of Education", "United States", "State", "People", "O'Brien", "McDonald", "Nobelman",
    "Johnson", "A", "B", "X Corp.", "Acme, Inc.", "Lissner", "De la Cruz", "MARBURY", "Madison",
    "Twombly", "Iqbal", "Bell Atlantic Corp.", "Co.", "Inc.", "U.S.", "1st Bank", "éclair",
    "Shapiro", "Miranda", "Arizona", "Supra", "Idaho", "Lee", "Ng", "St. Paul Fire & Marine Ins. Co.",
    # names with characters that are special to regexes, format strings and templates
    "Jones {Bar", "Doe{", "Smith} Co", "A(B", "C[D", "E\\F", "G*H", "Roe+Co", "Q?", "Bar^2", "$mith", "Foo|Bar", "{0}", "%s Ltd",
]
COMMON_REPORTERS = [
    "U.S.", "U. S.", "S. Ct.", "S.Ct.", "L. Ed. 2d", "L.Ed.2d", "F.", "F.2d", "F.3d", "F.4th",
    "F. Supp.", "F. Supp. 2d", "F.Supp.3d", "Cal.", "Cal. 2d", "Cal.App.4th", "Cal. Rptr. 3d",
    "N.Y.", "N.Y.2d", "N.Y.S.2d", "A.2d", "A.3d", "N.E.2d", "N.W.2d", "P.2d", "P.3d", "S.E.2d",
    "S.W.3d", "So. 2d", "Mass.", "Wash.", "Wash. 2d", "Ill.", "Ill. 2d", "Pa.", "Tex.",
    "Ohio St. 3d", "WL", "Mich.", "Minn.", "Wheat.", "Cranch", "Dall.", "How.", "Wall.", "Pet.",
    "B.R.", "T.C.", "Fed. Cl.", "F. App'x", "U.S.P.Q.2d",
]
# reporter strings whose candidate edition list has several entries (decided only by a year)
AMBIGUOUS_REPORTERS = [
    "H.", "Mon.", "Marsh.", "Hill", "Col.", "Johnson", "Bailey", "Hayw.", "Hard.", "Harr.",
    "Ct. Cl.", "Dall.", "Cranch", "Wash.", "Hill Rep.", "How. Rep.", "Mon. Rep.", "H. Rep.",
    "Dudl.", "Harper", "Gildr.", "Ired. Rep.", "Johns.Rep.", "Hun", "Ind. L. Rep.", "Ark.", "B.R.",
]
NOMINATIVE_CITES = [
    "5 U.S. (1 Cranch) 137", "17 U.S. (4 Wheat.) 316", "1 Thompson 2", "2 Cooke 33", "3 Holmes 4",
    "1 Bee 2", "4 Deady 5", "6 Taney 7", "1 Chase 1", "2 Gilmer 3", "1 Olcott 9",
    "60 U.S. (19 How.) 393", "1 Cranch 137",
]
JOURNALS = [
    "Minn. L. Rev.", "Harv. L. Rev.", "Yale L.J.", "Colum. L. Rev.", "Stan. L. Rev.", "Geo. L.J.",
    "Mich. L. Rev.", "U. Chi. L. Rev.", "Tex. L. Rev.",
]
LAWS = [
    "42 U.S.C. § 1983", "18 U.S.C. §§ 4241-4243", "29 C.F.R. § 1910.1200",
    "Mass. Gen. Laws ch. 1, § 2", "Cal. Penal Code § 187", "Tex. Fam. Code Ann. § 1.01",
    "N.Y. Penal Law § 125.25", "Fla. Stat. § 90.803", "Pub. L. No. 111-148",
    "124 Stat. 119", "75 Fed. Reg. 1234", "Ariz. Rev. Stat. Ann. § 13-101",
    "15 U.S.C. § 78j(b)", "26 U.S.C. § 501(c)(3)", "§ 1983", "§§ 1-2",
]
LAW_POST = [
    "", "(a)", "(a)(1)", "(a)(2) and (d)", " et seq.", " (West 1999)", " (1999)", "(b) (West Supp. 2010)",
    " (Lexis Jun. 2018)", " (May 2, 1999)", " (West 1999) (repealed 2001)", "(viii) (2012) (defining x)",
    " (Deering 2100)", " (0000)",
]
COURTS = ["", "", "2d Cir. ", "9th Cir. ", "D. Mass. ", "Cal. Ct. App. ", "S.D.N.Y. ", "Tex. App. ", "Fed. Cir. "]
PINS = [
    "", "", "", ", 5", ", 5-6", ", at 5", ", 5, 7-8", ", 123:24-25", ", n.3", ", 5 n.3", ", ¶ 12",
    ", at *3", ", p. 5", ",5", ", 241-42 & n.4", ", at 5, 10-12, 15",
]
PARENS = [
    "", "", "", " (holding that x)", " (en banc)", " (quoting Baz v. Qux, 2 U.S. 2 (1800))",
    " (Scalia, J., dissenting) (citing id.)", " (nested (deeply (very)) here)", " (unbalanced (paren",
    " (1999)", " ) stray", " (per curiam) (mem.)", " (\"quoted\")", " [bracketed]", " (emphasis added)",
]
SIGNALS = [
    "", "", "See ", "See also ", "Cf. ", "But see ", "see, e.g., ", "citing ", "quoting ", "In ", "Accord ",
    "Compare ", "cert. denied, ", "aff'd, ", "rev'd, ", "E.g., ",
]
FILLER = [
    "the", "court", "held", "that", "this", "is", "a", "matter", "of", "law", "and", "foo", "bar", "Then",
    "However,", "plaintiff", "argues", "eyecite", "(emphasis added)", "we", "agree.", "Section", "at",
    "note", "id", "supra", "v", "re", "page", "5", "12", "1999", "___", "No.", "U.S.", "at 5",
]
HOSTILE = [
    " ", " ", " ", "　", "​", "﻿", " ", "\x00", "\x0b", "\x0c", "\r",
    "\t", "\n", "\n\n", "[", "]", "(", ")", "((", "))", "{", "}", "<", ">", "&", "§", "§§",
    "¶", "١٢٣", "１２", "²", "Ⅷ", "ſ", "İ", "ı",
    "\U0001f600", "\U00010000", "\u0301", "_", "___", "-", "—", "–",
    "’", "“", "”", "\\", "*", "**", ";", ";;", ",", ",,", "..", ":", "§foo", "foo§",
    "§1983", "v.", " v. ", "\tv.", "\nv. ", "supra", "Id.", "id.,", "ibid.", " at ", "at 5", "¶5",
]
SEPARATORS = [" ", " ", " ", "; ", ". ", ", ", "\n", "  ", "", "\t", " ", ".\n", " and ", "; see also "]
DIGIT_RUNS = [5, 6, 9, 20, 100, 1000, 4299, 4300, 4301, 5000]  # int() refuses more than 4300 digits


def digit_run_len(rng):
    """half of the runs sit at / above the int() limit, the rest are short"""
    return rng.choice([4300, 4301, 5000]) if rng.random() < 0.5 else rng.choice(DIGIT_RUNS[:7])


def boundary_years():
    return [
        "1599", "1600", "1601", "0000", "0999", "1750", "1754", "1790", "1806", "1807", "1815", "1841",
        "1880", "1881", str(THIS_YEAR - 1), str(THIS_YEAR), str(THIS_YEAR + 1), str(THIS_YEAR + 2),
        "2100", "9999", "1993-94", "2005-06", "19999", "199",
    ]


_DB_REPORTERS = None


def db_reporters():
    """Every reporter / variation / journal string of reporters_db, sorted (deterministic)."""
    global _DB_REPORTERS
    if _DB_REPORTERS is None:
        out = set()
        try:
            from reporters_db import JOURNALS as J
            from reporters_db import REPORTERS as R

            for _, entries in sorted(R.items()):
                for entry in entries:
                    out.update(entry.get("editions", {}).keys())
                    out.update(entry.get("variations", {}).keys())
            for _, entries in sorted(J.items()):
                for entry in entries:
                    out.update(entry.get("variations", {}).keys())
            out.update(J.keys())
        except Exception:  # reporters_db missing: fall back to the static lists
            pass
        _DB_REPORTERS = sorted(s for s in out if isinstance(s, str) and 0 < len(s) < 40)
        if not _DB_REPORTERS:
            _DB_REPORTERS = sorted(set(COMMON_REPORTERS + AMBIGUOUS_REPORTERS))
    return _DB_REPORTERS


# --------------------------------------------------------------------------------------------
# grammar fragments
# --------------------------------------------------------------------------------------------
def year(rng):
    r = rng.random()
    if r < 0.35:
        return rng.choice(boundary_years())
    if r < 0.5:
        return str(rng.randint(1590, 1610))
    if r < 0.65:
        return str(rng.randint(THIS_YEAR - 2, THIS_YEAR + 3))
    return str(rng.randint(1750, 2030))


def num(rng, hi=999):
    r = rng.random()
    if r < 0.6:
        return str(rng.randint(1, hi))
    if r < 0.8:
        return str(rng.randint(1, 9))
    if r < 0.9:
        return str(rng.randint(1000, 99999))
    return rng.choice(["0", "00", "007", "1", "123456789"])


def page(rng):
    r = rng.random()
    if r < 0.8:
        return num(rng)
    if r < 0.9:
        return rng.choice(["___", "_", "____", "__"])
    return rng.choice(["xii", "iv", "lxxx", "cxcix", "v", "1a", "1[U]"])


def reporter(rng):
    r = rng.random()
    if r < 0.55:
        return rng.choice(COMMON_REPORTERS)
    if r < 0.75:
        return rng.choice(AMBIGUOUS_REPORTERS)
    return rng.choice(db_reporters())


def party(rng):
    r = rng.random()
    if r < 0.08:
        return rng.choice(NOMINATIVE)
    return rng.choice(PARTIES)


def core(rng):
    """volume reporter page"""
    if rng.random() < 0.06:
        return rng.choice(NOMINATIVE_CITES)
    sep = rng.choice([" ", " ", " ", " ", ", "])
    return f"{num(rng)} {reporter(rng)}{sep}{page(rng)}"


def year_paren(rng):
    r = rng.random()
    if r < 0.2:
        return ""
    y = year(rng)
    c = rng.choice(COURTS)
    if r < 0.9:
        return f" ({c}{y})"
    return f" [{c}{y}]"


def names(rng):
    """'P v. D' with markers; occasionally other stop words."""
    r = rng.random()
    if r < 0.7:
        return f"{P(party(rng))} v. {P(party(rng))}"
    if r < 0.8:
        return f"In re {P(party(rng))}"
    if r < 0.86:
        return f"Ex parte {P(party(rng))}"
    if r < 0.92:
        return f"{P(party(rng))} vs. {P(party(rng))}"
    return f"{P(party(rng))} v {P(party(rng))}"


def f_full(rng):
    return f"{rng.choice(SIGNALS)}{names(rng)}, {core(rng)}{rng.choice(PINS)}{year_paren(rng)}{rng.choice(PARENS)}"


def f_bare(rng):
    return f"{core(rng)}{rng.choice(PINS)}{year_paren(rng)}{rng.choice(PARENS)}"


def f_parallel(rng):
    k = rng.choice([2, 2, 3])
    cites = ", ".join(core(rng) + rng.choice(PINS[:6]) for _ in range(k))
    return f"{rng.choice(SIGNALS)}{names(rng)}, {cites}{year_paren(rng)}{rng.choice(PARENS)}"


def f_nameless_run(rng):
    """consecutive full citations that lack a case name (DESIGN row 14)"""
    k = rng.choice([2, 2, 3])
    glue = [". ", ". … ", "; ", ". and ", " and ", ", ", ".  ", ".\n", ". see "]
    out = f_bare_year(rng)
    for _ in range(k - 1):
        out += rng.choice(glue) + f_bare_year(rng)
    return out


def f_bare_year(rng):
    return f"{core(rng)} ({rng.choice(COURTS)}{year(rng)})"


def f_short(rng):
    ante = rng.choice(["", "", f"{P(party(rng))}, ", f"{P(party(rng))} ", f"{P(party(rng))}, supra, "])
    rep = reporter(rng)
    comma = rng.choice(["", "", ","])
    pg = rng.choice([num(rng), num(rng), "241", "5-6", "5, 7", "*3", "xii", "___"])
    tail = rng.choice(
        ["", "", ".", ",", ";", " foo", " and", " (holding x)", "-45", " n.3", ")", " ¶ 4", " [sic]", " the", "\tfoo", " 2", ":3"]
    )
    return f"{ante}{num(rng)} {rep}{comma} at {pg}{tail}"


def f_short_parallel(rng):
    """short cite followed by a parallel full or short cite (DESIGN row 5)"""
    head = rng.choice([f"{names(rng)}, ", f"{P(party(rng))}, ", ""])
    a = f"{num(rng)} {rng.choice(COMMON_REPORTERS)} at {num(rng)}"
    if rng.random() < 0.5:
        b = core(rng)
    else:
        b = f"{num(rng)} {rng.choice(COMMON_REPORTERS)} at {num(rng)}"
    return f"{head}{a}, {b}{year_paren(rng)}"


def f_supra(rng):
    ante = rng.choice([P(party(rng)), P(party(rng)), "", "note 5", "123", f"{P(party(rng))}, {num(rng)}"])
    mid = rng.choice([", supra", " supra", ", supra,", ", supra.", " supra,", ", \"supra\"", ", (supra)", ", Supra,"])
    tail = rng.choice(["", " at 5", ", at 5-6", " note 3", ", at 5 (dissent)", " foo", ", 12", " at p. 5", ", § 3"])
    return f"{ante}{mid}{tail}"


def f_id(rng):
    head = rng.choice(["Id.", "id.", "Id.,", "Ibid.", "ibid.", "ID.", "(Id.", "Id"])
    tail = rng.choice(
        ["", " at 5", " at 5.", ", at 5-6", " at 5 (explaining)", " at 5, 7", " § 3", " foo", " at *3", " at 12 n.4;", " at", " at xii"]
    )
    return f"{head}{tail}"


def f_law(rng):
    return f"{rng.choice(SIGNALS)}{rng.choice(LAWS)}{rng.choice(LAW_POST)}"


def f_journal(rng):
    pg = page(rng)
    return f"{num(rng)} {rng.choice(JOURNALS)} {pg}{rng.choice(PINS)}{rng.choice(['', '', ' (' + year(rng) + ')'])}{rng.choice(PARENS)}"


def f_placeholder(rng):
    kind = rng.random()
    us = rng.choice(["___", "____", "_", "__"])
    if kind < 0.5:
        return f"{names(rng)}, {num(rng)} {rng.choice(COMMON_REPORTERS)} {us}{year_paren(rng)}"
    if kind < 0.75:
        return f"{num(rng)} {rng.choice(JOURNALS)} {us}"
    return f"{names(rng)}, {num(rng)} {rng.choice(COMMON_REPORTERS)} {us}, {us}{year_paren(rng)}"


def f_cal_year(rng):
    """California style: year before the citation (DESIGN row 15)"""
    y = year(rng)
    br = rng.choice(["()", "()", "()", "[]"])
    sep = rng.choice([" ", " ", ", ", "  "])
    tail = rng.choice(["", "", ", 5", " (holding x)", f" ({year(rng)})", f", {core(rng)}"])
    return f"{names(rng)} {br[0]}{y}{br[1]}{sep}{core(rng)}{tail}"


def f_string_cite(rng):
    k = rng.choice([2, 3, 4])
    parts = [rng.choice([f_full, f_bare, f_short, f_law, f_journal, f_id])(rng) for _ in range(k)]
    return rng.choice(["; ", "; ", ";", " ; ", "; see also "]).join(parts) + "."


def f_nested_paren(rng):
    inner = rng.choice([f_full(rng), f_bare(rng), "internal quotation marks omitted", "(a) and (b)", "1999", "2d Cir. 1999"])
    depth = rng.choice([1, 2, 3])
    s = inner
    for _ in range(depth):
        s = f"{rng.choice(['quoting ', 'citing ', ''])}{s}" if rng.random() < 0.5 else f"x ({s}) y"
    close = rng.choice([")", ")", "))", "", ") ("])
    return f"{names(rng)}, {core(rng)}{rng.choice(PINS)}{year_paren(rng)} ({s}{close}"


def f_nominative_overlap(rng):
    """nominative reporter names used as party names right before a citation (DESIGN row 11)"""
    nom = rng.choice(NOMINATIVE)
    other = rng.choice(PARTIES + NOMINATIVE)
    sep = rng.choice([", ", ", ", " ", ",  "])
    shape = rng.random()
    if shape < 0.6:
        return f"{P(other)} v. {P(nom)}{sep}{core(rng)}{year_paren(rng)}"
    if shape < 0.8:
        return f"{P(nom)} v. {P(other)}, {core(rng)}{year_paren(rng)}"
    return f"{rng.choice(SIGNALS)}{P(nom)}{sep}{num(rng)} {rng.choice(COMMON_REPORTERS)} at {num(rng)}"


def f_odd_v(rng):
    """'v.' preceded by odd whitespace / punctuation / nothing (DESIGN rows 2 and 3)"""
    pre = rng.choice(["x", "Foo", "Foo(", "Foo (", "(Foo", "Foo,", "", "A", "Foo  ", "( ", "Foo((", "X Corp.", "é"])
    ws = rng.choice(["\t", "\n", " ", "  ", " ", "", "\r\n", "\x0b", " \t", "\n\n"])
    v = rng.choice(["v.", "v.", "v.", "v", "V.", "vs.", "(v.)", "v.,"])
    post = rng.choice([" ", " ", "  ", "\t", ""])
    d = rng.choice(["Bar", "Bar", P(party(rng)), "", "(Bar)", "Bar (1999)", "Bar, Inc."])
    return f"{pre}{ws}{v}{post}{d}, {core(rng)}{year_paren(rng)}"


def f_reference(rng):
    """full citation followed by name-based references (pin-cited and markup-style)"""
    p, d = party(rng), party(rng)
    first = f"{P(p)} v. {P(d)}, {core(rng)}{rng.choice(PINS)}{year_paren(rng)}."
    refs = []
    for _ in range(rng.choice([1, 2, 3])):
        nm = rng.choice([p, d, p, d, party(rng)])
        refs.append(
            rng.choice(
                [
                    f"In {P(nm)}, the court held that x.",
                    f"{nm} at {num(rng)}.",
                    f"See {P(nm)} at {num(rng)}; {P(nm)}, supra, at 5.",
                    f"{P(nm)} at ¶ {num(rng)}",
                    f"The {P(nm)} court, {num(rng)} {rng.choice(COMMON_REPORTERS)} at {num(rng)}, agreed.",
                    f"{P(nm)}, {core(rng)}.",
                    f"{P(nm)} at {num(rng)}, {core(rng)}",
                ]
            )
        )
    return first + " " + " ".join(refs)


def f_id_after_odd_page(rng):
    """id. after placeholder / huge pages (DESIGN rows 6 and 7)"""
    r = rng.random()
    if r < 0.4:
        pg = rng.choice(["___", "_", "____"])
    elif r < 0.8:
        pg = rng.choice("123456789") * digit_run_len(rng)
    else:
        pg = rng.choice(["xii", "5", "100", "0"])
    lead = rng.choice(
        [
            f"{num(rng)} {rng.choice(JOURNALS)} {pg}",
            f"{num(rng)} {rng.choice(COMMON_REPORTERS)} {pg}",
            f"{names(rng)}, {num(rng)} {rng.choice(COMMON_REPORTERS)} {pg}",
            f"{rng.choice(LAWS)}",
        ]
    )
    follow = rng.choice(["Id. at 5.", "Id. at 5.", "id. at 1", "Ibid.", "Id., at 99999", f"Id. at {rng.choice('123456789') * rng.choice(DIGIT_RUNS[:6])}", f"Id. at {rng.choice('123456789') * digit_run_len(rng)}."])
    return f"{lead}{rng.choice(['. ', '; ', ' ', '.\n'])}{follow}"


def f_huge_pin(rng):
    """a resolvable full citation with an ordinary page, followed by an id. / short / supra citation whose pin cite is ONE unbroken digit run around
    the scan window (300 characters) and around CPython's int() limit (4300 digits)"""
    n = rng.choice([299, 300, 301, 4299, 4300, 4301, 4400, 5000])
    run = rng.choice("123456789") * n
    lead = rng.choice([f"1 U.S. {num(rng)}.", f"{P(party(rng))} v. {P(party(rng))}, {num(rng)} {rng.choice(COMMON_REPORTERS)} {num(rng)} (1999)."])
    follow = rng.choice([f"Id. at {run}", f"Id. at {run}.", f"Id., at {run}, {run}.", f"1 U.S., at {run}.", f"Foo, supra, at {run}."])
    return f"{lead} {follow}"


def f_long_digits(rng):
    n = rng.choice(DIGIT_RUNS)
    run = rng.choice("0123456789") * n
    where = rng.random()
    if where < 0.3:
        return f"{run} U.S. 1"
    if where < 0.6:
        return f"1 U.S. {run}"
    if where < 0.8:
        return f"Foo v. Bar, 1 U.S. 1, {run} ({run})"
    return f"1 U.S. 1 at {run}; § {run}; Id. at {run}"


def f_filler(rng):
    k = rng.choice([1, 1, 2, 3, 5, 8])
    return " ".join(rng.choice(FILLER) for _ in range(k))


def f_hostile(rng):
    k = rng.choice([1, 2, 3, 5])
    return "".join(rng.choice(HOSTILE + FILLER[:8]) for _ in range(k))


def f_section_glued(rng):
    w = rng.choice(["foo", "1983", "U.S.C.", "", "(a)", "id.", "supra"])
    s = rng.choice(["§", "§§", "§ ", " §"])
    return rng.choice([f"{w}{s}{w}", f"{s}{w}", f"42 U.S.C.{s}1983", f"42 U.S.C. {s} 1983", f"{w}{s}"])


PLAIN_WORDS = ["notwithstanding", "the", "panel", "below", "had", "reasoned", "otherwise", "in", "earlier", "appeal", "and", "as", "explained",
               "thereafter", "when", "parties", "returned", "to", "district", "judge", "for", "further", "proceedings", "on", "remand", "xx", "a", "counsel"]


def f_long_backward(rng):
    """a citation preceded by a run of ordinary words that reaches the 300-character scan limit (MAX_MATCH_CHARS) at
    every alignment, ending in antecedent- / name-like text: the backward window must stay adjacent to the citation"""
    target = rng.choice([250, 280, 290, 295, 299, 300, 301, 305, 310, 320, 340, 400])
    words = []
    n = 0
    while n < target:
        w = rng.choice(PLAIN_WORDS)
        words.append(w)
        n += len(w) + 1
    run = " ".join(words)
    nm = party(rng)
    tail = rng.choice(
        [
            f" {P(nm)}, decided {core(rng)}{year_paren(rng)}.",
            f" {P(nm)}, long ago, {num(rng)} {rng.choice(COMMON_REPORTERS)}, at {num(rng)}.",
            f" {P(nm)}, noted above, supra, at {num(rng)}.",
            f" {P(nm)}, {num(rng)} {rng.choice(COMMON_REPORTERS)}, at {num(rng)}.",
            f" {P(nm)}, supra, at {num(rng)}.",
            f" {P(nm)} v. {P(party(rng))}, {core(rng)}{year_paren(rng)}.",
        ]
    )
    return run[0].upper() + run[1:] + tail


SERIES = [["F.", "F.2d", "F.3d", "F.4th"], ["S.W.", "S.W.2d", "S.W.3d"], ["F. Supp.", "F. Supp. 2d", "F. Supp. 3d"], ["N.E.", "N.E.2d", "N.E.3d"],
          ["Cal.", "Cal. 2d", "Cal. 3d", "Cal. 4th"], ["A.", "A.2d", "A.3d"], ["P.", "P.2d", "P.3d"], ["L. Ed.", "L. Ed. 2d"], ["So.", "So. 2d", "So. 3d"]]


def f_same_vol_page_series(rng):
    """full citations with the SAME volume and page in different series of one reporter family (and once repeated in the same
    series): equal exactly when the series is the same"""
    fam = rng.choice(SERIES)
    v, pg = num(rng), num(rng)
    k = rng.choice([2, 3])
    eds = [rng.choice(fam) for _ in range(k)]
    if rng.random() < 0.7 and len(set(eds)) == 1:
        eds[-1] = rng.choice([x for x in fam if x != eds[0]])
    parts = [f"{P(party(rng))} v. {P(party(rng))}, {v} {ed} {pg}{year_paren(rng)}." for ed in eds]
    tail = rng.choice(["", f" Id. at {num(rng)}.", f" {v} {eds[0]}, at {num(rng)}."])
    return " ".join(parts) + tail


_NOVOL = None


def no_volume_reporters():
    """reporter strings whose short-form extractor has no 'volume' group (nominative reporters, looseleaf services, session laws)"""
    global _NOVOL
    if _NOVOL is None:
        out = []
        try:
            from eyecite.tokenizers import EXTRACTORS
            for e in EXTRACTORS:
                if (getattr(e, "extra", None) or {}).get("short") and "volume" not in e.compiled_regex.groupindex:
                    out += sorted(e.strings)[:2]
        except Exception:
            pass
        _NOVOL = sorted(set(out)) or ["Bee", "Crabbe", "Gilp.", "Blue Sky L. Rep."]
    return _NOVOL


def f_short_no_volume(rng):
    """short form '<reporter>[,] at <page>' of a reporter cited without a volume, with or without a preceding full citation"""
    r = rng.choice(no_volume_reporters())
    pre = rng.choice(["", "", f"{P(party(rng))} v. {P(party(rng))}, {r} {num(rng)}{year_paren(rng)}. ", f"{f_full(rng)} "])
    body = rng.choice([f"relied on {r}, at {num(rng)}, for that proposition.", f"{P(party(rng))}, {r} at {num(rng)}.", f"See {r} at {num(rng)}; id. at {num(rng)}."])
    return pre + body


def f_short_antecedent_elsewhere(rng):
    """a short form with an antecedent guess whose reporter+volume matches no earlier case, or two of them, while the antecedent
    names a party of exactly one OTHER earlier case: must stay unresolved / be resolved only among the reporter+volume candidates"""
    p, d = party(rng), party(rng)
    r1, r2 = rng.sample(["U.S.", "F.2d", "F.3d", "S. Ct.", "N.E.2d", "P.2d"], 2)
    v1, v2 = num(rng, 99), num(rng, 99)
    first = f"{P(p)} v. {P(d)}, {v1} {r1} {num(rng)}."
    if rng.random() < 0.5:
        mid = ""
    else:
        mid = f" {P(party(rng))} v. {P(party(rng))}, {v2} {r2} {num(rng)}. {P(party(rng))} v. {P(party(rng))}, {v2} {r2} {num(rng)}."
    short = f" {P(rng.choice([p, d]))}, {v2} {r2}, at {num(rng)}."
    return first + mid + short


_EDITION_BOUNDARIES = None


def edition_boundaries():
    """(reporter string, year) pairs at the first/last year (+-1) of every candidate edition of reporter strings that have SEVERAL candidate
    editions in reporters-db (the only place where the year decides the edition guess)"""
    global _EDITION_BOUNDARIES
    if _EDITION_BOUNDARIES is None:
        out = []
        try:
            from reporters_db import REPORTERS as R

            by_string = {}
            for _, entries in sorted(R.items()):
                for entry in entries:
                    eds = entry.get("editions", {})
                    for name, ed in eds.items():
                        by_string.setdefault(name, []).append(ed)
                    for var, target in entry.get("variations", {}).items():
                        if target in eds:
                            by_string.setdefault(var, []).append(eds[target])
            for name in sorted(by_string):
                eds = by_string[name]
                if len(eds) < 2 or not (0 < len(name) < 40):
                    continue
                ys = set()
                for ed in eds:
                    for d in (ed.get("start"), ed.get("end")):
                        if d is not None and hasattr(d, "year"):
                            ys.update({d.year - 1, d.year, d.year + 1})
                out += [(name, y) for y in sorted(ys) if 1600 <= y <= THIS_YEAR + 1]
        except Exception:
            pass
        _EDITION_BOUNDARIES = out or [("W.2d", 2023), ("Wash.", 1889)]
    return _EDITION_BOUNDARIES


def f_edition_boundary(rng):
    """an ambiguous reporter string cited with a year at the boundary of one of its candidate editions"""
    rep, y = rng.choice(edition_boundaries())
    return f"{P(party(rng))} v. {P(party(rng))}, {num(rng, 99)} {rep} {num(rng)} ({y})"


def f_repeat_ambiguous(rng):
    """the SAME full citation twice with a reporter string that has several candidate editions and no year: equal citations, one resource"""
    rep = rng.choice(AMBIGUOUS_REPORTERS + [b[0] for b in edition_boundaries()[:40]])
    v, pg = num(rng, 99), num(rng)
    a = f"{P(party(rng))} v. {P(party(rng))}, {v} {rep} {pg}."
    b = rng.choice([f"See {v} {rep} {pg}.", f"{P(party(rng))} v. {P(party(rng))}, {v} {rep} {pg}, {num(rng)}."])
    return f"{a} It was so. {b} Id. at {num(rng)}."


def f_dup_full_later(rng):
    """a bare full citation, a short form / id. that refers to it, and LATER the same citation again with a case name: what was grouped by
    the prefix must stay grouped"""
    rep = rng.choice(["U.S.", "F.2d", "F.3d", "N.E.2d", "P.2d"])
    v, pg = num(rng, 99), num(rng)
    first = rng.choice([f"The rule is settled. {v} {rep} {pg}.", f"{v} {rep} {pg}."])
    mid = rng.choice([f" As stated, {v} {rep}, at {num(rng)}.", f" {v} {rep}, at {num(rng)}. Id. at {num(rng)}."])
    p = party(rng)
    later = f" See also {P(p)} v. {P(party(rng))}, {v} {rep} {pg}, {num(rng)} (1990). {P(p)}, supra, at {num(rng)}."
    return first + mid + later


def f_reference_before(rng):
    """a party name mentioned (italicised in markup mode) BEFORE the full citation as well as after it: only the later
    mention may become a reference citation"""
    p, d = party(rng), party(rng)
    nm = rng.choice([p, d])
    k = rng.choice([0, 3, 8, 15])
    pad = " ".join(rng.choice(PLAIN_WORDS) for _ in range(k))
    before = rng.choice([f"The {P(nm)} court was more pragmatic. {pad}", f"{P(nm)} is instructive here. {pad}", f"As in {P(nm)}, {pad} we agree."])
    first = f"See {P(p)} v. {P(d)}, {core(rng)}{rng.choice(PINS)}{year_paren(rng)}."
    after = rng.choice([f" In {P(nm)}, the court rejected the argument.", "", f" {P(nm)} at {num(rng)}."])
    return f"{before} {first}{after}"


FAMILIES = {
    "long_backward": f_long_backward,
    "same_vol_page_series": f_same_vol_page_series,
    "short_no_volume": f_short_no_volume,
    "huge_pin": f_huge_pin,
    "edition_boundary": f_edition_boundary,
    "repeat_ambiguous": f_repeat_ambiguous,
    "dup_full_later": f_dup_full_later,
    "short_antecedent_elsewhere": f_short_antecedent_elsewhere,
    "reference_before": f_reference_before,
    "full": f_full,
    "bare": f_bare,
    "parallel": f_parallel,
    "nameless_run": f_nameless_run,
    "short": f_short,
    "short_parallel": f_short_parallel,
    "supra": f_supra,
    "id": f_id,
    "law": f_law,
    "journal": f_journal,
    "placeholder": f_placeholder,
    "cal_year": f_cal_year,
    "string_cite": f_string_cite,
    "nested_paren": f_nested_paren,
    "nominative_overlap": f_nominative_overlap,
    "odd_v": f_odd_v,
    "reference": f_reference,
    "id_after_odd_page": f_id_after_odd_page,
    "long_digits": f_long_digits,
    "filler": f_filler,
    "hostile": f_hostile,
    "section_glued": f_section_glued,
}

DEFAULT_MIX = [
    ("full", 14), ("bare", 6), ("parallel", 7), ("nameless_run", 5), ("short", 9), ("short_parallel", 5),
    ("supra", 5), ("id", 6), ("law", 5), ("journal", 4), ("placeholder", 3), ("cal_year", 5),
    ("string_cite", 4), ("nested_paren", 4), ("nominative_overlap", 5), ("odd_v", 5), ("reference", 5),
    ("id_after_odd_page", 3), ("long_digits", 0.4), ("filler", 6), ("hostile", 2), ("section_glued", 2),
    ("long_backward", 5), ("reference_before", 2), ("same_vol_page_series", 4), ("short_no_volume", 4), ("short_antecedent_elsewhere", 4), ("huge_pin", 2), ("edition_boundary", 6), ("repeat_ambiguous", 3), ("dup_full_later", 3),
]

# focus (qualified function name, without the leading "eyecite.") -> template families
FOCUS = {
    "helpers.add_defendant": [("odd_v", 10), ("cal_year", 5), ("full", 3), ("nominative_overlap", 3), ("string_cite", 2), ("parallel", 2)],
    "helpers.add_pre_citation": [("long_backward", 8), ("reference", 6), ("short_parallel", 4), ("nameless_run", 4), ("bare", 3), ("filler", 2)],
    "helpers.add_post_citation": [("full", 6), ("nested_paren", 6), ("parallel", 5), ("bare", 4), ("placeholder", 2), ("nameless_run", 3)],
    "helpers.process_parenthetical": [("nested_paren", 10), ("full", 4), ("law", 2), ("journal", 2)],
    "helpers.extract_pin_cite": [("huge_pin", 5), ("short", 10), ("id", 6), ("supra", 6), ("short_parallel", 4), ("filler", 2)],
    "helpers.clean_pin_cite": [("short", 6), ("full", 6), ("id", 4), ("journal", 3)],
    "helpers.match_on_tokens": [("huge_pin", 6), ("long_backward", 10), ("nested_paren", 4), ("short", 4), ("full", 4), ("supra", 3), ("law", 3), ("long_digits", 1), ("hostile", 3)],
    "helpers.add_law_metadata": [("law", 10), ("section_glued", 4), ("string_cite", 2)],
    "helpers.add_journal_metadata": [("journal", 10), ("placeholder", 4), ("id_after_odd_page", 2)],
    "helpers.get_year": [("full", 6), ("cal_year", 6), ("bare", 4), ("law", 3), ("journal", 3), ("nameless_run", 3)],
    "helpers.get_court_by_paren": [("full", 8), ("bare", 4), ("parallel", 3)],
    "helpers.disambiguate_reporters": [("bare", 6), ("full", 6), ("short", 4), ("parallel", 3), ("cal_year", 3)],
    "helpers.filter_citations": [("short_parallel", 8), ("reference", 8), ("parallel", 6), ("string_cite", 4), ("nominative_overlap", 3), ("cal_year", 2)],
    "helpers.overlapping_citations": [("short_parallel", 8), ("reference", 8), ("parallel", 6)],
    "resolve._has_invalid_pin_cite": [("huge_pin", 8), ("id_after_odd_page", 12), ("placeholder", 3), ("id", 3), ("long_digits", 1)],
    "resolve._resolve_id_citation": [("id_after_odd_page", 8), ("id", 6), ("string_cite", 4)],
    "resolve.resolve_citations": [("dup_full_later", 6), ("repeat_ambiguous", 6), ("short_antecedent_elsewhere", 5), ("same_vol_page_series", 5), ("id_after_odd_page", 4), ("reference", 4), ("short", 4), ("supra", 4), ("id", 4), ("full", 4)],
    "tokenizers.Tokenizer.tokenize": [("nominative_overlap", 12), ("full", 3), ("section_glued", 3), ("supra", 2), ("id", 2), ("string_cite", 2), ("hostile", 2)],
    "tokenizers.token_is_from_nominative_reporter": [("nominative_overlap", 12), ("full", 2)],
    "tokenizers.Tokenizer.append_text": [("filler", 6), ("hostile", 6), ("full", 3)],
    "tokenizers.Tokenizer.extract_tokens": [("full", 4), ("law", 4), ("section_glued", 4), ("hostile", 4), ("nominative_overlap", 3)],
    "tokenizers.HyperscanTokenizer.extract_tokens": [("section_glued", 10), ("law", 6), ("hostile", 6), ("full", 3), ("long_digits", 0.5)],
    "tokenizers.AhocorasickTokenizer.get_extractors": [("hostile", 6), ("supra", 4), ("id", 4), ("law", 3), ("full", 3)],
    "models.Token.from_match": [("full", 4), ("law", 4), ("id", 3), ("supra", 3), ("section_glued", 3)],
    "models.CitationBase.span": [("short", 6), ("full", 4), ("id", 3), ("supra", 3)],
    "models.CitationBase.span_with_pincite": [("full", 6), ("short", 6), ("reference", 3), ("id", 3)],
    "models.CitationBase.full_span": [("full", 6), ("odd_v", 4), ("nested_paren", 4), ("cal_year", 3)],
    "models.CitationBase.__post_init__": [("placeholder", 8), ("id_after_odd_page", 4), ("full", 3)],
    "models.FullCaseCitation.is_parallel_citation": [("nameless_run", 10), ("parallel", 8), ("cal_year", 3), ("string_cite", 3)],
    "models.ResourceCitation.guess_edition": [("edition_boundary", 12), ("bare", 8), ("cal_year", 5), ("full", 5), ("nameless_run", 4), ("short", 3), ("parallel", 3)],
    "models.Edition.includes_year": [("edition_boundary", 14), ("bare", 8), ("cal_year", 5), ("full", 5)],
    "find.get_citations": None,  # default mix
    "find._extract_full_citation": [("full", 6), ("bare", 4), ("law", 4), ("journal", 4), ("placeholder", 2)],
    "resolve._resolve_shortcase_citation": [("short_antecedent_elsewhere", 8), ("short_no_volume", 8), ("short", 8), ("short_parallel", 4), ("same_vol_page_series", 3), ("full", 3)],
    "find._extract_shortform_citation": [("short_no_volume", 5), ("long_backward", 5), ("short", 10), ("short_parallel", 5), ("nominative_overlap", 2)],
    "find._extract_supra_citation": [("long_backward", 5), ("supra", 10), ("reference", 2), ("hostile", 2)],
    "find._extract_id_citation": [("id", 10), ("id_after_odd_page", 3), ("string_cite", 2)],
    "find.extract_reference_citations": [("reference", 12), ("full", 3), ("parallel", 2)],
    "find.extract_pincited_reference_citations": [("reference", 12), ("full", 3), ("parallel", 2)],
    "find.find_reference_citations_from_markup": [("reference_before", 12), ("reference", 12), ("full", 3), ("parallel", 2)],
    "models.Document.__post_init__": [("reference_before", 6), ("reference", 6), ("full", 4), ("hostile", 3), ("filler", 3)],
    "utils.is_valid_name": [("reference", 10), ("full", 3)],
    "annotate.annotate_citations": [("string_cite", 4), ("full", 4), ("id", 4), ("short", 4), ("hostile", 3)],
}


def focus_families(focus):
    """Resolve a --focus string (function qualified name, optionally prefixed with 'eyecite.',
    optionally an obligation name 'module.func/kind:label') to a weight table; unknown = default."""
    if not focus:
        return DEFAULT_MIX
    f = focus.split("/", 1)[0].strip()
    if f.startswith("eyecite."):
        f = f[len("eyecite."):]
    if f in FAMILIES:  # a family name is accepted as a focus too
        return [(f, 1)]
    table = FOCUS.get(f)
    if table is None:
        # longest key that is a suffix/prefix match on dotted components
        cands = [k for k in FOCUS if f.endswith("." + k.split(".", 1)[-1]) or k.endswith("." + f) or k.split(".")[-1] == f.split(".")[-1]]
        if cands:
            table = FOCUS[sorted(cands, key=lambda k: (-len(k), k))[0]]
    if not table:
        return DEFAULT_MIX
    # keep 25 % of the default mix so that focused runs still see interactions
    tot_f = sum(w for _, w in table)
    tot_d = sum(w for _, w in DEFAULT_MIX)
    return [(n, w * 3.0 / tot_f) for n, w in table] + [(n, w * 1.0 / tot_d) for n, w in DEFAULT_MIX]


def _pick(rng, table):
    tot = sum(w for _, w in table)
    x = rng.random() * tot
    for n, w in table:
        x -= w
        if x <= 0:
            return n
    return table[-1][0]


# --------------------------------------------------------------------------------------------
# character-level mutation
# --------------------------------------------------------------------------------------------
MUT_ALPHABET = list(" ,.;()[]§\t\n _-'\"&<>") + ["v.", " at ", "1", "0", "\x00", " ", "١", "supra", "Id."]


def mutate(rng, s, k=None):
    """k random edits: delete / insert / replace / swap / duplicate / space->odd space."""
    if not s:
        return s
    k = k if k is not None else rng.choice([1, 1, 2, 3])
    chars = list(s)
    for _ in range(k):
        if not chars:
            break
        i = rng.randrange(len(chars))
        op = rng.random()
        if op < 0.2:
            del chars[i]
        elif op < 0.4:
            chars.insert(i, rng.choice(MUT_ALPHABET))
        elif op < 0.55:
            chars[i] = rng.choice(MUT_ALPHABET)
        elif op < 0.65 and i + 1 < len(chars):
            chars[i], chars[i + 1] = chars[i + 1], chars[i]
        elif op < 0.75:
            chars.insert(i, chars[i])
        elif op < 0.9:
            spaces = [j for j, c in enumerate(chars) if c == " "]
            if spaces:
                chars[rng.choice(spaces)] = rng.choice([" ", "\t", "\n", "  ", "", " ", "　"])
        else:
            chars.insert(i, rng.choice(HOSTILE))
    return "".join(chars)


def _compose(rng, table):
    k = rng.choice([1, 1, 2, 2, 3, 4])
    fams = [_pick(rng, table) for _ in range(k)]
    parts = [FAMILIES[f](rng) for f in fams]
    out = parts[0]
    for p in parts[1:]:
        out += rng.choice(SEPARATORS) + p
    if rng.random() < 0.15:
        out = rng.choice(HOSTILE + ["", " ", "("]) + out
    if rng.random() < 0.3:
        out += rng.choice([".", ". ", ";", " foo", "\n", ")", " (", ",", " at", " v.", " "])
    return out, fams


def gen_marked(rng, focus=None):
    return _compose(rng, focus_families(focus))


def gen_plain(rng, focus=None):
    marked, fams = gen_marked(rng, focus)
    text = strip_marks(marked)
    r = rng.random()
    if r < 0.2:
        text = mutate(rng, text)
        fams = fams + ["mutated"]
    elif r < 0.28:
        # splice a hostile fragment at a random position
        i = rng.randrange(len(text) + 1)
        text = text[:i] + rng.choice(HOSTILE) + text[i:]
        fams = fams + ["spliced"]
    return text, fams


# --------------------------------------------------------------------------------------------
# markup variants (C19)
# --------------------------------------------------------------------------------------------
def _esc(s):
    return s.replace("&", "&amp;").replace("<", "&lt;").replace(">", "&gt;")


ENTITY_SWAPS = [("§", "&sect;"), ("§", "&#167;"), ("¶", "&para;"), ("'", "&#39;"), ("ñ", "&ntilde;"), (" ", "&nbsp;"), ('"', "&quot;")]


def to_markup(rng, marked):
    """Turn a marked text into a well-formed markup document: party names in <i>/<em> (with or
    without trailing punctuation inside the tag), paragraphs in <p>, entities, extra whitespace."""
    tag_p = rng.choice([0.0, 0.5, 0.9, 1.0])
    out = []
    i = 0
    n = len(marked)
    while i < n:
        ch = marked[i]
        if ch == NB:
            j = marked.find(NE, i)
            if j < 0:
                j = n
            name = marked[i + 1 : j]
            i = j + 1
            if rng.random() < tag_p and name:
                tag = rng.choice(["i", "i", "em"])
                trail = ""
                # optionally pull trailing punctuation (and " v." on the plaintiff side) inside the tag
                if i < n and marked[i] in ",.;:" and rng.random() < 0.4:
                    trail = marked[i]
                    i += 1
                lead_ws = rng.choice(["", "", "", " ", "\n"])
                tail_ws = rng.choice(["", "", "", " "])
                out.append(f"<{tag}>{lead_ws}{_esc(name)}{trail}{tail_ws}</{tag}>")
            else:
                out.append(_esc(name))
            continue
        if ch == NE:
            i += 1
            continue
        out.append(_esc(ch))
        i += 1
    body = "".join(out)
    if rng.random() < 0.4:
        a, b = rng.choice(ENTITY_SWAPS)
        body = body.replace(a, b)
    if rng.random() < 0.25:
        body = body.replace(" v. ", rng.choice(["\n v. ", " <i>v.</i> ", "  v.  ", " v.\n"]), 1)
    if rng.random() < 0.2:
        body = body.replace(". ", rng.choice([".</p>\n<p>", ". <br/>", ".\n\n", ".</p><p>"]), 1)
    attr = rng.choice(["", "", ' id="b101-4"', ' class="opinion" data-page="101" id="b101-5"', ' style="text-indent: 2em; margin-left: 4em" class="indent"'])
    if attr:
        body = body.replace(". ", f".</p>\n<p{attr}>", 2)
    shape = rng.random()
    if attr:
        doc = f"<div{attr}><p{attr}>{body}</p></div>"
    elif shape < 0.5:
        doc = f"<p>{body}</p>"
    elif shape < 0.7:
        doc = f"<div>\n  <p>{body}</p>\n</div>"
    elif shape < 0.8:
        doc = f"<html><head><title>t</title><style>p {{}}</style></head><body><p>{body}</p></body></html>"
    elif shape < 0.9:
        doc = f"<p>{rng.choice(FILLER)}</p><p>{body}</p><p>{rng.choice(FILLER)}</p>"
    else:
        doc = f"<blockquote>{body}</blockquote>"
    return doc


MARKUP_MIX = [
    ("reference_before", 10), ("reference", 14), ("full", 8), ("parallel", 4), ("short", 3), ("supra", 3), ("id", 3), ("string_cite", 3),
    ("cal_year", 2), ("nominative_overlap", 3), ("law", 2), ("journal", 1), ("nested_paren", 2), ("filler", 2),
    ("short_parallel", 2), ("nameless_run", 1), ("odd_v", 1),
]


def gen_markup(rng, focus=None):
    table = focus_families(focus) if focus else MARKUP_MIX
    if focus and table is not DEFAULT_MIX:
        tot = sum(w for _, w in MARKUP_MIX)
        table = table + [(n, w * 1.0 / tot) for n, w in MARKUP_MIX]
    elif table is DEFAULT_MIX:
        table = MARKUP_MIX
    marked, fams = _compose(rng, table)
    if rng.random() < 0.08:
        marked = mutate(rng, marked.replace("\x00", ""), 1)
    # NUL and other XML-illegal controls make lxml behave platform-dependently: keep docs well-formed
    marked = "".join(c for c in marked if c in "\t\n\r" or ord(c) >= 0x20)
    return to_markup(rng, marked), fams


CLEAN_STEP_LISTS = [["html"], ["html", "all_whitespace"], ["html", "inline_whitespace"], ["html", "all_whitespace"]]


# --------------------------------------------------------------------------------------------
# drivers
# --------------------------------------------------------------------------------------------
def corpus_cases(markup=False):
    out = []
    for i, e in enumerate(REGRESSION):
        if markup and "markup" in e:
            out.append({"markup": e["markup"], "steps": ["html", "all_whitespace"], "origin": f"corpus:row{e['row']}#{i}"})
        elif not markup and "text" in e:
            out.append({"text": e["text"], "origin": f"corpus:row{e['row']}#{i}"})
    return out


def documents(seed, n, focus=None, markup=False, corpus=True, extra=()):
    """Yield up to len(corpus)+len(extra)+n cases.  Deterministic for fixed arguments."""
    if corpus:
        for c in corpus_cases(markup):
            yield c
    for e in extra:
        yield e
    rng = random.Random(f"props-{seed}-{focus or ''}-{int(bool(markup))}")
    for k in range(n):
        if markup:
            m, fams = gen_markup(rng, focus)
            yield {"markup": m, "steps": list(rng.choice(CLEAN_STEP_LISTS)), "origin": "gen:" + "+".join(fams)}
        else:
            t, fams = gen_plain(rng, focus)
            yield {"text": t, "origin": "gen:" + "+".join(fams)}


def value_seeded_texts(values, markup=False):
    """Instantiate obvious templates from solver-model values (ints / strings).  Used by replay."""
    out = []

    def add(t):
        out.append({"text": t, "origin": "values"} if not markup else {"markup": f"<p>{_esc(t)}</p>", "steps": ["html", "all_whitespace"], "origin": "values"})

    def walk(prefix, v):
        if isinstance(v, dict):
            for k in sorted(v):
                yield from walk(f"{prefix}.{k}" if prefix else str(k), v[k])
        elif isinstance(v, (list, tuple)):
            for i, x in enumerate(v):
                yield from walk(f"{prefix}[{i}]", x)
        else:
            yield prefix, v

    for key, v in walk("", values or {}):
        lk = key.lower()
        if isinstance(v, bool) or v is None:
            continue
        if isinstance(v, int):
            sv = str(v)
            if "year" in lk or 0 <= v <= 99999:
                y = sv.zfill(4) if v >= 0 else sv
                for t in (
                    f"Foo v. Bar ({y}) 1 U.S. 1", f"Foo v. Bar, 1 U.S. 1 ({y})", f"1 H. 1 ({y})", f"Foo v. Bar ({y}) 1 H. 1",
                    f"42 U.S.C. § 1983 ({y})", f"1 Minn. L. Rev. 1 ({y})", f"1 U.S. 1 ({y}). … 2 Mon. 2 (1825)",
                ):
                    add(t)
            if "page" in lk or "pin" in lk or "len" in lk or "digit" in lk:
                nrun = max(1, min(abs(v), 6000))
                add(f"1 U.S. {'1' * nrun}. Id. at 5.")
                add(f"1 U.S. 1. Id. at {'1' * nrun}.")
                add(f"Foo, 515 U.S. at {sv} foo")
            if "offset" in lk or "start" in lk or "index" in lk:
                pad = "x " * max(0, min(abs(v), 40))
                add(f"{pad}\tv. Bar, 1 U.S. 1")
                add(f"{pad}Foo( v. Bar, 1 U.S. 1")
        elif isinstance(v, str) and v:
            s = v[:6000]
            if "year" in lk:
                add(f"Foo v. Bar ({s}) 1 U.S. 1")
                add(f"Foo v. Bar, 1 U.S. 1 ({s})")
            if "page" in lk:
                add(f"1 U.S. {s}. Id. at 5.")
                add(f"1 Minn. L. Rev. {s}. Id. at 5.")
            if "plaintiff" in lk or "word" in lk or "name" in lk or "antecedent" in lk:
                add(f"{s} v. Bar, 1 U.S. 1")
                add(f"{s}, 515 U.S. at 241")
                add(f"{s} v. Bar, 1 U.S. 1 (1999). {s} at 5.")
            if "defendant" in lk:
                add(f"Foo v. {s}, 1 U.S. 1")
            if "pin" in lk:
                add(f"Foo, 515 U.S. at 241{s}")
                add(f"Id. at {s}")
            if "paren" in lk:
                add(f"Foo v. Bar, 1 U.S. 1 (1999) ({s})")
            if "reporter" in lk:
                add(f"Foo v. Bar, 1 {s} 1 (1999)")
            if "text" in lk or "prefix" in lk or lk in ("t", "s"):
                add(s)
                add(f"Foo v. Bar, 1 U.S. 1{s}")
                add(f"Foo, 515 U.S. at 241{s}")
    seen = set()
    uniq = []
    for c in out:
        k = c.get("text", c.get("markup"))
        if k not in seen:
            seen.add(k)
            uniq.append(c)
    return uniq


if __name__ == "__main__":
    seed = int(sys.argv[1]) if len(sys.argv) > 1 else 0
    n = int(sys.argv[2]) if len(sys.argv) > 2 else 10
    focus = sys.argv[3] if len(sys.argv) > 3 else None
    for case in documents(seed, n, focus, markup=os.environ.get("MARKUP") == "1", corpus=False):
        print(repr(case))
