#!/venv/bin/python
"""Concrete replay for C06 C07 C08 C09 C10 C11 C16 C20: reads ONE JSON request on stdin, prints ONE JSON line.

(a) {"property": ID, "obligation": "<module.func/kind:label>", "values": {...solver model...}, "seed": int,
     "tier": "quick"|"thorough" [, "ignore_regions": [...], "ignore_clauses": [...]]}
    -> runs the property's bounded checker focused on the function named before the first "/" (strings of the solver
       model become extra letters / inputs where the checker can use them), stops at the first violation
       (budget 60 s quick, 300 s thorough)
    -> {"reproduced": bool, "witness": <first violation or null>, "evaluations": n, "bound": "..."}
(b) {"property": ID, "known_finding": {..., "witness": {...} | "witnesses": [...], "clause": ...}}
    -> re-runs the stored witness(es) through check_<ID>
    -> {"reproduced": bool, "violations": [...]}
    witness forms: the "input" object of a violation reported by run_b.py (verbatim); for C06/C07/C08 also a text
    (str or {"text": ...}) that is extracted and resolved; for C09/C11 also a markup string or {"markup": s, "mode": m}:
    plain = clean_text(markup, ["html", "all_whitespace"]), one annotation per extracted citation, source = markup.

`main(request_dict) -> dict` is importable.  Env EYECITE_REPO selects a scratch copy of the library.  Exit status 0.
"""
from __future__ import annotations

import json
import os
import sys

sys.path.insert(0, os.path.dirname(os.path.abspath(__file__)))


def _norm_annotations(anns):
    out = []
    for k, a in enumerate(anns):
        if len(a) == 4 and not isinstance(a[0], (list, tuple)):
            s, e, b, af = a
        elif len(a) == 3:
            (s, e), b, af = a
        elif len(a) == 2:
            s, e = a
            b = af = None
        else:
            raise ValueError(f"annotation {a!r}")
        out.append([int(s), int(e), b, af])
    return out


def _sentinelise(cb, anns):
    """replace before/after strings that could occur in the texts by private-use sentinels"""
    out = []
    for k, (s, e, _b, _a) in enumerate(anns):
        b, a = cb.sentinel_pair(k)
        out.append([s, e, b, a])
    return out


def _markup_cases(cb, pid, markup, mode):
    from eyecite import clean_text, get_citations
    plain = clean_text(markup, ["html", "all_whitespace"])
    cits = get_citations(plain)
    cases = []
    for spans in ([c.span() for c in cits], [c.span_with_pincite() for c in cits], [c.full_span() for c in cits]):
        spans = [list(x) for x in spans]
        if pid == "C11":
            for m in ([mode] if mode in ("skip", "wrap") else ["skip", "wrap"]):
                cases.append({"source": markup, "spans": spans, "mode": m, "use_dmp": True})
        else:
            anns = [[s, e] + list(cb.sentinel_pair(k)) for k, (s, e) in enumerate(spans)]
            for m in ([mode] if mode else ["skip", "wrap", "unchecked"]):
                cases.append({"plain": plain, "annotations": anns, "source": markup, "mode": m, "use_dmp": True})
                cases.append({"plain": markup, "annotations": anns, "source": None, "mode": m, "use_dmp": True})
    return cases


def witness_cases(cb, pid, w, kf):
    """normalise a stored witness to a list of checker cases"""
    mode = (kf or {}).get("mode") or (w.get("mode") if isinstance(w, dict) else None)
    if pid in ("C06", "C07", "C08"):
        if isinstance(w, str):
            return [{"kind": "text", "text": w}]
        if isinstance(w, dict) and ("seq" in w or "text" in w):
            return [w]
        if isinstance(w, list):
            return [{"kind": "letters", "seq": w}]
    if pid in ("C09", "C11"):
        if isinstance(w, str):
            return _markup_cases(cb, pid, w, mode)
        if isinstance(w, dict) and "markup" in w:
            return _markup_cases(cb, pid, w["markup"], mode)
    if pid == "C09" and isinstance(w, dict) and "plain" in w:
        c = dict(w)
        anns = _norm_annotations(c.get("annotations", []))
        texts = (c.get("plain") or "") + (c.get("source") or "")
        if any(b is None or a is None or (b and b in texts) or (a and a in texts) for _s, _e, b, a in anns):
            anns = _sentinelise(cb, anns)
        c["annotations"] = anns
        c.setdefault("mode", mode or "unchecked")
        c.setdefault("source", None)
        c.setdefault("use_dmp", True)
        return [c]
    if isinstance(w, dict):
        return [w]
    raise ValueError(f"cannot interpret witness {w!r} for {pid}")


def main(req: dict) -> dict:
    pid = req.get("property")
    try:
        import checkers_b as cb
    except Exception as e:
        return {"reproduced": False, "witness": None, "evaluations": 0, "error": f"harness could not start: {type(e).__name__}: {e}"}
    if pid not in cb.RUNNERS:
        return {"reproduced": False, "witness": None, "evaluations": 0, "error": f"{pid} is not served by replay_b.py (serves {cb.PROPERTIES})"}
    if "known_finding" in req:
        kf = req["known_finding"] or {}
        ws = []
        if "witness" in kf:
            ws.append(kf["witness"])
        ws += list(kf.get("witnesses") or [])
        want = kf.get("clause")
        found, errors, n = [], [], 0
        for w in ws:
            try:
                cases = witness_cases(cb, pid, w, kf)
            except Exception as e:
                errors.append(f"{type(e).__name__}: {e}")
                continue
            for case in cases:
                n += 1
                try:
                    vs = cb.CHECKERS[pid](case)
                except Exception as e:
                    errors.append(f"{type(e).__name__}: {e}")
                    continue
                for v in vs:
                    if not want or v["clause"] == want or v["clause"].startswith(str(want)) or str(want).endswith(v["clause"]):
                        found.append(v)
        out = {"reproduced": bool(found), "violations": found[:5], "evaluations": n}
        if errors:
            out["errors"] = errors[:5]
        if not ws:
            out["errors"] = ["known_finding has no witness"]
        return out
    obligation = req.get("obligation") or ""
    tier = req.get("tier", "quick")
    budget = 50.0 if tier != "thorough" else 280.0
    n = 300 if tier != "thorough" else 3000
    focus = obligation.split("/")[0] if obligation else None
    res = cb.run_property(pid, int(req.get("seed", 0) or 0), n, focus, budget, hints=req.get("values"),
                          stop_on_first=True, ignore_regions=req.get("ignore_regions") or (),
                          ignore_clauses=req.get("ignore_clauses") or ())
    rel = res.get("relevant_violations")
    vs = rel if rel is not None else res["violations"]
    return {"reproduced": bool(vs), "witness": (vs[0] if vs else None), "evaluations": res["evaluations"],
            "violation_counts": res["violation_counts"], "bound": res["bound"], "focus": focus, "seconds": res["seconds"]}


if __name__ == "__main__":
    try:
        request = json.loads(sys.stdin.read())
        result = main(request)
    except Exception as e:  # never a traceback on stdout
        result = {"reproduced": False, "witness": None, "evaluations": 0, "error": f"{type(e).__name__}: {e}"}
    sys.stdout.flush()
    print(json.dumps(result, ensure_ascii=True, default=str))
    sys.exit(0)
