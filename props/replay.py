#!/venv/bin/python
"""Replay / confirm layer for the extraction-side properties.

Reads ONE JSON request on stdin, prints ONE JSON line on stdout (last line).  Exit status 0.

(a) {"property": ID, "obligation": "module.func/kind:label", "values": {...}, "seed": int,
     "tier": "quick"|"thorough"}
    -> runs the property's checker with focus = text of the obligation before the first "/",
       first on templates instantiated from `values`, then on the regression corpus and on seeded
       generated documents, until the first violation or the budget (60 s quick / 300 s thorough):
       {"reproduced": bool, "witness": <first violation dict or null>, "evaluations": n, ...}
       Optional request keys: "clause" (only violations of that clause count), "n", "budget_s",
       "corpus": false (do not use the stored section-7 witnesses).
(b) {"property": ID, "known_finding": {"clause": ..., "witnesses": [{"text": ...}|{"markup": ...}], ...}}
    (also accepted: "witness": {...} / a bare string, "input": ..., "text": ...)
    -> re-runs the stored witness(es): {"reproduced": bool} is true iff a stored witness still
       violates the named clause (any clause if none is named); per-witness results in "witnesses".

Ids not handled here are dispatched to props/replay_b.py (same protocol) when that file exists.
"""
import json
import os
import subprocess
import sys
import time

HERE = os.path.dirname(os.path.abspath(__file__))
if HERE not in sys.path:
    sys.path.insert(0, HERE)

MINE = ("C02", "C03", "C04", "C12", "C17", "C18", "C19")
BUDGET = {"quick": 60.0, "thorough": 300.0}
N_DEFAULT = {"quick": 1500, "thorough": 20000}


# obligation label keywords -> the property clauses that express them (first-match is NOT used: all matching rows
# are united).  Only used to decide which violations count as a reproduction of THAT obligation.
OBLIGATION_CLAUSES = [
    ("span_end_ge_token_end", ["span_covers_token", "bounds"]),
    ("full_span_start_ge_0", ["bounds", "plaintiff_at_full_span_start"]),
    ("plaintiff_at_full_span_start", ["plaintiff_at_full_span_start", "inside_full_span"]),
    ("joke", ["bounds", "span_covers_token", "non_interference", "inside_full_span", "remove_ambiguous_only_filters"]),
    ("bounds", ["bounds", "offsets_valid"]),
    ("spans", ["bounds", "offsets_valid"]),
    ("span_covers_token", ["span_covers_token"]),
    ("pincite", ["pincite_span_contains_span", "pincite_text_inside"]),
    ("pin_cite_span", ["pincite_span_contains_span", "pincite_text_inside"]),
    ("ordered_by_span", ["ordered_by_span", "twostep_ordered_by_span"]),
    ("sorted", ["ordered_by_span", "twostep_ordered_by_span"]),
    ("distinct_spans", ["unique_spans", "twostep_unique_spans"]),
    ("unique", ["unique_spans", "twostep_unique_spans"]),
    ("disjoint", ["spans_disjoint", "twostep_spans_disjoint"]),
    ("keeps_non_references", ["keeps_non_references"]),
    ("subseq", ["keeps_non_references"]),
    ("idempotent", ["idempotent"]),
    ("cat_is_prefix", ["concat_is_text"]),
    ("concat", ["concat_is_text"]),
    ("part", ["concat_is_text", "token_offsets_index_text", "tokens_increasing_disjoint", "index_list_exact"]),
    ("cand", ["token_offsets_index_text"]),
    ("offsets_index", ["token_offsets_index_text"]),
    ("increasing", ["tokens_increasing_disjoint"]),
    ("index_list", ["index_list_exact"]),
    ("citation_tokens", ["index_list_exact"]),
    ("parallel_only_when_joined", ["inside_full_span"]),
    ("prov", ["inside_full_span", "plaintiff_at_full_span_start"]),
    ("inside_full_span", ["inside_full_span"]),
    ("year", ["year_range_and_value"]),
    ("edition_guess", ["edition_guess_member", "edition_guess_single", "edition_guess_unique_by_year"]),
    ("guess_edition", ["edition_guess_member", "edition_guess_single", "edition_guess_unique_by_year"]),
    ("includes_year", ["edition_guess_unique_by_year"]),
    ("disambiguate", ["remove_ambiguous_only_filters"]),
    ("remove_ambiguous", ["remove_ambiguous_only_filters"]),
    ("non_interference", ["non_interference"]),
    ("after_full", ["reference_after_full"]),
    ("contains_valid_name", ["reference_contains_valid_name"]),
    ("offsets_valid", ["offsets_valid"]),
]


def clauses_for(pid, obligation, explicit=None):
    """The set of clause names that count as reproducing `obligation` (None = any clause of the property)."""
    import checkers

    mine = set(checkers.CLAUSES.get(pid, ()))
    if explicit:
        return {explicit} if isinstance(explicit, str) else set(explicit)
    ob = (obligation or "").lower()
    if pid == "C04":  # every C04 obligation is a safety obligation of some function: pick the stage by module
        fn = ob.split("/", 1)[0]
        fn = fn[len("eyecite."):] if fn.startswith("eyecite.") else fn
        if fn.startswith("resolve."):
            return {"no_raise_resolve"}
        if fn.startswith("annotate.") or fn.startswith("utils."):
            return {"no_raise_annotate"}
        if fn:
            return {"no_raise_extract"}
        return None
    label = ob.split("/", 1)[1] if "/" in ob else ""
    last = label.rsplit(":", 1)[-1]
    if last in mine:
        return {last}
    out = set()
    for kw, cl in OBLIGATION_CLAUSES:
        if kw in label:
            out.update(c for c in cl if c in mine)
    return out or None


def _is_easter_egg(v):
    return v["input"] == "eyecite" or bool(v["detail"].get("easter_egg")) or (isinstance(v["input"], dict) and v["detail"].get("cleaned") == "eyecite")


def _witness_cases(kf):
    """Every stored witness of a known-finding entry as a checker case."""
    raw = []
    for key in ("witnesses", "witness", "input", "inputs", "text", "markup"):
        if key in kf and kf[key] is not None:
            v = kf[key]
            if key == "markup":
                v = {"markup": v, "steps": kf.get("steps")}
            raw.extend(v if isinstance(v, list) else [v])
    cases = []
    for w in raw:
        if isinstance(w, str):
            cases.append({"text": w})
        elif isinstance(w, dict):
            if "markup" in w:
                cases.append({"markup": w["markup"], "steps": w.get("steps") or ["html", "all_whitespace"]})
            elif "text" in w:
                cases.append({"text": w["text"]})
            elif "input" in w:
                cases.extend(_witness_cases({"input": w["input"]}))
            elif "plain_text" in w:
                cases.append({"text": w["plain_text"]})
    return cases


def replay_known(req):
    import checkers

    pid = req["property"].upper()
    kf = req["known_finding"]
    clause = kf.get("clause") or req.get("clause")
    if not clause and isinstance(kf.get("obligation"), str) and ":" in kf["obligation"]:
        # "module.func/post:clause_name" names the clause as its last label, if it is one of ours
        last = kf["obligation"].rsplit(":", 1)[-1]
        if last in checkers.CLAUSES.get(pid, ()):
            clause = last
    cases = _witness_cases(kf)
    toks = "all" if pid in ("C04", "C12") else None
    toks = checkers.TOKENIZER_NAMES if toks == "all" else checkers.DEFAULT_TOKENIZERS[pid]
    if kf.get("tokenizers"):
        toks = tuple(kf["tokenizers"])
    results = []
    reproduced = False
    first = None
    for c in cases:
        if pid == "C19" and "text" in c and "markup" not in c:
            pass  # check_C19 wraps a plain witness as <p>text</p>
        if pid in ("C04", "C12", "C17", "C18") and "text" not in c:
            results.append({"input": c, "skipped": "property is stated for plain text"})
            continue
        try:
            vs = checkers.CHECKERS[pid](c, tokenizers=toks)
        except Exception as e:
            results.append({"input": c.get("text", c.get("markup")), "checker_error": f"{type(e).__name__}: {e}"})
            continue
        hit = [v for v in vs if clause is None or v["clause"] == clause]
        results.append({"input": c.get("text") if "text" in c else {"markup": c["markup"], "steps": c["steps"]}, "violates": bool(hit), "clauses": sorted({v["clause"] for v in vs})})
        if hit and not reproduced:
            reproduced = True
            first = hit[0]
    return {"property": pid, "mode": "known_finding", "clause": clause, "reproduced": reproduced, "witness": first, "witnesses": results, "evaluations": len(results), "eyecite": checkers.EYECITE_FILE}


def replay_obligation(req):
    import checkers
    import gen
    import run as runner

    pid = req["property"].upper()
    tier = req.get("tier", "quick")
    budget = float(req.get("budget_s") or BUDGET.get(tier, 60.0))
    seed = int(req.get("seed") or 0)
    obligation = req.get("obligation") or ""
    focus = obligation.split("/", 1)[0].strip() or None
    accepted = clauses_for(pid, obligation, req.get("clause"))
    joke = "joke" in obligation.lower()
    clause = sorted(accepted) if accepted else None
    t0 = time.time()
    kind = checkers.CASE_KIND[pid]
    extra = gen.value_seeded_texts(req.get("values") or {}, markup=(kind == "markup"))
    toks = "all" if tier == "thorough" else None
    n = int(req.get("n") or N_DEFAULT.get(tier, 1500))
    evaluations = 0
    witness = None
    counts = {}
    # rounds of increasing size so that a cheap witness is returned quickly
    rounds = [(0, True)] + [(k, False) for k in (200, n)]
    seen_round = 0
    for size, only_corpus in rounds:
        remaining = budget - (time.time() - t0)
        if remaining <= 1:
            break
        rep = runner.run_property(
            pid, seed + seen_round, size, focus=focus, budget_s=remaining, corpus=(only_corpus and req.get("corpus", True)), only_corpus=only_corpus,
            tokenizers=toks, extra_cases=extra if only_corpus else (), keep=50,
        )
        seen_round += 1
        evaluations += rep["evaluations"]
        for k, v in rep["violation_counts"].items():
            counts[k] = counts.get(k, 0) + v
        # the deliberate easter egg (input "eyecite") reproduces nothing but the joke-path obligation
        hits = [v for v in rep["violations"] if (accepted is None or v["clause"] in accepted) and (joke or not _is_easter_egg(v))]
        if pid == "C17" and "parallel" in obligation.lower():
            # what is_parallel_citation copies: parties and year
            hits = [v for v in hits if v["detail"].get("field") in ("year", "plaintiff", "defendant")]
        if hits:
            # prefer a witness produced from the model values, then the shortest input
            hits.sort(key=lambda v: (0 if v["detail"].get("_origin") == "values" else 1, len(json.dumps(v["input"]))))
            witness = hits[0]
            break
    return {
        "property": pid, "mode": "obligation", "obligation": obligation, "focus": focus, "clauses_accepted": clause, "reproduced": witness is not None,
        "witness": witness, "evaluations": evaluations, "violation_counts": counts, "value_templates": len(extra), "tier": tier, "seed": seed,
        "wall_s": round(time.time() - t0, 2), "eyecite": checkers.EYECITE_FILE,
    }


def main():
    raw = sys.stdin.read()
    try:
        req = json.loads(raw)
        pid = str(req.get("property", "")).upper()
    except Exception as e:
        print(json.dumps({"reproduced": False, "error": f"bad request: {e}"}))
        return 0
    if pid not in MINE:
        other = os.path.join(HERE, "replay_b.py")
        if os.path.exists(other):
            p = subprocess.run([sys.executable, other], input=raw, text=True, capture_output=True)
            sys.stderr.write(p.stderr)
            sys.stdout.write(p.stdout if p.stdout.strip() else json.dumps({"reproduced": False, "error": "replay_b.py printed nothing", "property": pid}) + "\n")
            return 0
        print(json.dumps({"reproduced": False, "witness": None, "evaluations": 0, "error": "unknown property id and no props/replay_b.py", "property": pid}))
        return 0
    if os.environ.get("PYTHONHASHSEED") is None:
        # pin the string-hash seed (eyecite's output depends on it, see run.py) and re-run ourselves
        hs = req.get("hashseed")
        if hs is None:
            hs = (req.get("known_finding") or {}).get("hashseed") if isinstance(req.get("known_finding"), dict) else None
        if hs is None:
            hs = int(req.get("seed") or 0)
        env = dict(os.environ, PYTHONHASHSEED=str(int(hs) % 4294967296))
        p = subprocess.run([sys.executable, os.path.abspath(__file__)], input=raw, text=True, capture_output=True, env=env)
        sys.stderr.write(p.stderr)
        sys.stdout.write(p.stdout if p.stdout.strip() else json.dumps({"reproduced": False, "error": "replay child printed nothing", "property": pid}) + "\n")
        return 0
    try:
        out = replay_known(req) if "known_finding" in req else replay_obligation(req)
        out["hashseed"] = os.environ.get("PYTHONHASHSEED")
    except Exception as e:
        import traceback

        out = {"property": pid, "reproduced": False, "witness": None, "evaluations": 0, "error": f"{type(e).__name__}: {e}", "traceback": traceback.format_exc()[-1500:]}
    sys.stdout.flush()
    print(json.dumps(out))
    return 0


if __name__ == "__main__":
    main()
    sys.exit(0)
