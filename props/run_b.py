#!/venv/bin/python
"""CLI of the bounded stand-ins for C06 C07 C08 C09 C10 C11 C16 C20.

    /venv/bin/python /verif/props/run_b.py <ID> --seed S --n N [--focus <function qualified name or obligation name>] [--budget-s T]

Prints ONE JSON object on the last stdout line:
  {"property", "evaluations", "distinct", "violations": [first <= 10, smallest first, one per clause/region first],
   "violation_counts": {clause: n}, "violation_regions": {"clause|region": n}, "observations": {...stricter readings, raises...},
   "bound": "...", "exhaustive": bool, "seed": S, ...}
Exit status is always 0.  Env EYECITE_REPO=<dir containing eyecite/> selects a scratch copy of the library.
N scales the sampled parts; the exhaustive enumerations choose their depth from the time budget
(default 50 s; 300 s when N > 1000, i.e. the thorough tier).
"""
from __future__ import annotations

import argparse
import json
import os
import sys

sys.path.insert(0, os.path.dirname(os.path.abspath(__file__)))


def main(argv=None) -> int:
    argv = list(sys.argv[1:] if argv is None else argv)
    ap = argparse.ArgumentParser(prog="run_b.py")
    ap.add_argument("property")
    ap.add_argument("--seed", type=int, default=0)
    ap.add_argument("--n", type=int, default=300)
    ap.add_argument("--focus", default=None)
    ap.add_argument("--budget-s", type=float, default=None, dest="budget_s")
    ap.add_argument("--clauses", action="store_true", help="print the clause readings of the property and exit")
    try:
        ns, _unknown = ap.parse_known_args(argv)      # options of props/run.py that do not apply here are ignored
        ns.property = ns.property.upper()
    except SystemExit:
        print(json.dumps({"property": argv[0] if argv else None, "evaluations": 0, "distinct": 0, "violations": [],
                          "violation_counts": {}, "bound": "none: bad command line", "exhaustive": False, "seed": None,
                          "error": "bad command line"}))
        return 0
    try:
        import checkers_b as cb
        if ns.property not in cb.RUNNERS:
            out = {"property": ns.property, "evaluations": 0, "distinct": 0, "violations": [], "violation_counts": {},
                   "bound": f"none: {ns.property} is not served by run_b.py (serves {cb.PROPERTIES})", "exhaustive": False,
                   "seed": ns.seed, "error": "unknown property"}
        elif ns.clauses:
            out = {"property": ns.property, "clauses": cb.CLAUSE_READINGS.get(ns.property, {})}
        else:
            budget = ns.budget_s if ns.budget_s is not None else (50.0 if ns.n <= 1000 else 300.0)
            out = cb.run_property(ns.property, ns.seed, ns.n, ns.focus, budget)
    except Exception as e:  # import failure of the library under test etc.
        out = {"property": ns.property, "evaluations": 0, "distinct": 0, "violations": [], "violation_counts": {},
               "bound": "none: the harness could not start", "exhaustive": False, "seed": ns.seed,
               "error": f"{type(e).__name__}: {e}"}
    sys.stdout.flush()
    print(json.dumps(out, ensure_ascii=True, default=str))
    return 0


if __name__ == "__main__":
    sys.exit(main())
