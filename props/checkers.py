"""Executable checkers of the extraction-side property clauses (C02 C03 C04 C12 C17 C18 C19).

Each ``check_<ID>(case, ...)`` runs the REAL eyecite code on one concrete input and returns a list of
violations ``{"clause": <stable name>, "input": <json-serialisable input>, "detail": {...}}``.
``case`` is a plain ``str`` (the text) or a dict ``{"text": str}`` / ``{"markup": str, "steps": [...]}``.

Bounded evidence only: a clean run proves nothing; a violation is a concrete failing input.

Reading rules: every clause implements what properties.jsonl states and nothing stronger; where the
statement is ambiguous the WEAKER reading is taken and marked ``# WEAK:`` in the code.

If the environment variable EYECITE_REPO is set, that directory (which contains ``eyecite/``) is put
first on sys.path so that a scratch copy / mutant / old revision is the code under test.
"""
import datetime
import logging
import os
import re
import sys

_REPO = os.environ.get("EYECITE_REPO")
if _REPO and _REPO not in sys.path[:1]:
    sys.path.insert(0, _REPO)

import eyecite  # noqa: E402
from eyecite import annotate_citations, clean_text, get_citations, resolve_citations  # noqa: E402
from eyecite import models as M  # noqa: E402
from eyecite import tokenizers as T  # noqa: E402
from eyecite.helpers import filter_citations  # noqa: E402
from eyecite.utils import is_valid_name  # noqa: E402

EYECITE_FILE = eyecite.__file__
logging.getLogger("eyecite").setLevel(logging.CRITICAL)  # 'Unknown overlap case' warnings are not our output
STATS = {"skipped_unclean_markup": 0, "skipped_tokenizer_raise": 0, "skipped_no_hyperscan": 0}
MAX_IN_DETAIL = 400  # long strings are abbreviated in "detail" (never in "input")

TOKENIZER_NAMES = ("ref", "aho", "hs")
_TOKENIZERS = {}


def get_tokenizer(name):
    """'ref' = Tokenizer(), 'aho' = eyecite.tokenizers.default_tokenizer (AhocorasickTokenizer),
    'hs' = HyperscanTokenizer(cache_dir=None); each constructed once per process, lazily."""
    if name not in _TOKENIZERS:
        if name == "aho":
            _TOKENIZERS[name] = T.default_tokenizer
        elif name == "ref":
            _TOKENIZERS[name] = T.Tokenizer()
        elif name == "hs":
            try:
                import hyperscan  # noqa: F401

                tok = T.HyperscanTokenizer(cache_dir=None)
                tok.hyperscan_db  # build now (5-15 s), once
                _TOKENIZERS[name] = tok
            except ImportError:
                _TOKENIZERS[name] = None
        else:
            raise KeyError(name)
    return _TOKENIZERS[name]


# ------------------------------------------------------------------------------------------------
# helpers
# ------------------------------------------------------------------------------------------------
def _norm_case(case):
    if isinstance(case, str):
        return {"text": case}
    if isinstance(case, dict):
        if "markup" in case:
            return {"markup": case["markup"], "steps": list(case.get("steps") or ["html", "all_whitespace"])}
        if "text" in case:
            return {"text": case["text"]}
        if "input" in case:  # a stored violation dict
            return _norm_case(case["input"])
    raise TypeError(f"unsupported case {type(case)}")


def _input_of(case):
    return case["text"] if "text" in case else {"markup": case["markup"], "steps": case["steps"]}


def _abbr(s):
    if isinstance(s, str) and len(s) > MAX_IN_DETAIL:
        return s[:150] + f"...<{len(s)} chars>..." + s[-100:]
    return s


def _desc(c):
    try:
        return {
            "type": type(c).__name__,
            "matched": _abbr(c.matched_text()),
            "span": list(c.span()),
            "full_span": list(c.full_span()),
        }
    except Exception as e:  # pragma: no cover - never hide a checker problem
        return {"type": type(c).__name__, "error": repr(e)}


def _viol(clause, case, **detail):
    return {"clause": clause, "input": _input_of(case), "detail": detail}


def _extract(case, tokenizer=None, remove_ambiguous=False):
    """Run extraction for a plain or markup case.  Returns (text the offsets refer to, citations) or
    None when the markup cannot be cleaned (not a well-formed document: outside every quantifier)."""
    kw = {}
    if tokenizer is not None:
        kw["tokenizer"] = tokenizer
    if "markup" in case:
        try:
            plain = clean_text(case["markup"], case["steps"])
        except Exception:
            STATS["skipped_unclean_markup"] += 1
            return None
        if not isinstance(plain, str):
            STATS["skipped_unclean_markup"] += 1
            return None
        cits = get_citations(markup_text=case["markup"], clean_steps=case["steps"], remove_ambiguous=remove_ambiguous, **kw)
        return plain, cits
    return case["text"], get_citations(case["text"], remove_ambiguous=remove_ambiguous, **kw)


def _is_int(x):
    return isinstance(x, int) and not isinstance(x, bool)


def _cover(cits, prefix="cit:"):
    """coverage counters (how many citations of each kind the clauses were evaluated on)"""
    for c in cits:
        k = prefix + type(c).__name__
        STATS[k] = STATS.get(k, 0) + 1


# ------------------------------------------------------------------------------------------------
# C02  Reported offsets index the text they claim to index
# ------------------------------------------------------------------------------------------------
# kinds of citation for which a pin-cite *span* is captured (statement: "when a pin cite was captured
# for that kind of citation"): full case citations (pin_cite_span_start/end) and short/supra/id (the
# span end is extended over the pin cite).  WEAK: law / journal / reference citations record a pin-cite
# text but no pin-cite span, so pincite_text_inside is not demanded of them.
_PIN_KINDS = ("FullCaseCitation", "ShortCaseCitation", "SupraCitation", "IdCitation")


def _c02_on(text, cits, case, tok_name):
    out = []
    n = len(text)
    _cover(cits)
    for c in cits:
        fs, fe = c.full_span()
        s, e = c.span()
        ps, pe = c.span_with_pincite()
        d = dict(citation=_desc(c), text_len=n, tokenizer=tok_name)
        if not all(_is_int(v) for v in (fs, fe, s, e)) or not (0 <= fs <= s <= e <= fe <= n):
            out.append(_viol("bounds", case, **d))
        # span_covers_token: the slice at the span starts with the matched text
        # WEAK: only judged when the span start is a valid index (otherwise `bounds` reports it)
        if _is_int(s) and _is_int(e) and s >= 0:
            if not text[s : max(e, 0)].startswith(c.matched_text()):
                out.append(_viol("span_covers_token", case, span_text=_abbr(text[s : max(e, 0)]), **d))
        if not (_is_int(ps) and _is_int(pe) and ps <= s and e <= pe):
            out.append(_viol("pincite_span_contains_span", case, pincite_span=[ps, pe], **d))
        pin = getattr(c.metadata, "pin_cite", None)
        if pin and type(c).__name__ in _PIN_KINDS and _is_int(ps) and _is_int(pe):
            if pin not in text[max(ps, 0) : max(pe, 0)]:
                out.append(
                    _viol("pincite_text_inside", case, pincite_span=[ps, pe], pin_cite=pin, pincite_span_text=_abbr(text[max(ps, 0) : max(pe, 0)]), **d)
                )
    return out


def check_C02(case, tokenizers=("aho",)):
    case = _norm_case(case)
    out = []
    for name in tokenizers:
        tok = get_tokenizer(name)
        if tok is None:
            STATS["skipped_no_hyperscan"] += 1
            continue
        try:
            r = _extract(case, tokenizer=tok)
        except Exception:
            # WEAK: an extraction that raises returns no citation; totality is C04's clause, not C02's
            STATS["skipped_tokenizer_raise"] += 1
            continue
        if r is None:
            continue
        out.extend(_c02_on(r[0], r[1], case, name))
    return out


# ------------------------------------------------------------------------------------------------
# C03  document order, unique, non-overlapping; two-step merge flow
# ------------------------------------------------------------------------------------------------
def _order_clauses(cits, case, prefix="", **extra):
    out = []
    spans = [tuple(c.span()) for c in cits]
    for i in range(len(cits) - 1):
        # WEAK: "increasing order of their position" = span starts never decrease along the list
        # (strictness is the business of unique_spans / spans_disjoint)
        if spans[i][0] > spans[i + 1][0]:
            out.append(_viol(prefix + "ordered_by_span", case, first=_desc(cits[i]), second=_desc(cits[i + 1]), position=i, **extra))
            break
    seen = {}
    for i, sp in enumerate(spans):
        if sp in seen:
            out.append(_viol(prefix + "unique_spans", case, first=_desc(cits[seen[sp]]), second=_desc(cits[i]), **extra))
            break
        seen[sp] = i
    order = sorted(range(len(cits)), key=lambda i: spans[i])
    done = False
    for a in range(len(order)):
        if done:
            break
        i = order[a]
        for b in range(a + 1, len(order)):
            j = order[b]
            if spans[j][0] >= spans[i][1]:
                break
            # overlap = share at least one character; identical spans are unique_spans' business
            if spans[i] != spans[j] and max(spans[i][0], spans[j][0]) < min(spans[i][1], spans[j][1]):
                out.append(_viol(prefix + "spans_disjoint", case, first=_desc(cits[i]), second=_desc(cits[j]), **extra))
                done = True
                break
    return out


_NAME_RE = re.compile(r"[A-Z][A-Za-z'\-]{2,}")


def _resolved_name_candidates(text):
    """A few capitalised words of the text that pass the library's name rule (deterministic)."""
    words = []
    for m in _NAME_RE.finditer(text[:20000]):
        w = m.group(0)
        if w not in words and is_valid_name(w):
            words.append(w)
    if len(words) > 3:
        words = [words[0], words[len(words) // 2], words[-1]]
    return words


def _same_objects(a, b):
    return len(a) == len(b) and all(x is y for x, y in zip(a, b))


def check_C03(case, tokenizers=("aho",)):
    from eyecite.find import extract_reference_citations

    case = _norm_case(case)
    out = []
    for name in tokenizers:
        tok = get_tokenizer(name)
        if tok is None:
            continue
        try:
            r = _extract(case, tokenizer=tok)
        except Exception:
            STATS["skipped_tokenizer_raise"] += 1
            continue
        if r is None:
            continue
        text, cits = r
        cits = list(cits)
        _cover(cits)
        out.extend(_order_clauses(cits, case, tokenizer=name))

        # idempotence of the public filter on the returned list itself ("filtered once or repeatedly")
        again = filter_citations(list(cits))
        if not _same_objects(again, cits):
            out.append(_viol("idempotent", case, stage="result", before=[_desc(c) for c in cits][:8], after=[_desc(c) for c in again][:8], tokenizer=name))

        # the documented two-step flow: extend the result with reference citations extracted for any
        # full case citation (with and without a resolved case name), then filter_citations
        fulls = [c for c in cits if isinstance(c, M.FullCaseCitation)][:6]
        if not fulls:
            continue
        if "markup" in case:
            doc = M.Document(plain_text="", markup_text=case["markup"], clean_steps=case["steps"])
        else:
            doc = M.Document(plain_text=text, markup_text="", clean_steps=[])
        names_ = _resolved_name_candidates(text)
        extra = []
        history = []
        for k, f in enumerate(fulls):
            extra.extend(extract_reference_citations(f, doc))
            if names_:
                nm = names_[k % len(names_)]
                f.metadata.resolved_case_name_short = nm
                history.append([list(f.span()), nm])
                extra.extend(extract_reference_citations(f, doc))
        merged_in = cits + extra
        merged = filter_citations(list(merged_in))
        hist = dict(resolved_names=history, extra_references=len(extra), tokenizer=name)
        for c in cits:
            if not isinstance(c, M.ReferenceCitation) and not any(c is m for m in merged):
                shared = any(tuple(x.span()) == tuple(c.span()) for x in extra)
                out.append(_viol("keeps_non_references", case, lost=_desc(c), span_shared_with_added_reference=shared, merged=[_desc(m) for m in merged][:10], **hist))
                break
        out.extend(_order_clauses(merged, case, prefix="twostep_", **hist))
        twice = filter_citations(list(merged))
        if not _same_objects(twice, merged):
            out.append(_viol("idempotent", case, stage="two_step", before=[_desc(c) for c in merged][:10], after=[_desc(c) for c in twice][:10], **hist))
    return out


# ------------------------------------------------------------------------------------------------
# C04  never raises
# ------------------------------------------------------------------------------------------------
ANNOTATE_MODES = ("unchecked", "skip", "wrap")
_EXCLUDED = (MemoryError, RecursionError)  # DESIGN 2.2: resource exhaustion is outside the claim


def check_C04(case, tokenizers=TOKENIZER_NAMES):
    case = _norm_case(case)
    if "text" not in case:
        raise TypeError("C04 is stated for plain strings")
    text = case["text"]
    out = []
    for name in tokenizers:
        # NOTE: every configuration runs the real tokenizer afresh.  Re-using one tokenization for both
        # remove_ambiguous settings is NOT transparent: CitationBase.__post_init__ overwrites
        # token.groups["page"] with None for placeholder pages, and a second extraction over the same
        # token objects then raises in _extract_shortform_citation (observed; not reachable through the
        # public API, which tokenizes per call).
        tok = get_tokenizer(name)
        if tok is None:
            STATS["skipped_no_hyperscan"] += 1
            continue
        for ra in (False, True):
            cfg = dict(tokenizer=name, remove_ambiguous=ra)
            try:
                cits = get_citations(text, remove_ambiguous=ra, tokenizer=tok)
            except _EXCLUDED:
                continue
            except Exception as e:
                out.append(_viol("no_raise_extract", case, exception=type(e).__name__, message=_abbr(str(e)), **cfg))
                continue
            if not isinstance(cits, list):
                out.append(_viol("no_raise_extract", case, exception=None, message=f"returned {type(cits).__name__}, not a list", **cfg))
                continue
            try:
                res = resolve_citations(cits)
                if not hasattr(res, "keys"):
                    out.append(_viol("no_raise_resolve", case, exception=None, message=f"returned {type(res).__name__}, not a mapping", **cfg))
            except _EXCLUDED:
                pass
            except Exception as e:
                out.append(_viol("no_raise_resolve", case, exception=type(e).__name__, message=_abbr(str(e)), **cfg))
            for mode in ANNOTATE_MODES:
                try:
                    ann = annotate_citations(text, [(c.span(), "<a>", "</a>") for c in cits], unbalanced_tags=mode)
                    if not isinstance(ann, str):
                        out.append(_viol("no_raise_annotate", case, exception=None, message=f"returned {type(ann).__name__}", unbalanced_tags=mode, **cfg))
                except _EXCLUDED:
                    pass
                except Exception as e:
                    out.append(_viol("no_raise_annotate", case, exception=type(e).__name__, message=_abbr(str(e)), unbalanced_tags=mode, **cfg))
    return out


# ------------------------------------------------------------------------------------------------
# C12  the token stream partitions the text
# ------------------------------------------------------------------------------------------------
def check_C12(case, tokenizers=TOKENIZER_NAMES):
    case = _norm_case(case)
    if "text" not in case:
        raise TypeError("C12 is stated for plain strings")
    text = case["text"]
    out = []
    for name in tokenizers:
        tok = get_tokenizer(name)
        if tok is None:
            STATS["skipped_no_hyperscan"] += 1
            continue
        try:
            all_tokens, cit_tokens = tok.tokenize(text)
        except Exception:
            # WEAK: the statement speaks about "the returned tokens"; a raising tokenizer is C04's clause
            STATS["skipped_tokenizer_raise"] += 1
            continue
        cat = "".join(str(t) for t in all_tokens)
        if cat != text:
            i = next((k for k in range(min(len(cat), len(text))) if cat[k] != text[k]), min(len(cat), len(text)))
            out.append(_viol("concat_is_text", case, tokenizer=name, first_difference_at=i, concat=_abbr(cat), expected_len=len(text), got_len=len(cat)))
        specials = [(i, t) for i, t in enumerate(all_tokens) if not isinstance(t, str)]
        for i, t in specials:
            ok = _is_int(t.start) and _is_int(t.end) and 0 <= t.start <= t.end <= len(text) and text[t.start : t.end] == str(t)
            if not ok:
                out.append(_viol("token_offsets_index_text", case, tokenizer=name, token=_abbr(str(t)), kind=type(t).__name__, start=t.start, end=t.end, slice=_abbr(text[max(t.start, 0) : max(t.end, 0)])))
                break
        for (_, a), (_, b) in zip(specials, specials[1:]):
            if not (a.start <= a.end <= b.start <= b.end):
                out.append(_viol("tokens_increasing_disjoint", case, tokenizer=name, first=[_abbr(str(a)), a.start, a.end], second=[_abbr(str(b)), b.start, b.end]))
                break
        idx_ok = len(cit_tokens) == len(specials) and all(
            _is_int(p[0]) and p[0] == q[0] and p[1] is q[1] for p, q in zip(cit_tokens, specials)
        )
        if idx_ok:
            idx_ok = all(0 <= i < len(all_tokens) and all_tokens[i] is t for i, t in cit_tokens)
        if not idx_ok:
            out.append(
                _viol("index_list_exact", case, tokenizer=name, index_list=[(i, _abbr(str(t))) for i, t in cit_tokens][:12], special_positions=[(i, _abbr(str(t))) for i, t in specials][:12])
            )
    return out


# ------------------------------------------------------------------------------------------------
# C17  metadata is text taken from the citation's own extent
# ------------------------------------------------------------------------------------------------
_TEXT_FIELDS = ("pin_cite", "year", "plaintiff", "defendant", "antecedent_guess", "extra", "publisher", "month", "day", "volume")


def check_C17(case, tokenizers=("aho",)):
    case = _norm_case(case)
    out = []
    for name in tokenizers:
        tok = get_tokenizer(name)
        if tok is None:
            continue
        try:
            r = _extract(case, tokenizer=tok)
        except Exception:
            STATS["skipped_tokenizer_raise"] += 1
            continue
        if r is None:
            continue
        text, cits = r
        n = len(text)
        _cover(cits)
        # joint extent of the citations that start at the same place
        # WEAK: "citations that start at the same place" = equal full-span start among ALL returned citations
        joint_end = {}
        for c in cits:
            fs, fe = c.full_span()
            joint_end[fs] = max(joint_end.get(fs, fe), fe)
        for c in cits:
            fs, fe = c.full_span()
            # WEAK: an ill-formed span (negative / beyond the text) is C02's clause; here it is clamped
            lo, hi_own, hi_joint = max(fs, 0), min(max(fe, 0), n), min(max(joint_end[fs], 0), n)
            own, joint = text[lo:hi_own], text[lo:hi_joint]
            fields = list(_TEXT_FIELDS)
            if isinstance(c, M.FullCitation):
                fields.append("parenthetical")  # "the parenthetical of a full citation"
            for f in fields:
                v = getattr(c.metadata, f, None)
                if not isinstance(v, str) or v == "":
                    continue
                if v in own or v in joint:
                    continue
                out.append(
                    _viol("inside_full_span", case, field=f, value=_abbr(v), citation=_desc(c), full_span_text=_abbr(own), joint_extent_text=_abbr(joint), tokenizer=name, easter_egg=(text == "eyecite"))
                )
            if isinstance(c, M.FullCaseCitation):
                pl = c.metadata.plaintiff
                if isinstance(pl, str) and pl:
                    if fs < 0 or text[fs : fs + len(pl)] != pl:
                        out.append(_viol("plaintiff_at_full_span_start", case, plaintiff=_abbr(pl), citation=_desc(c), text_at_full_span_start=_abbr(text[max(fs, 0) : max(fs, 0) + len(pl) + 5]), tokenizer=name))
    return out


# ------------------------------------------------------------------------------------------------
# C18  year and edition guesses; remove_ambiguous only filters
# ------------------------------------------------------------------------------------------------
def _publishes_in(edition, year):
    """Independent of Edition.includes_year: the edition's start/end years bracket the year."""
    return (edition.start is None or edition.start.year <= year) and (edition.end is None or edition.end.year >= year)


def _ed(e):
    return None if e is None else [e.short_name, e.reporter.name, e.start.year if e.start else None, e.end.year if e.end else None]


def _sig(c):
    g = getattr(c, "groups", None)
    return (type(c).__name__, tuple(c.span()), tuple(sorted((str(k), v) for k, v in (g or {}).items())))


def check_C18(case, tokenizers=("aho",)):
    case = _norm_case(case)
    if "text" not in case:
        raise TypeError("C18 is stated for plain strings")
    text = case["text"]
    out = []
    hi = datetime.date.today().year + 1
    for name in tokenizers:
        tok = get_tokenizer(name)
        if tok is None:
            continue
        try:
            cits = get_citations(text, tokenizer=tok)
            amb = get_citations(text, remove_ambiguous=True, tokenizer=tok)
        except Exception:
            STATS["skipped_tokenizer_raise"] += 1
            continue
        words = None
        _cover(cits)
        for c in cits:
            if not isinstance(c, M.ResourceCitation):
                continue
            ncand = len(c.exact_editions) if c.exact_editions else len(c.variation_editions)
            key = "editions:" + ("1" if ncand == 1 else ("0" if ncand == 0 else "several")) + (":guessed" if c.edition_guess is not None else ":unguessed")
            STATS[key] = STATS.get(key, 0) + 1
            d = dict(citation=_desc(c), year=c.year, metadata_year=getattr(c.metadata, "year", None), tokenizer=name)
            if c.year is not None:
                my = getattr(c.metadata, "year", None)
                ok = _is_int(c.year) and 1600 <= c.year <= hi and isinstance(my, str) and len(my) >= 4 and my[:4].isdigit() and int(my[:4]) == c.year
                if not ok:
                    out.append(_viol("year_range_and_value", case, accepted=[1600, hi], **d))
            cands = tuple(c.exact_editions) if c.exact_editions else tuple(c.variation_editions)
            g = c.edition_guess
            d2 = dict(d, guess=_ed(g), candidates=[_ed(e) for e in cands][:8])
            if g is not None and not any(g == e for e in cands):
                out.append(_viol("edition_guess_member", case, **d2))
            if len(cands) == 1 and (g is None or g != cands[0]):
                out.append(_viol("edition_guess_single", case, **d2))
            if len(cands) > 1 and g is not None:
                # the year the guess was made with is the citation's OWN year; is_parallel_citation may
                # have replaced it afterwards.  Recover the own year by re-running the real per-token
                # extraction; if it differs from the reported year the year was inherited.
                own_year, inherited, recovered = c.year, False, True
                if isinstance(c, M.FullCaseCitation) and "text" in case:
                    try:
                        from eyecite.find import _extract_full_citation

                        if words is None:
                            words = tok.tokenize(text)[0]
                        fresh = _extract_full_citation(words, c.index)
                        own_year = fresh.year
                        inherited = (fresh.year, fresh.metadata.year) != (c.year, c.metadata.year)
                    except Exception:
                        recovered = False
                d3 = dict(d2, own_year=own_year, inherited_year=inherited)
                if recovered is False:
                    pass  # WEAK: cannot tell own from inherited year -> not judged
                elif not own_year:
                    # "when there are several [a guess] is made only with the help of a year"
                    out.append(_viol("edition_guess_unique_by_year", case, reason="several candidates, guess made without a year", **d3))
                elif not inherited:
                    # only for a citation whose year is its own (the statement exempts inherited years)
                    if not _publishes_in(g, own_year) or any(_publishes_in(e, own_year) for e in cands if e != g):
                        out.append(_viol("edition_guess_unique_by_year", case, reason="guess is not the only candidate publishing in the year", **d3))
        expected = [c for c in cits if not isinstance(c, M.ResourceCitation) or c.edition_guess is not None]
        if [_sig(c) for c in expected] != [_sig(c) for c in amb]:
            out.append(
                _viol("remove_ambiguous_only_filters", case, expected=[_desc(c) for c in expected][:10], got=[_desc(c) for c in amb][:10], tokenizer=name, easter_egg=(text == "eyecite"))
            )
    return out


# ------------------------------------------------------------------------------------------------
# C19  markup mode only adds well-founded reference citations
# ------------------------------------------------------------------------------------------------
def _full_sig(c):
    return {
        "type": type(c).__name__,
        "span": list(c.span()),
        "full_span": list(c.full_span()),
        "pincite_span": list(c.span_with_pincite()),
        "groups": dict(c.groups),
        "metadata": dict(c.metadata.__dict__),
        "year": getattr(c, "year", None),
        "edition_guess": _ed(getattr(c, "edition_guess", None)),
    }


def _ws(s):
    return " ".join(s.split())


def _reference_clauses(L, plain, case, mode):
    out = []
    fulls = [f for f in L if isinstance(f, M.FullCaseCitation)]
    n = len(plain)
    for r in L:
        if not isinstance(r, M.ReferenceCitation):
            continue
        fs, fe = r.full_span()
        s, e = r.span()
        d = dict(reference=_desc(r), mode=mode)
        if not all(_is_int(v) for v in (fs, s, e, fe)) or not (0 <= fs <= s <= e <= fe <= n):
            out.append(_viol("offsets_valid", case, text_len=n, **d))
            continue
        # WEAK: the reference does not record which full citation it derives from; it is enough that SOME
        # full case citation of the result ends at or before the reference starts ...
        before = [f for f in fulls if f.span()[1] <= s]
        if not before:
            out.append(_viol("reference_after_full", case, full_case_citations=[_desc(f) for f in fulls][:6], **d))
            continue
        # ... and that SOME such citation has a party / resolved name passing the validity rule which the
        # reference's own text contains (WEAK: compared modulo runs of whitespace as a fallback)
        span_text = plain[s:e]
        ok = False
        for f in before:
            for key in M.ReferenceCitation.name_fields:
                v = getattr(f.metadata, key, None)
                if v and is_valid_name(v) and (v in span_text or _ws(v) in _ws(span_text)):
                    ok = True
                    break
            if ok:
                break
        if not ok:
            out.append(
                _viol("reference_contains_valid_name", case, span_text=_abbr(span_text), names=[[getattr(f.metadata, k, None) for k in M.ReferenceCitation.name_fields] for f in before][:6], **d)
            )
    return out


def check_C19(case, tokenizers=("aho",)):
    case = _norm_case(case)
    if "markup" not in case:
        # a plain text is accepted and read as the markup document <p>escaped text</p>
        t = case["text"].replace("&", "&amp;").replace("<", "&lt;").replace(">", "&gt;")
        case = {"markup": f"<p>{t}</p>", "steps": ["html", "all_whitespace"]}
    out = []
    for name in tokenizers:
        tok = get_tokenizer(name)
        if tok is None:
            continue
        try:
            plain = clean_text(case["markup"], case["steps"])
        except Exception:
            STATS["skipped_unclean_markup"] += 1
            return out
        if not isinstance(plain, str):
            STATS["skipped_unclean_markup"] += 1
            return out
        try:
            A = get_citations(markup_text=case["markup"], clean_steps=case["steps"], tokenizer=tok)
            B = get_citations(plain, tokenizer=tok)
        except Exception as e:
            # not a C19 clause (C04 is stated for plain strings only); reported under its own name so it is not lost
            out.append(_viol("markup_extraction_raised", case, exception=type(e).__name__, message=_abbr(str(e)), tokenizer=name))
            continue
        _cover(A, "markup_mode:")
        plain_ref_spans = {tuple(c.span()) for c in B if isinstance(c, M.ReferenceCitation)}
        STATS["markup_mode:references_not_in_plain_mode"] = STATS.get("markup_mode:references_not_in_plain_mode", 0) + sum(
            1 for c in A if isinstance(c, M.ReferenceCitation) and tuple(c.span()) not in plain_ref_spans
        )
        a = [_full_sig(c) for c in A if not isinstance(c, M.ReferenceCitation)]
        b = [_full_sig(c) for c in B if not isinstance(c, M.ReferenceCitation)]
        if a != b:
            k = next((i for i in range(min(len(a), len(b))) if a[i] != b[i]), min(len(a), len(b)))
            diff = None
            if k < len(a) and k < len(b):
                diff = {key: [a[k][key], b[k][key]] for key in a[k] if a[k][key] != b[k][key]}
            out.append(
                _viol("non_interference", case, cleaned=_abbr(plain), markup_mode_count=len(a), plain_mode_count=len(b), first_difference_at=k, difference=_jsonable(diff), easter_egg=(plain == "eyecite"), tokenizer=name)
            )
        out.extend(_reference_clauses(A, plain, case, "markup"))
        out.extend(_reference_clauses(B, plain, case, "plain"))
    return out


def _jsonable(x):
    if isinstance(x, dict):
        return {str(k): _jsonable(v) for k, v in x.items()}
    if isinstance(x, (list, tuple)):
        return [_jsonable(v) for v in x]
    if isinstance(x, (str, int, float, bool)) or x is None:
        return _abbr(x)
    return repr(x)


CHECKERS = {"C02": check_C02, "C03": check_C03, "C04": check_C04, "C12": check_C12, "C17": check_C17, "C18": check_C18, "C19": check_C19}
# which kind of case each property is run on by run.py:  "plain", "markup", or "both"
CASE_KIND = {"C02": "both", "C03": "both", "C04": "plain", "C12": "plain", "C17": "plain", "C18": "plain", "C19": "markup"}
# default tokenizers (quick); "all" selects TOKENIZER_NAMES
DEFAULT_TOKENIZERS = {"C02": ("aho",), "C03": ("aho",), "C04": TOKENIZER_NAMES, "C12": TOKENIZER_NAMES, "C17": ("aho",), "C18": ("aho",), "C19": ("aho",)}
CLAUSES = {
    "C02": ["bounds", "span_covers_token", "pincite_span_contains_span", "pincite_text_inside"],
    "C03": ["ordered_by_span", "spans_disjoint", "unique_spans", "keeps_non_references", "idempotent", "twostep_ordered_by_span", "twostep_spans_disjoint", "twostep_unique_spans"],
    "C04": ["no_raise_extract", "no_raise_resolve", "no_raise_annotate"],
    "C12": ["concat_is_text", "token_offsets_index_text", "tokens_increasing_disjoint", "index_list_exact"],
    "C17": ["inside_full_span", "plaintiff_at_full_span_start"],
    "C18": ["year_range_and_value", "edition_guess_member", "edition_guess_single", "edition_guess_unique_by_year", "remove_ambiguous_only_filters"],
    "C19": ["non_interference", "reference_after_full", "reference_contains_valid_name", "offsets_valid", "markup_extraction_raised"],
}
