#!/venv/bin/python
"""Bounded stand-in / replay checkers for C06 C07 C08 C09 C10 C11 C16 C20.

Executable, concrete readings of the property clauses of /verif/properties.jsonl, run against the REAL eyecite
code (the copy named by env EYECITE_REPO if set, else whatever `import eyecite` finds -- /repo).  Never a proof:
every result carries a `bound` string saying what was enumerated exhaustively and what was sampled.

Public surface
  check_C06(case) ... check_C20(case)  -> list of violation dicts {"clause", "input", "detail"}
        `case` is the JSON-serialisable description of ONE input (the same object that is stored as
        violation["input"], so a stored witness can be re-run verbatim).  Case formats are documented at each
        check_* function.
  run_property(pid, seed, n, focus=None, budget_s=50.0, hints=None) -> result dict (see run_b.py)

Reading rule: a clause is implemented as the WEAKEST sensible reading of the statement (a stricter checker is a
false alarm).  Where the text admits a stricter reading that the code does not satisfy, the stricter reading is
reported under result["observations"], never as a violation.
"""
from __future__ import annotations

import os
import sys

_REPO_OVERRIDE = os.environ.get("EYECITE_REPO")
if _REPO_OVERRIDE:
    sys.path.insert(0, _REPO_OVERRIDE)

import itertools
import json
import logging
import random
import re
import time
from bisect import bisect_left, bisect_right
from typing import Any, Callable, Dict, Iterable, List, Optional, Sequence, Tuple

import eyecite  # noqa: E402
from eyecite import annotate_citations, clean_text, get_citations, resolve_citations  # noqa: E402
from eyecite.models import (  # noqa: E402
    CaseCitation,
    FullCaseCitation,
    FullCitation,
    FullJournalCitation,
    FullLawCitation,
    IdCitation,
    ReferenceCitation,
    Resource,
    ShortCaseCitation,
    SupraCitation,
    UnknownCitation,
)
from eyecite import test_factories as F  # noqa: E402
from eyecite.utils import strip_punct  # noqa: E402

logging.getLogger("eyecite").setLevel(logging.CRITICAL)   # "Unknown overlap case" etc. are not our subject
for _n in ("eyecite.find", "eyecite.annotate", "eyecite.helpers", "eyecite.resolve"):
    logging.getLogger(_n).setLevel(logging.CRITICAL)

VERIF = os.path.dirname(os.path.dirname(os.path.abspath(__file__)))
EYECITE_FILE = getattr(eyecite, "__file__", None)

MAX_STORED = 400          # violations kept in memory per run (the 10 smallest are reported)


# =====================================================================================================
# bookkeeping
# =====================================================================================================

def viol(clause: str, inp: Any, **detail: Any) -> Dict[str, Any]:
    return {"clause": clause, "input": inp, "detail": detail}


def _size(x: Any) -> int:
    try:
        return len(json.dumps(x, default=str))
    except Exception:
        return 10 ** 9


class Collector:
    """Accumulates evaluations / violations of one run."""

    def __init__(self, budget_s: float):
        self.t0 = time.time()
        self.budget_s = budget_s
        self.evaluations = 0
        self.distinct = 0
        self._seen: set = set()
        self.violations: List[Dict[str, Any]] = []
        self.counts: Dict[str, int] = {}
        self.observations: Dict[str, Dict[str, Any]] = {}
        self.bound_parts: List[str] = []
        self.exhaustive = True

    def elapsed(self) -> float:
        return time.time() - self.t0

    def left(self) -> float:
        return self.budget_s - self.elapsed()

    def count_case(self, key: Any = None) -> None:
        """one evaluated input; `key` (hashable) is used to count distinct inputs; None = distinct by construction"""
        self.evaluations += 1
        if key is None:
            self.distinct += 1
        else:
            h = hash(key)
            if h not in self._seen:
                self._seen.add(h)
                self.distinct += 1

    def add(self, vs: Iterable[Dict[str, Any]]) -> None:
        for v in vs:
            c = v["clause"]
            self.counts[c] = self.counts.get(c, 0) + 1
            if len(self.violations) < MAX_STORED or self.counts[c] <= 3:
                self.violations.append(v)

    def observe(self, name: str, example: Any, what: str) -> None:
        o = self.observations.setdefault(name, {"count": 0, "what": what, "example": example})
        o["count"] += 1

    def result(self, pid: str, seed: int) -> Dict[str, Any]:
        # smallest witnesses first, but at least one per clause among the 10 reported
        ordered = sorted(self.violations, key=lambda v: _size(v.get("input")))
        first: List[Dict[str, Any]] = []
        seen_clause = set()
        for v in ordered:
            if v["clause"] not in seen_clause:
                seen_clause.add(v["clause"])
                first.append(v)
        for v in ordered:
            if len(first) >= 10:
                break
            if v not in first:
                first.append(v)
        first = first[:10]
        return {
            "property": pid,
            "evaluations": self.evaluations,
            "distinct": self.distinct,
            "violations": first,
            "violation_counts": dict(sorted(self.counts.items())),
            "observations": self.observations,
            "bound": "; ".join(self.bound_parts),
            "exhaustive": bool(self.exhaustive),
            "seed": seed,
            "seconds": round(self.elapsed(), 2),
            "eyecite": EYECITE_FILE,
        }


# =====================================================================================================
# C06 / C07 / C08 -- resolution
# =====================================================================================================
#
# Abstract alphabet.  A letter is a JSON "spec" from which a FRESH real citation object is built with the
# eyecite.test_factories constructors every time it is used (the same letter twice in a sequence = two distinct
# objects; equal hash exactly where the letter says so, e.g. A / A2).
#
#   A      Foo v. Smith,      1 U.S. 100
#   A2     equal to A (same volume/reporter/page), different pin cite / year  -> same resource as A
#   B      Bar v. Smithson,   1 U.S. 200  (same reporter+volume as A), parenthetical 'Foo' (a NON-name field that
#                                           reads like A's plaintiff: a reference 'Foo' must not attach to B)
#   P      Pla v. Smith,      1 U.S. ___  (placeholder page -> page None, identity hash)
#   LAW    Mass. Gen. Laws ch. 1, § 2  (parenthetical 'Foo'),   J  1 Minn. L. Rev. 1,   JP  1 Minn. L. Rev. ___
#   short_plain   1 U.S., at 105 (no antecedent): unique when only A/A2 precede, ambiguous once B or P precede
#   short_ante    Foo, 1 U.S., at 105: antecedent names A's plaintiff
#   short_foreign 5 F.2d, at 7: no candidate ever;   short_var: 1 U. S., at 105 written with a variation
#   supra_known 'Foo' / supra_unknown 'Zed' / supra_ambig 'Smith' (contained in Smith, Smithson)
#   ref_A (plaintiff 'Foo') / ref_ambig (defendant 'Smith': A and P) / ref_none (no names)
#   id_valid 'at 105' / id_before 'at 50' / id_far 'at 400' / id_251 / id_250 / id_nonnum 'at ¶ 5' / id_nopin
#   unknown  §
#   HUGE   2 U.S. <5000 digits>   ROMAN  3 U.S. xii

LETTERS: Dict[str, Dict[str, Any]] = {
    "A": {"t": "case", "volume": "1", "reporter": "U.S.", "page": "100",
          "metadata": {"plaintiff": "Foo", "defendant": "Smith"}},
    "A2": {"t": "case", "volume": "1", "reporter": "U.S.", "page": "100",
           "metadata": {"plaintiff": "Foo", "defendant": "Smith", "pin_cite": "102", "year": "1999"}},
    "B": {"t": "case", "volume": "1", "reporter": "U.S.", "page": "200",
          "metadata": {"plaintiff": "Bar", "defendant": "Smithson", "parenthetical": "Foo"}},
    "P": {"t": "case", "volume": "1", "reporter": "U.S.", "page": "___",
          "metadata": {"plaintiff": "Pla", "defendant": "Smith"}},
    "LAW": {"t": "law", "source_text": "Mass. Gen. Laws ch. 1, § 2", "reporter": "Mass. Gen. Laws",
            "groups": {"chapter": "1", "section": "2"}, "metadata": {"parenthetical": "Foo"}},
    "J": {"t": "journal", "volume": "1", "reporter": "Minn. L. Rev.", "page": "1"},
    "JP": {"t": "journal", "volume": "1", "reporter": "Minn. L. Rev.", "page": "___"},
    "short_plain": {"t": "short", "volume": "1", "reporter": "U.S.", "page": "105"},
    "short_ante": {"t": "short", "volume": "1", "reporter": "U.S.", "page": "105",
                   "metadata": {"antecedent_guess": "Foo"}},
    "short_foreign": {"t": "short", "volume": "5", "reporter": "F.2d", "page": "7"},
    "short_var": {"t": "short", "volume": "1", "reporter": "U.S.", "reporter_found": "U. S.", "page": "105"},
    "supra_known": {"t": "supra", "metadata": {"antecedent_guess": "Foo"}},
    "supra_unknown": {"t": "supra", "metadata": {"antecedent_guess": "Zed"}},
    "supra_ambig": {"t": "supra", "metadata": {"antecedent_guess": "Smith"}},
    "ref_A": {"t": "ref", "metadata": {"plaintiff": "Foo"}},
    "ref_ambig": {"t": "ref", "metadata": {"defendant": "Smith"}},
    "ref_none": {"t": "ref", "metadata": {}},
    "id_valid": {"t": "id", "metadata": {"pin_cite": "at 105"}},
    "id_before": {"t": "id", "metadata": {"pin_cite": "at 50"}},
    "id_far": {"t": "id", "metadata": {"pin_cite": "at 400"}},
    "id_250": {"t": "id", "metadata": {"pin_cite": "at 250"}},
    "id_251": {"t": "id", "metadata": {"pin_cite": "251"}},
    "id_nonnum": {"t": "id", "metadata": {"pin_cite": "at ¶ 5"}},
    "id_nopin": {"t": "id", "metadata": {}},
    "unknown": {"t": "unknown"},
    "HUGE": {"t": "case", "volume": "2", "reporter": "U.S.", "page": "1" * 5000,
             "metadata": {"plaintiff": "Huge", "defendant": "Page"}},
    "ROMAN": {"t": "case", "volume": "3", "reporter": "U.S.", "page": "xii",
              "metadata": {"plaintiff": "Roman", "defendant": "Page"}},
}

CORE = ["A", "B", "A2", "P", "LAW", "short_plain", "short_ante", "supra_known", "supra_ambig",
        "ref_A", "ref_ambig", "id_valid", "id_far", "id_nopin", "unknown"]
EXT = CORE + ["J", "JP", "short_foreign", "short_var", "supra_unknown", "ref_none", "id_before", "id_250",
              "id_251", "id_nonnum", "HUGE", "ROMAN"]
FULLS = ["A", "B", "A2", "P", "LAW", "J", "JP", "HUGE", "ROMAN"]

FOCUS_ALPHABETS: List[Tuple[Tuple[str, ...], List[str]]] = [
    (("_has_invalid_pin_cite", "_resolve_id_citation"),
     FULLS + ["id_valid", "id_before", "id_far", "id_250", "id_251", "id_nonnum", "id_nopin", "unknown"]),
    (("_resolve_shortcase_citation", "_filter_by_matching_antecedent"),
     ["A", "B", "A2", "P", "LAW", "J", "short_plain", "short_ante", "short_foreign", "short_var",
      "supra_known", "supra_unknown", "supra_ambig", "id_nopin"]),
    (("_resolve_supra_citation",),
     ["A", "B", "A2", "P", "LAW", "ROMAN", "supra_known", "supra_unknown", "supra_ambig", "id_nopin", "unknown"]),
    (("_resolve_reference_citation", "_filter_by_matching_plaintiff_or_defendant_or_resolved_names"),
     ["A", "B", "A2", "P", "LAW", "J", "ref_A", "ref_ambig", "ref_none", "id_nopin", "unknown"]),
]


def make(spec: Any) -> Any:
    """Build a fresh real citation object from a letter name or a spec dict."""
    if isinstance(spec, str):
        spec = LETTERS[spec]
    s = json.loads(json.dumps(spec))          # deep copy: the factories mutate the dicts they are given
    t = s.pop("t")
    if t in ("case", "short"):
        return F.case_citation(short=(t == "short"), **s)
    if t == "law":
        return F.law_citation(**s)
    if t == "journal":
        return F.journal_citation(**s)
    if t == "supra":
        return F.supra_citation(s.pop("source_text", "supra"), **s)
    if t == "ref":
        return F.reference_citation(s.pop("source_text", "Foo at 1"), **s)
    if t == "id":
        return F.id_citation(s.pop("source_text", "Id."), **s)
    if t == "unknown":
        return F.unknown_citation(s.pop("source_text", "§"), **s)
    raise ValueError(f"unknown letter type {t!r}")


def describe(c: Any) -> str:
    try:
        md = {k: v for k, v in c.metadata.__dict__.items() if v is not None}
        g = dict(c.groups)
        if isinstance(g.get("page"), str) and len(g["page"]) > 40:
            g["page"] = g["page"][:10] + f"...({len(g['page'])} chars)"
        return f"{type(c).__name__}({c.matched_text()[:60]!r}, groups={g}, metadata={md})"
    except Exception as e:  # pragma: no cover
        return f"{type(c).__name__}(<{type(e).__name__}>)"


# ----------------------------------------------------------------------------------------------------
# facts read off an output of resolve_citations
# ----------------------------------------------------------------------------------------------------

class Facts:
    """Where every input citation ended up, by identity and index."""

    def __init__(self, cits: Sequence[Any], res: Any):
        self.cits = cits
        self.lists: List[Tuple[Any, List[Any]]] = [(k, v) for k, v in res.items()]
        idx_of = {}
        for i, c in enumerate(cits):
            idx_of.setdefault(id(c), i)
        self.where: Dict[int, List[Tuple[int, int]]] = {}
        self.invented: List[Tuple[int, int]] = []
        self.src: List[List[Optional[int]]] = []
        for li, (_k, members) in enumerate(self.lists):
            row: List[Optional[int]] = []
            for pos, m in enumerate(members):
                i = idx_of.get(id(m))
                row.append(i)
                if i is None:
                    self.invented.append((li, pos))
                else:
                    self.where.setdefault(i, []).append((li, pos))
            self.src.append(row)

    def list_of(self, i: int) -> Optional[int]:
        w = self.where.get(i)
        return w[0][0] if w else None


def _is_full(c: Any) -> bool:
    return isinstance(c, FullCitation)


# ----------------------------------------------------------------------------------------------------
# C06 clauses
# ----------------------------------------------------------------------------------------------------

def _case_key_from_statement(c: Any) -> Optional[Tuple[Any, ...]]:
    """(volume, normalised reporter, page) of a case citation, None for a placeholder page.
    Written from the statement of C06/C16: 'same normalised volume, reporter and page, and not a placeholder page'."""
    page = c.groups.get("page")
    if page is None:
        return None
    return (c.groups.get("volume"), c.corrected_reporter(), page)


def clauses_C06(cits: Sequence[Any], res: Any, inp: Any) -> List[Dict[str, Any]]:
    out: List[Dict[str, Any]] = []
    f = Facts(cits, res)
    # values_are_disjoint_subsequences: same objects, input order, nothing invented, nothing repeated (by index)
    if f.invented:
        out.append(viol("values_are_disjoint_subsequences", inp, why="member is not an input object",
                        at=f.invented[:3]))
    for li, row in enumerate(f.src):
        known = [i for i in row if i is not None]
        if any(a >= b for a, b in zip(known, known[1:])):
            out.append(viol("values_are_disjoint_subsequences", inp, why="members not in strictly increasing input order",
                            list_index=li, input_indices=row))
            break
    rep = {i: w for i, w in f.where.items() if len(w) > 1}
    if rep:
        out.append(viol("values_are_disjoint_subsequences", inp, why="an input citation occurs more than once in the values",
                        occurrences={str(i): w for i, w in list(rep.items())[:3]}))
    # first_is_full
    for li, (_k, members) in enumerate(f.lists):
        if len(members) == 0 or not _is_full(members[0]):
            out.append(viol("first_is_full", inp, list_index=li,
                            first=(describe(members[0]) if members else None)))
            break
    # every_full_exactly_once
    for i, c in enumerate(cits):
        if _is_full(c) and len(f.where.get(i, [])) != 1:
            out.append(viol("every_full_exactly_once", inp, index=i, citation=describe(c),
                            occurrences=f.where.get(i, [])))
            break
    # share_iff_equal
    fulls = [i for i, c in enumerate(cits) if _is_full(c) and len(f.where.get(i, [])) == 1]
    done = False
    for a, b in itertools.combinations(fulls, 2):
        ca, cb = cits[a], cits[b]
        share = f.list_of(a) == f.list_of(b)
        eq = bool(ca == cb)
        if share != eq:
            out.append(viol("share_iff_equal", inp, why="share a resource != compare equal", i=a, j=b, share=share, equal=eq))
            done = True
        elif isinstance(ca, FullCaseCitation) and isinstance(cb, FullCaseCitation):
            # what 'equal' means for case citations, from the statement; other kinds: the code's == is taken as is
            ka, kb = _case_key_from_statement(ca), _case_key_from_statement(cb)
            eq_stmt = ka is not None and kb is not None and ka == kb and type(ca) is type(cb)
            if eq_stmt != share:
                out.append(viol("share_iff_equal", inp, why="share a resource != same normalised volume/reporter/page (non-placeholder)",
                                i=a, j=b, share=share, statement_equal=eq_stmt))
                done = True
        if done:
            break
    # unknown_never_appears
    for li, (_k, members) in enumerate(f.lists):
        if any(isinstance(m, UnknownCitation) for m in members):
            out.append(viol("unknown_never_appears", inp, list_index=li))
            break
    return out


# ----------------------------------------------------------------------------------------------------
# C07 reference model
# ----------------------------------------------------------------------------------------------------

def _names_contain(full: Any, ag: str) -> bool:
    md = full.metadata
    d = getattr(md, "defendant", None)
    p = getattr(md, "plaintiff", None)
    return bool((d and ag in d) or (p and ag in p))


NAME_FIELDS = ("plaintiff", "defendant", "resolved_case_name_short", "resolved_case_name")


def _names_match(full: Any, ref: Any) -> bool:
    """'party (or resolved) names match': some name of the reference equals some name of the case (both non-empty)."""
    rv = {v for k in NAME_FIELDS if (v := getattr(ref.metadata, k, None))}
    fv = {v for k in NAME_FIELDS if (v := getattr(full.metadata, k, None))}
    return bool(rv & fv)


def _classes(cits: Sequence[Any]) -> Dict[int, int]:
    """resource class of every full citation: index of the earliest full citation equal (==) to it"""
    cls: Dict[int, int] = {}
    reps: List[int] = []
    for i, c in enumerate(cits):
        if not _is_full(c):
            continue
        for r in reps:
            if cits[r] == c:
                cls[i] = r
                break
        else:
            cls[i] = i
            reps.append(i)
    return cls


def _pin_number(pin: str) -> Optional[int]:
    """the number an id. pin cite starts with (optionally after 'at '), None if it is non-numeric"""
    s = pin[3:] if pin.startswith("at ") else pin
    n = 0
    while n < len(s) and s[n].isdecimal():
        n += 1
    if n == 0:
        return None
    old = sys.get_int_max_str_digits() if hasattr(sys, "get_int_max_str_digits") else None
    try:
        if old is not None:
            sys.set_int_max_str_digits(0)
        return int(s[:n])
    finally:
        if old is not None:
            sys.set_int_max_str_digits(old)


INT_DIGIT_LIMIT = 4300   # CPython's default int<->str digit limit


def _page_number(page: Any) -> Optional[int]:
    """the first page as a number; None when there is no decimal page number that int() can read (weak reading,
    the same as contracts/resolve.py NUMERIC: a page of more than 4300 digits gives 'nothing to compare against')"""
    if not isinstance(page, str) or not page or not page.isdecimal() or len(page) > INT_DIGIT_LIMIT:
        return None
    old = sys.get_int_max_str_digits() if hasattr(sys, "get_int_max_str_digits") else None
    try:
        if old is not None:
            sys.set_int_max_str_digits(0)
        return int(page)
    finally:
        if old is not None:
            sys.set_int_max_str_digits(old)


FAR = 150   # 'implausibly far beyond it': eyecite.resolve.MAX_OPINION_PAGE_COUNT (anchor of C07); > page + 150 is far


def allowed_attachments(cits: Sequence[Any], i: int, cls: Dict[int, int]) -> Tuple[Optional[set], Dict[str, Any]]:
    """The set of resource classes the statement allows citation i (short / supra / reference) to be attached to
    (empty set = must stay unresolved).  None for kinds the clause does not speak about."""
    c = cits[i]
    hist = [j for j in range(i) if _is_full(cits[j])]
    info: Dict[str, Any] = {}
    if isinstance(c, ShortCaseCitation):
        cand = [j for j in hist if isinstance(cits[j], FullCaseCitation)
                and cits[j].corrected_reporter() == c.corrected_reporter()
                and cits[j].groups.get("volume") == c.groups.get("volume")]
        rc = {cls[j] for j in cand}
        allowed = set()
        if len(rc) == 1:
            allowed |= rc
        ag = c.metadata.antecedent_guess
        ra: set = set()
        if ag:
            sag = strip_punct(ag)
            ra = {cls[j] for j in cand if _names_contain(cits[j], sag)}
            if len(ra) == 1:
                allowed |= ra
        info.update(candidates=sorted(rc), by_antecedent=sorted(ra))
        return allowed, info
    if isinstance(c, SupraCitation):
        ag = c.metadata.antecedent_guess
        if not ag:
            return set(), info
        sag = strip_punct(ag)
        rm = {cls[j] for j in hist if isinstance(cits[j], FullCaseCitation) and _names_contain(cits[j], sag)}
        info.update(matches=sorted(rm))
        return (rm if len(rm) == 1 else set()), info
    if isinstance(c, ReferenceCitation):
        rm = {cls[j] for j in hist if isinstance(cits[j], FullCaseCitation) and _names_match(cits[j], c)}
        info.update(matches=sorted(rm))
        return (rm if len(rm) == 1 else set()), info
    return None, info


def clauses_C07(cits: Sequence[Any], res: Any, inp: Any, obs: Optional[Callable[..., None]] = None) -> List[Dict[str, Any]]:
    out: List[Dict[str, Any]] = []
    f = Facts(cits, res)
    cls = _classes(cits)

    def attached_class(i: int) -> Optional[int]:
        """resource class (index of its earliest full citation) citation i is listed under, by the first full member"""
        li = f.list_of(i)
        if li is None:
            return None
        for m in f.src[li]:
            if m is not None and _is_full(cits[m]):
                return cls[m]
        return -1          # a list without any full member (C06 reports that); cannot be an allowed attachment

    for i, c in enumerate(cits):
        if _is_full(c):
            continue
        got = attached_class(i)
        allowed, info = allowed_attachments(cits, i, cls)
        if allowed is not None:
            if got is not None and got not in allowed:
                # attached => attached to THE unique match (fires for a non-matching case, for one of several
                # matches and when nothing matches); the second clause is the contrapositive half of the statement
                # ("no candidate, or two or more distinct candidates => left unresolved") and fires in addition
                # when there is no unique match at all
                out.append(viol("attached_only_if_unique_match", inp, index=i, citation=describe(c),
                                attached_to_full_index=got, allowed_full_indices=sorted(allowed), model=info))
                if not allowed:
                    out.append(viol("unresolved_when_none_or_many", inp, index=i, citation=describe(c),
                                    attached_to_full_index=got, model=info))
        elif isinstance(c, IdCitation):
            if got is None:
                continue
            prev = f.list_of(i - 1) if i > 0 else None
            if prev is None:
                out.append(viol("id_unresolved_when_prev_unresolved", inp, index=i, citation=describe(c),
                                attached_to_full_index=got))
                continue
            if prev != f.list_of(i):
                out.append(viol("id_only_predecessor", inp, index=i, citation=describe(c),
                                attached_to_full_index=got, predecessor_full_index=attached_class(i - 1)))
                continue
            if got < 0:
                continue
            ante = cits[got]
            page = ante.groups.get("page")
            pin = c.metadata.pin_cite
            why = None
            if type(ante) is FullCaseCitation and page is None:
                # weak reading: 'the antecedent has a placeholder page' for case citations (docstring of
                # _has_invalid_pin_cite: "known missing page"); journal/law placeholders -> observation only
                why = "antecedent has a placeholder page"
            elif pin:
                p = _page_number(page)
                if p is not None:
                    q = _pin_number(pin)
                    if q is None:
                        why = "pin cite is non-numeric"
                    elif q < p:
                        why = "pin cite lies before the first page"
                    elif q > p + FAR:
                        why = f"pin cite lies more than {FAR} pages beyond the first page"
            if why:
                out.append(viol("id_placeholder_or_bad_pin_unresolved", inp, index=i, citation=describe(c),
                                antecedent=describe(ante), why=why))
            elif obs is not None and page is None and not isinstance(ante, FullCaseCitation) and "page" in ante.groups:
                obs("id_after_non_case_placeholder_page", inp,
                    "stricter reading of C07 ('unresolved when the antecedent has a placeholder page' for ANY kind of "
                    "antecedent): an id. citation is attached to a journal/law citation whose page is a placeholder")
        else:
            # unknown citations and anything else: C06.unknown_never_appears covers them
            pass
    return out


# ----------------------------------------------------------------------------------------------------
# C08 clauses
# ----------------------------------------------------------------------------------------------------

def _restrict(cits: Sequence[Any], res: Any, k: int) -> List[Tuple[Any, List[Any]]]:
    """restriction of a resolution of `cits` to the first k input citations (keys whose restriction is empty vanish)"""
    pref = {id(c) for c in cits[:k]}
    out = []
    for key, members in res.items():
        ms = [m for m in members if id(m) in pref]
        if ms:
            out.append((key, ms))
    return out


def prefix_violation(cits: Sequence[Any], res_whole: Any, res_prefix: Any, k: int, inp: Any) -> List[Dict[str, Any]]:
    """resolve(cits[:k]) must be the restriction of resolve(cits) to cits[:k]: same resources (by equality),
    same members (by identity) in the same order.  Order AMONG resources is not compared (weaker reading)."""
    restricted = _restrict(cits, res_whole, k)
    pl = [(key, list(ms)) for key, ms in res_prefix.items()]
    problem = None
    if len(restricted) != len(pl):
        problem = f"{len(pl)} resources for the prefix, {len(restricted)} non-empty restricted resources"
    else:
        for key, ms in pl:
            hit = [rm for rk, rm in restricted if rk == key]
            if len(hit) != 1:
                problem = "a resource of the prefix resolution has no (or no unique) equal resource in the whole resolution"
                break
            if len(hit[0]) != len(ms) or any(a is not b for a, b in zip(hit[0], ms)):
                problem = "members differ"
                break
    if problem:
        idx = {id(c): i for i, c in enumerate(cits)}
        return [viol("prefix_stability", inp, k=k, why=problem,
                     prefix_groups=[[idx.get(id(m)) for m in ms] for _k, ms in pl],
                     whole_groups_restricted=[[idx.get(id(m)) for m in ms] for _k, ms in restricted])]
    return []


def clauses_C08_causal(cits: Sequence[Any], res: Any, inp: Any) -> List[Dict[str, Any]]:
    f = Facts(cits, res)
    for li, row in enumerate(f.src):
        if not row:
            continue
        first = row[0]
        for i in row:
            if i is None or _is_full(cits[i]):
                continue
            if first is None or not _is_full(cits[first]) or not first < i:
                return [viol("causal", inp, index=i, citation=describe(cits[i]), first_member_index=first,
                             why="grouped under a resource whose first member is not an earlier full citation")]
    return []


# ----------------------------------------------------------------------------------------------------
# one citation list against the clauses of one property
# ----------------------------------------------------------------------------------------------------

def check_list(pid: str, cits: List[Any], inp: Any, parent_res: Any = "compute",
               obs: Optional[Callable[..., None]] = None) -> Tuple[List[Dict[str, Any]], Any]:
    """Resolve `cits` with the default resolvers and evaluate the clauses of `pid`.
    parent_res: for C08, the resolution of cits[:-1] (then only the last cut point is compared -- used by the
    depth-first enumeration, where every shorter prefix was compared at its own node), or "compute" to resolve
    every prefix here.  Returns (violations, resolution or None if it raised)."""
    try:
        res = resolve_citations(cits)
    except Exception as e:  # a raise is recorded as a violation of whichever property was being checked
        return [viol(f"raised:{type(e).__name__}", inp, message=str(e)[:200], where=_tb_where(e))], None
    out: List[Dict[str, Any]] = []
    try:
        if pid == "C06":
            out = clauses_C06(cits, res, inp)
        elif pid == "C07":
            out = clauses_C07(cits, res, inp, obs)
        elif pid == "C08":
            out = clauses_C08_causal(cits, res, inp)
            if parent_res == "compute":
                for k in range(len(cits)):
                    try:
                        rp = resolve_citations(cits[:k])
                    except Exception as e:
                        out.append(viol(f"raised:{type(e).__name__}", inp, k=k, message=str(e)[:200]))
                        continue
                    out += prefix_violation(cits, res, rp, k, inp)
            elif parent_res is not None:
                out += prefix_violation(cits, res, parent_res, len(cits) - 1, inp)
    except Exception as e:
        # the clauses call real methods (==, corrected_reporter); a raise there is the code's, not the checker's
        out.append(viol(f"raised:{type(e).__name__}", inp, message=str(e)[:200], where=_tb_where(e), during="clause evaluation"))
    return out, res


def _tb_where(e: BaseException) -> str:
    tb = e.__traceback__
    last = None
    while tb is not None:
        last = tb
        tb = tb.tb_next
    if last is None:
        return ""
    return f"{os.path.basename(last.tb_frame.f_code.co_filename)}:{last.tb_frame.f_code.co_name}:{last.tb_lineno}"


def _case_to_list(case: Dict[str, Any]) -> List[Any]:
    if isinstance(case, str):
        case = {"kind": "text", "text": case}
    if case.get("kind") == "text" or ("text" in case and "seq" not in case):
        return list(get_citations(case["text"]))
    return [make(s) for s in case["seq"]]


def _check_resolution_case(pid: str, case: Any) -> List[Dict[str, Any]]:
    try:
        cits = _case_to_list(case)
    except Exception as e:
        return [viol(f"raised:{type(e).__name__}", case, message=str(e)[:200], where=_tb_where(e), during="building the citation list")]
    return check_list(pid, cits, case)[0]


def check_C06(case: Any) -> List[Dict[str, Any]]:
    """case: {"kind":"letters","seq":[letter name or spec dict,...]} or {"kind":"text","text": str} (or a bare str:
    the text is run through get_citations and the extracted list is resolved)."""
    return _check_resolution_case("C06", case)


def check_C07(case: Any) -> List[Dict[str, Any]]:
    """case: as check_C06"""
    return _check_resolution_case("C07", case)


def check_C08(case: Any) -> List[Dict[str, Any]]:
    """case: as check_C06; every prefix of the list is resolved and compared"""
    return _check_resolution_case("C08", case)


# ----------------------------------------------------------------------------------------------------
# enumeration
# ----------------------------------------------------------------------------------------------------

def _dfs(pid: str, col: Collector, alphabet: List[Any], names: List[Any], max_len: int, deadline: float,
         skip_complete_below: int = 0) -> bool:
    """All sequences of length 1..max_len over `alphabet`, depth first, one fresh object per node (a sequence
    shares objects only with its own prefixes).  Returns False if the deadline cut the enumeration short."""
    complete = True
    obs = col.observe

    def rec(cits: List[Any], seq: List[Any], res: Any) -> bool:
        nonlocal complete
        for spec, name in zip(alphabet, names):
            if time.time() > deadline:
                complete = False
                return False
            c = make(spec)
            cits2 = cits + [c]
            seq2 = seq + [name]
            inp = {"kind": "letters", "seq": seq2}
            vs, res2 = check_list(pid, cits2, inp, parent_res=res, obs=obs)
            col.count_case()
            if vs:
                col.add(vs)
            if len(seq2) < max_len and res2 is not None:
                if not rec(cits2, seq2, res2):
                    return False
        return True

    try:
        root = resolve_citations([])
    except Exception:
        root = None
    rec([], [], root)
    return complete


def _estimate_nodes(a: int, L: int) -> int:
    return sum(a ** k for k in range(1, L + 1))


# tiny local document generator ---------------------------------------------------------------------

_NAMES = ["Foo", "Foote", "Smith", "Smithson", "Bar", "Barr", "Roe", "Doe"]
_REPS = ["U.S.", "U. S.", "F.2d", "F.3d", "S. Ct."]


def gen_document(rng: random.Random) -> str:
    """A short pseudo-opinion mixing every citation kind, built to be ambiguous often (few names that contain each
    other, two volumes, three pages)."""
    parts: List[str] = []
    cited: List[Tuple[str, str, str, str, str]] = []
    for _ in range(rng.randint(2, 9)):
        r = rng.random()
        if r < 0.32 or not cited:
            p, d = rng.sample(_NAMES, 2)
            vol, rep = rng.choice(["1", "2"]), rng.choice(_REPS)
            page = rng.choice(["100", "200", "1", "___", "100", "9" * rng.choice([3, 4400])]) if rng.random() < 0.9 else "xii"
            if len(page) > 10 and rng.random() < 0.8:
                page = "300"
            cited.append((p, d, vol, rep, page))
            tail = rng.choice(["", ", 105", " (1999)", ", 150 (1999)", " (holding Foo)"])
            parts.append(f"{p} v. {d}, {vol} {rep} {page}{tail}.")
        elif r < 0.42:
            p, d, vol, rep, page = rng.choice(cited)
            pin = rng.choice(["105", "50", "400", "251"])
            parts.append(rng.choice([f"{vol} {rep}, at {pin}.", f"{rng.choice([p, d, 'Zed'])}, {vol} {rep}, at {pin}."]))
        elif r < 0.54:
            p, d, *_ = rng.choice(cited)
            parts.append(f"{rng.choice([p, d, 'Zed', 'Smith'])}, supra, at {rng.choice(['3', '105'])}.")
        elif r < 0.72:
            parts.append(rng.choice(["Id.", "Id. at 105.", "Id. at 50.", "Id. at 400.", "Id. at ¶ 5.", "Ibid.",
                                     "Id., at 250.", "Id. at 251."]))
        elif r < 0.82:
            p, d, *_ = rng.choice(cited)
            parts.append(f"In {rng.choice([p, d])} at {rng.choice(['105', '7'])}, the court agreed.")
        elif r < 0.89:
            parts.append(rng.choice(["1 Minn. L. Rev. 1.", "1 Minn. L. Rev. ___.", "2 Minn. L. Rev. 30, 31 (1999)."]))
        elif r < 0.95:
            parts.append(rng.choice(["Mass. Gen. Laws ch. 1, § 2.", "See Mass. Gen. Laws ch. 2, § 3 (holding Foo)."]))
        else:
            parts.append("§ 5 of the Act applies.")
    return " ".join(parts)


def _hint_letters(hints: Optional[Dict[str, Any]]) -> List[Dict[str, Any]]:
    """Strings found in a solver model become extra letters (pin cites, pages, names), at most 8."""
    out: List[Dict[str, Any]] = []
    strings: List[str] = []

    def walk(x: Any) -> None:
        if isinstance(x, str):
            s = x
            if len(s) >= 2 and s[0] == s[-1] == '"':
                s = s[1:-1]
            if 0 < len(s) <= 5000 and s not in strings and not s.startswith("(") and not s.startswith("!"):
                strings.append(s)
        elif isinstance(x, dict):
            for v in x.values():
                walk(v)
        elif isinstance(x, (list, tuple)):
            for v in x:
                walk(v)

    walk(hints or {})
    for s in strings[:4]:
        out.append({"t": "id", "metadata": {"pin_cite": s}})
        if re.fullmatch(r"\d+|_+|[ivxlcdm]+", s):
            out.append({"t": "case", "volume": "1", "reporter": "U.S.", "page": s,
                        "metadata": {"plaintiff": "Hint", "defendant": "Page"}})
        else:
            out.append({"t": "supra", "metadata": {"antecedent_guess": s}})
    return out[:8]


def run_resolution(pid: str, col: Collector, seed: int, n: int, focus: Optional[str], hints: Optional[Dict[str, Any]]) -> None:
    rng = random.Random(f"{seed}/{pid}")
    budget = col.budget_s
    # ---- layer 0: extracted lists from generated documents (n/3 documents, at most 20% of the budget)
    ndocs = max(10, n // 3)
    t_docs = time.time() + 0.2 * budget
    done_docs = 0
    fixed_docs = ["1 Minn. L. Rev. ___. Id. at 5.", "1 U.S. " + "1" * 5000 + ". Id. at 5.",
                  "Foo v. Bar, 1 U.S. 100 (holding Smith). Smith at 5.", "1 U.S. ___. Id. at 5.", ""]
    for d in range(ndocs + len(fixed_docs)):
        if time.time() > t_docs:
            break
        text = fixed_docs[d] if d < len(fixed_docs) else gen_document(rng)
        inp = {"kind": "text", "text": text}
        try:
            cits = list(get_citations(text))
        except Exception as e:
            col.observe(f"get_citations_raised:{type(e).__name__}", inp, "extraction raised (C04's subject, not counted here)")
            continue
        vs, _ = check_list(pid, cits, inp, obs=col.observe)
        col.count_case(text)
        col.add(vs)
        done_docs += 1
    col.bound_parts.append(f"{done_docs} citation lists extracted by get_citations from generated documents (sampled, all prefixes for C08)")

    # ---- layer 1/2: small-scope exhaustive enumeration
    alphabet_names: List[Any] = list(CORE)
    label = "core"
    if focus:
        fn = focus.split("/")[0]
        for keys, alpha in FOCUS_ALPHABETS:
            if any(k in fn for k in keys):
                alphabet_names = list(alpha)
                label = f"focus[{fn}]"
                break
    extra = _hint_letters(hints)
    ext_names: List[Any] = list(EXT) + extra
    if extra:
        alphabet_names = alphabet_names + extra

    # calibrate: time per node on all sequences of length <= 2 over the extended alphabet (always complete)
    t = time.time()
    before = col.evaluations
    ok = _dfs(pid, col, ext_names, ext_names, 2, time.time() + max(5.0, 0.3 * budget))
    per_node = max((time.time() - t) / max(1, col.evaluations - before), 1e-5)
    col.bound_parts.append(f"ALL sequences of length <= 2 over the {len(ext_names)}-letter extended alphabet"
                           + ("" if ok else " (CUT SHORT by the time budget)"))
    if not ok:
        col.exhaustive = False
    # choose L for the main alphabet and for the extended alphabet from what is left (reserve 15% for sampling)
    remaining = col.left() * 0.85
    a = len(alphabet_names)
    L = 2
    while L < 7 and _estimate_nodes(a, L + 1) * per_node * 1.25 <= remaining * 0.8:
        L += 1
    if L > 2 or alphabet_names != ext_names:
        ok = _dfs(pid, col, alphabet_names, alphabet_names, L, time.time() + remaining * 0.95)
        col.bound_parts.append(f"ALL sequences of length <= {L} over the {a}-letter {label} alphabet "
                               f"({_estimate_nodes(a, L)} sequences)" + ("" if ok else " (CUT SHORT by the time budget)"))
        if not ok:
            col.exhaustive = False
    remaining = col.left() * 0.8
    e = len(ext_names)
    if _estimate_nodes(e, 3) * per_node * 1.25 <= remaining:
        ok = _dfs(pid, col, ext_names, ext_names, 3, time.time() + remaining)
        col.bound_parts.append(f"ALL sequences of length <= 3 over the extended alphabet ({_estimate_nodes(e, 3)} sequences)"
                               + ("" if ok else " (CUT SHORT)"))
        if not ok:
            col.exhaustive = False
    # ---- layer 3: random longer sequences over the extended alphabet
    nrand = 0
    t_end = col.t0 + budget
    target = n * 10
    while nrand < target and time.time() < t_end:
        ln = rng.randint(L + 1, L + 6)
        seq = [rng.choice(ext_names) for _ in range(ln)]
        inp = {"kind": "letters", "seq": seq}
        try:
            cits = [make(s) for s in seq]
        except Exception:
            continue
        vs, _ = check_list(pid, cits, inp, obs=col.observe)
        col.count_case(json.dumps(seq, sort_keys=True))
        col.add(vs)
        nrand += 1
    col.bound_parts.append(f"{nrand} random sequences of length {L + 1}..{L + 6} over the extended alphabet (sampled)")
    col.bound_parts.append("alphabet letters are fresh real citation objects per sequence node: " + ", ".join(
        x if isinstance(x, str) else json.dumps(x)[:60] for x in ext_names))
