#!/venv/bin/python
"""Bounded stand-in / replay checkers for C06 C07 C08 C09 C10 C11 C16 C20.

Executable, concrete readings of the property clauses of /verif/properties.jsonl, run against the REAL eyecite
code (the copy named by env EYECITE_REPO if set, else whatever `import eyecite` finds -- /repo).  Never a proof:
every result carries a `bound` string saying what was enumerated exhaustively and what was sampled.

Public surface
  check_C06(case) ... check_C20(case)  -> list of violation dicts {"clause", "input", "detail"}
        `case` is the JSON-serialisable description of ONE input (the same object that is stored as
        violation["input"], so a stored witness can be re-run verbatim).  Case formats are documented at each
        check_* function.
  run_property(pid, seed, n, focus=None, budget_s=50.0, hints=None) -> result dict (see run_b.py)

Reading rule: a clause is implemented as the WEAKEST sensible reading of the statement (a stricter checker is a
false alarm).  Where the text admits a stricter reading that the code does not satisfy, the stricter reading is
reported under result["observations"], never as a violation.
"""
from __future__ import annotations

import os
import sys

_REPO_OVERRIDE = os.environ.get("EYECITE_REPO")
if _REPO_OVERRIDE:
    sys.path.insert(0, _REPO_OVERRIDE)

import itertools
import json
import logging
import random
import re
import time
from bisect import bisect_left, bisect_right
from typing import Any, Callable, Dict, Iterable, List, Optional, Sequence, Tuple

import eyecite  # noqa: E402
from eyecite import annotate_citations, clean_text, get_citations, resolve_citations  # noqa: E402
from eyecite.models import (  # noqa: E402
    CaseCitation,
    FullCaseCitation,
    FullCitation,
    FullJournalCitation,
    FullLawCitation,
    IdCitation,
    ReferenceCitation,
    Resource,
    ShortCaseCitation,
    SupraCitation,
    UnknownCitation,
)
from eyecite import test_factories as F  # noqa: E402
from eyecite.utils import strip_punct  # noqa: E402

logging.getLogger("eyecite").setLevel(logging.CRITICAL)   # "Unknown overlap case" etc. are not our subject
for _n in ("eyecite.find", "eyecite.annotate", "eyecite.helpers", "eyecite.resolve"):
    logging.getLogger(_n).setLevel(logging.CRITICAL)

VERIF = os.path.dirname(os.path.dirname(os.path.abspath(__file__)))
EYECITE_FILE = getattr(eyecite, "__file__", None)

MAX_STORED = 400          # violations kept in memory per run (the 10 smallest are reported)


# =====================================================================================================
# bookkeeping
# =====================================================================================================

def viol(clause: str, inp: Any, **detail: Any) -> Dict[str, Any]:
    return {"clause": clause, "input": inp, "detail": detail}


def _size(x: Any) -> int:
    try:
        return len(json.dumps(x, default=str))
    except Exception:
        return 10 ** 9


class StopRun(Exception):
    """raised by Collector.add when the run was asked to stop at the first (relevant) violation"""


class Collector:
    """Accumulates evaluations / violations of one run."""

    def __init__(self, budget_s: float, stop_on_first: bool = False, ignore_regions: Sequence[str] = (),
                 ignore_clauses: Sequence[str] = ()):
        self.stop_on_first = stop_on_first
        self.ignore_regions = set(ignore_regions)
        self.ignore_clauses = set(ignore_clauses)
        self.relevant: List[Dict[str, Any]] = []
        self.t0 = time.time()
        self.budget_s = budget_s
        self.evaluations = 0
        self.distinct = 0
        self._seen: set = set()
        self.violations: List[Dict[str, Any]] = []
        self.counts: Dict[str, int] = {}
        self.observations: Dict[str, Dict[str, Any]] = {}
        self.regions: Dict[str, int] = {}
        self.pruned = 0
        self.bound_parts: List[str] = []
        self.exhaustive = True

    def elapsed(self) -> float:
        return time.time() - self.t0

    def left(self) -> float:
        return self.budget_s - self.elapsed()

    def count_case(self, key: Any = None) -> None:
        """one evaluated input; `key` (hashable) is used to count distinct inputs; None = distinct by construction"""
        self.evaluations += 1
        if key is None:
            self.distinct += 1
        else:
            h = hash(key)
            if h not in self._seen:
                self._seen.add(h)
                self.distinct += 1

    def add(self, vs: Iterable[Dict[str, Any]]) -> None:
        for v in vs:
            c = v["clause"]
            self.counts[c] = self.counts.get(c, 0) + 1
            reg = (v.get("detail") or {}).get("region")
            if reg is not None:
                self.regions[f"{c}|{reg}"] = self.regions.get(f"{c}|{reg}", 0) + 1
                first_of_region = self.regions[f"{c}|{reg}"] <= 3
            else:
                first_of_region = False
            if reg not in self.ignore_regions and c not in self.ignore_clauses:
                if len(self.relevant) < 10:
                    self.relevant.append(v)
                if self.stop_on_first:
                    self.violations.append(v)
                    raise StopRun()
            if first_of_region and len(self.violations) >= MAX_STORED:
                self.violations.append(v)
                continue
            if len(self.violations) < MAX_STORED or self.counts[c] <= 3:
                self.violations.append(v)

    def observe(self, name: str, example: Any, what: str) -> None:
        o = self.observations.setdefault(name, {"count": 0, "what": what, "example": example})
        o["count"] += 1

    def result(self, pid: str, seed: int) -> Dict[str, Any]:
        # smallest witnesses first, but at least one per clause among the 10 reported
        ordered = sorted(self.violations, key=lambda v: _size(v.get("input")))
        first: List[Dict[str, Any]] = []
        seen_clause = set()
        for v in ordered:
            ck = (v["clause"], (v.get("detail") or {}).get("region"))
            if ck not in seen_clause:
                seen_clause.add(ck)
                first.append(v)
        for v in ordered:
            if len(first) >= 10:
                break
            if v not in first:
                first.append(v)
        first = first[:10]
        return {
            "property": pid,
            "evaluations": self.evaluations,
            "distinct": self.distinct,
            "violations": first,
            "violation_counts": dict(sorted(self.counts.items())),
            "violation_regions": dict(sorted(self.regions.items())),
            "observations": self.observations,
            "bound": "; ".join(self.bound_parts),
            "exhaustive": bool(self.exhaustive),
            "seed": seed,
            "seconds": round(self.elapsed(), 2),
            "eyecite": EYECITE_FILE,
        }


# =====================================================================================================
# C06 / C07 / C08 -- resolution
# =====================================================================================================
#
# Abstract alphabet.  A letter is a JSON "spec" from which a FRESH real citation object is built with the
# eyecite.test_factories constructors every time it is used (the same letter twice in a sequence = two distinct
# objects; equal hash exactly where the letter says so, e.g. A / A2).
#
#   A      Foo v. Smith,      1 U.S. 100
#   A2     equal to A (same volume/reporter/page), different pin cite / year  -> same resource as A
#   B      Bar v. Smithson,   1 U.S. 200  (same reporter+volume as A), parenthetical 'Foo' (a NON-name field that
#                                           reads like A's plaintiff: a reference 'Foo' must not attach to B)
#   P      Pla v. Smith,      1 U.S. ___  (placeholder page -> page None, identity hash)
#   LAW    Mass. Gen. Laws ch. 1, § 2  (parenthetical 'Foo'),   J  1 Minn. L. Rev. 1,   JP  1 Minn. L. Rev. ___
#   short_plain   1 U.S., at 105 (no antecedent): unique when only A/A2 precede, ambiguous once B or P precede
#   short_ante    Foo, 1 U.S., at 105: antecedent names A's plaintiff
#   short_foreign 5 F.2d, at 7: no candidate ever;   short_var: 1 U. S., at 105 written with a variation
#   supra_known 'Foo' / supra_unknown 'Zed' / supra_ambig 'Smith' (contained in Smith, Smithson) / supra_noguess
#   ref_A (plaintiff 'Foo') / ref_ambig (defendant 'Smith': A and P) / ref_none (no names)
#   id_valid 'at 105' / id_before 'at 50' / id_far 'at 400' / id_251 / id_250 / id_nonnum 'at ¶ 5' / id_nopin
#   unknown  §
#   HUGE   2 U.S. <5000 digits>   ROMAN  3 U.S. xii

LETTERS: Dict[str, Dict[str, Any]] = {
    "A": {"t": "case", "volume": "1", "reporter": "U.S.", "page": "100",
          "metadata": {"plaintiff": "Foo", "defendant": "Smith"}},
    "A2": {"t": "case", "volume": "1", "reporter": "U.S.", "page": "100",
           "metadata": {"plaintiff": "Foo", "defendant": "Smith", "pin_cite": "102", "year": "1999"}},
    "B": {"t": "case", "volume": "1", "reporter": "U.S.", "page": "200",
          "metadata": {"plaintiff": "Bar", "defendant": "Smithson", "parenthetical": "Foo"}},
    "P": {"t": "case", "volume": "1", "reporter": "U.S.", "page": "___",
          "metadata": {"plaintiff": "Pla", "defendant": "Smith"}},
    "LAW": {"t": "law", "source_text": "Mass. Gen. Laws ch. 1, § 2", "reporter": "Mass. Gen. Laws",
            "groups": {"chapter": "1", "section": "2"}, "metadata": {"parenthetical": "Foo"}},
    "J": {"t": "journal", "volume": "1", "reporter": "Minn. L. Rev.", "page": "1"},
    "JP": {"t": "journal", "volume": "1", "reporter": "Minn. L. Rev.", "page": "___"},
    "short_plain": {"t": "short", "volume": "1", "reporter": "U.S.", "page": "105"},
    "short_ante": {"t": "short", "volume": "1", "reporter": "U.S.", "page": "105",
                   "metadata": {"antecedent_guess": "Foo"}},
    "short_foreign": {"t": "short", "volume": "5", "reporter": "F.2d", "page": "7"},
    "short_var": {"t": "short", "volume": "1", "reporter": "U.S.", "reporter_found": "U. S.", "page": "105"},
    "supra_known": {"t": "supra", "metadata": {"antecedent_guess": "Foo"}},
    "supra_unknown": {"t": "supra", "metadata": {"antecedent_guess": "Zed"}},
    "supra_ambig": {"t": "supra", "metadata": {"antecedent_guess": "Smith"}},
    "supra_noguess": {"t": "supra", "metadata": {}},
    "ref_A": {"t": "ref", "metadata": {"plaintiff": "Foo"}},
    "ref_ambig": {"t": "ref", "metadata": {"defendant": "Smith"}},
    "ref_none": {"t": "ref", "metadata": {}},
    "id_valid": {"t": "id", "metadata": {"pin_cite": "at 105"}},
    "id_before": {"t": "id", "metadata": {"pin_cite": "at 50"}},
    "id_far": {"t": "id", "metadata": {"pin_cite": "at 400"}},
    "id_250": {"t": "id", "metadata": {"pin_cite": "at 250"}},
    "id_251": {"t": "id", "metadata": {"pin_cite": "251"}},
    "id_nonnum": {"t": "id", "metadata": {"pin_cite": "at ¶ 5"}},
    "id_nopin": {"t": "id", "metadata": {}},
    "unknown": {"t": "unknown"},
    "HUGE": {"t": "case", "volume": "2", "reporter": "U.S.", "page": "1" * 5000,
             "metadata": {"plaintiff": "Huge", "defendant": "Page"}},
    "ROMAN": {"t": "case", "volume": "3", "reporter": "U.S.", "page": "xii",
              "metadata": {"plaintiff": "Roman", "defendant": "Page"}},
}

CORE = ["A", "B", "A2", "P", "LAW", "short_plain", "short_ante", "supra_known", "supra_ambig",
        "ref_A", "ref_ambig", "id_valid", "id_far", "id_nopin", "unknown"]
EXT = CORE + ["J", "JP", "short_foreign", "short_var", "supra_unknown", "supra_noguess", "ref_none", "id_before", "id_250",
              "id_251", "id_nonnum", "HUGE", "ROMAN"]
FULLS = ["A", "B", "A2", "P", "LAW", "J", "JP", "HUGE", "ROMAN"]

FOCUS_ALPHABETS: List[Tuple[Tuple[str, ...], List[str]]] = [
    (("_has_invalid_pin_cite", "_resolve_id_citation"),
     FULLS + ["id_valid", "id_before", "id_far", "id_250", "id_251", "id_nonnum", "id_nopin", "unknown"]),
    (("_resolve_shortcase_citation", "_filter_by_matching_antecedent"),
     ["A", "B", "A2", "P", "LAW", "J", "short_plain", "short_ante", "short_foreign", "short_var",
      "supra_known", "supra_unknown", "supra_ambig", "id_nopin"]),
    (("_resolve_supra_citation",),
     ["A", "B", "A2", "P", "LAW", "ROMAN", "supra_known", "supra_unknown", "supra_ambig", "supra_noguess", "id_nopin", "unknown"]),
    (("_resolve_reference_citation", "_filter_by_matching_plaintiff_or_defendant_or_resolved_names"),
     ["A", "B", "A2", "P", "LAW", "J", "ref_A", "ref_ambig", "ref_none", "id_nopin", "unknown"]),
]


def make(spec: Any) -> Any:
    """Build a fresh real citation object from a letter name or a spec dict."""
    if isinstance(spec, str):
        spec = LETTERS[spec]
    s = json.loads(json.dumps(spec))          # deep copy: the factories mutate the dicts they are given
    t = s.pop("t")
    if t in ("case", "short"):
        return F.case_citation(short=(t == "short"), **s)
    if t == "law":
        return F.law_citation(**s)
    if t == "journal":
        return F.journal_citation(**s)
    if t == "supra":
        return F.supra_citation(s.pop("source_text", "supra"), **s)
    if t == "ref":
        return F.reference_citation(s.pop("source_text", "Foo at 1"), **s)
    if t == "id":
        return F.id_citation(s.pop("source_text", "Id."), **s)
    if t == "unknown":
        return F.unknown_citation(s.pop("source_text", "§"), **s)
    raise ValueError(f"unknown letter type {t!r}")


def describe(c: Any) -> str:
    try:
        md = {k: v for k, v in c.metadata.__dict__.items() if v is not None}
        g = dict(c.groups)
        if isinstance(g.get("page"), str) and len(g["page"]) > 40:
            g["page"] = g["page"][:10] + f"...({len(g['page'])} chars)"
        return f"{type(c).__name__}({c.matched_text()[:60]!r}, groups={g}, metadata={md})"
    except Exception as e:  # pragma: no cover
        return f"{type(c).__name__}(<{type(e).__name__}>)"


# ----------------------------------------------------------------------------------------------------
# facts read off an output of resolve_citations
# ----------------------------------------------------------------------------------------------------

class Facts:
    """Where every input citation ended up, by identity and index."""

    def __init__(self, cits: Sequence[Any], res: Any):
        self.cits = cits
        self.lists: List[Tuple[Any, List[Any]]] = [(k, v) for k, v in res.items()]
        idx_of = {}
        for i, c in enumerate(cits):
            idx_of.setdefault(id(c), i)
        self.where: Dict[int, List[Tuple[int, int]]] = {}
        self.invented: List[Tuple[int, int]] = []
        self.src: List[List[Optional[int]]] = []
        for li, (_k, members) in enumerate(self.lists):
            row: List[Optional[int]] = []
            for pos, m in enumerate(members):
                i = idx_of.get(id(m))
                row.append(i)
                if i is None:
                    self.invented.append((li, pos))
                else:
                    self.where.setdefault(i, []).append((li, pos))
            self.src.append(row)

    def list_of(self, i: int) -> Optional[int]:
        w = self.where.get(i)
        return w[0][0] if w else None


def _is_full(c: Any) -> bool:
    return isinstance(c, FullCitation)


# ----------------------------------------------------------------------------------------------------
# C06 clauses
# ----------------------------------------------------------------------------------------------------

def _case_key_from_statement(c: Any) -> Optional[Tuple[Any, ...]]:
    """(volume, normalised reporter, page) of a case citation, None for a placeholder page.
    Written from the statement of C06/C16: 'same normalised volume, reporter and page, and not a placeholder page'."""
    page = c.groups.get("page")
    if page is None:
        return None
    # the normalised reporter is the guessed *edition's* canonical name (e.g. "F.2d", not the family "F."), computed here without
    # calling corrected_reporter() so that a change to that method is noticed
    eg = getattr(c, "edition_guess", None)
    rep = eg.short_name if eg is not None else c.groups.get("reporter")
    return (c.groups.get("volume"), rep, page)


def clauses_C06(cits: Sequence[Any], res: Any, inp: Any) -> List[Dict[str, Any]]:
    out: List[Dict[str, Any]] = []
    f = Facts(cits, res)
    # values_are_disjoint_subsequences: same objects, input order, nothing invented, nothing repeated (by index)
    if f.invented:
        out.append(viol("values_are_disjoint_subsequences", inp, why="member is not an input object",
                        at=f.invented[:3]))
    for li, row in enumerate(f.src):
        known = [i for i in row if i is not None]
        if any(a >= b for a, b in zip(known, known[1:])):
            out.append(viol("values_are_disjoint_subsequences", inp, why="members not in strictly increasing input order",
                            list_index=li, input_indices=row))
            break
    rep = {i: w for i, w in f.where.items() if len(w) > 1}
    if rep:
        out.append(viol("values_are_disjoint_subsequences", inp, why="an input citation occurs more than once in the values",
                        occurrences={str(i): w for i, w in list(rep.items())[:3]}))
    # first_is_full
    for li, (_k, members) in enumerate(f.lists):
        if len(members) == 0 or not _is_full(members[0]):
            out.append(viol("first_is_full", inp, list_index=li,
                            first=(describe(members[0]) if members else None)))
            break
    # every_full_exactly_once
    for i, c in enumerate(cits):
        if _is_full(c) and len(f.where.get(i, [])) != 1:
            out.append(viol("every_full_exactly_once", inp, index=i, citation=describe(c),
                            occurrences=f.where.get(i, [])))
            break
    # share_iff_equal
    fulls = [i for i, c in enumerate(cits) if _is_full(c) and len(f.where.get(i, [])) == 1]
    done = False
    for a, b in itertools.combinations(fulls, 2):
        ca, cb = cits[a], cits[b]
        share = f.list_of(a) == f.list_of(b)
        eq = bool(ca == cb)
        if share != eq:
            out.append(viol("share_iff_equal", inp, why="share a resource != compare equal", i=a, j=b, share=share, equal=eq))
            done = True
        elif isinstance(ca, FullCaseCitation) and isinstance(cb, FullCaseCitation):
            # what 'equal' means for case citations, from the statement; other kinds: the code's == is taken as is
            ka, kb = _case_key_from_statement(ca), _case_key_from_statement(cb)
            eq_stmt = ka is not None and kb is not None and ka == kb and type(ca) is type(cb)
            if eq_stmt != share:
                out.append(viol("share_iff_equal", inp, why="share a resource != same normalised volume/reporter/page (non-placeholder)",
                                i=a, j=b, share=share, statement_equal=eq_stmt))
                done = True
        if done:
            break
    # unknown_never_appears
    for li, (_k, members) in enumerate(f.lists):
        if any(isinstance(m, UnknownCitation) for m in members):
            out.append(viol("unknown_never_appears", inp, list_index=li))
            break
    return out


# ----------------------------------------------------------------------------------------------------
# C07 reference model
# ----------------------------------------------------------------------------------------------------

def _names_contain(full: Any, ag: str) -> bool:
    md = full.metadata
    d = getattr(md, "defendant", None)
    p = getattr(md, "plaintiff", None)
    return bool((d and ag in d) or (p and ag in p))


NAME_FIELDS = ("plaintiff", "defendant", "resolved_case_name_short", "resolved_case_name")


def _names_match(full: Any, ref: Any) -> bool:
    """'party (or resolved) names match': some name of the reference equals some name of the case (both non-empty)."""
    rv = {v for k in NAME_FIELDS if (v := getattr(ref.metadata, k, None))}
    fv = {v for k in NAME_FIELDS if (v := getattr(full.metadata, k, None))}
    return bool(rv & fv)


def _classes(cits: Sequence[Any]) -> Dict[int, int]:
    """resource class of every full citation: index of the earliest full citation equal (==) to it"""
    cls: Dict[int, int] = {}
    reps: List[int] = []
    for i, c in enumerate(cits):
        if not _is_full(c):
            continue
        for r in reps:
            if cits[r] == c:
                cls[i] = r
                break
        else:
            cls[i] = i
            reps.append(i)
    return cls


def _pin_number(pin: str) -> Optional[int]:
    """the number an id. pin cite starts with (optionally after 'at '), None if it is non-numeric"""
    s = pin[3:] if pin.startswith("at ") else pin
    n = 0
    while n < len(s) and s[n].isdecimal():
        n += 1
    if n == 0:
        return None
    old = sys.get_int_max_str_digits() if hasattr(sys, "get_int_max_str_digits") else None
    try:
        if old is not None:
            sys.set_int_max_str_digits(0)
        return int(s[:n])
    finally:
        if old is not None:
            sys.set_int_max_str_digits(old)


INT_DIGIT_LIMIT = 4300   # CPython's default int<->str digit limit


def _page_number(page: Any) -> Optional[int]:
    """the first page as a number; None when there is no decimal page number that int() can read (weak reading,
    the same as contracts/resolve.py NUMERIC: a page of more than 4300 digits gives 'nothing to compare against')"""
    if not isinstance(page, str) or not page or not page.isdecimal() or len(page) > INT_DIGIT_LIMIT:
        return None
    old = sys.get_int_max_str_digits() if hasattr(sys, "get_int_max_str_digits") else None
    try:
        if old is not None:
            sys.set_int_max_str_digits(0)
        return int(page)
    finally:
        if old is not None:
            sys.set_int_max_str_digits(old)


FAR = 150   # 'implausibly far beyond it': eyecite.resolve.MAX_OPINION_PAGE_COUNT (anchor of C07); > page + 150 is far


def allowed_attachments(cits: Sequence[Any], i: int, cls: Dict[int, int]) -> Tuple[Optional[set], Dict[str, Any]]:
    """The set of resource classes the statement allows citation i (short / supra / reference) to be attached to
    (empty set = must stay unresolved).  None for kinds the clause does not speak about."""
    c = cits[i]
    hist = [j for j in range(i) if _is_full(cits[j])]
    info: Dict[str, Any] = {}
    if isinstance(c, ShortCaseCitation):
        cand = [j for j in hist if isinstance(cits[j], FullCaseCitation)
                and cits[j].corrected_reporter() == c.corrected_reporter()
                and cits[j].groups.get("volume") == c.groups.get("volume")]
        rc = {cls[j] for j in cand}
        allowed = set()
        if len(rc) == 1:
            allowed |= rc
        ag = c.metadata.antecedent_guess
        ra: set = set()
        if ag:
            sag = strip_punct(ag)
            ra = {cls[j] for j in cand if _names_contain(cits[j], sag)}
            if len(ra) == 1:
                allowed |= ra
        info.update(candidates=sorted(rc), by_antecedent=sorted(ra))
        return allowed, info
    if isinstance(c, SupraCitation):
        ag = c.metadata.antecedent_guess
        if not ag:
            return set(), info
        sag = strip_punct(ag)
        rm = {cls[j] for j in hist if isinstance(cits[j], FullCaseCitation) and _names_contain(cits[j], sag)}
        info.update(matches=sorted(rm))
        return (rm if len(rm) == 1 else set()), info
    if isinstance(c, ReferenceCitation):
        rm = {cls[j] for j in hist if isinstance(cits[j], FullCaseCitation) and _names_match(cits[j], c)}
        info.update(matches=sorted(rm))
        return (rm if len(rm) == 1 else set()), info
    return None, info


def clauses_C07(cits: Sequence[Any], res: Any, inp: Any, obs: Optional[Callable[..., None]] = None) -> List[Dict[str, Any]]:
    out: List[Dict[str, Any]] = []
    f = Facts(cits, res)
    cls = _classes(cits)

    def attached_class(i: int) -> Optional[int]:
        """resource class (index of its earliest full citation) citation i is listed under, by the first full member"""
        li = f.list_of(i)
        if li is None:
            return None
        for m in f.src[li]:
            if m is not None and _is_full(cits[m]):
                return cls[m]
        return -1          # a list without any full member (C06 reports that); cannot be an allowed attachment

    for i, c in enumerate(cits):
        if _is_full(c):
            continue
        got = attached_class(i)
        allowed, info = allowed_attachments(cits, i, cls)
        if allowed is not None:
            if got is not None and got not in allowed:
                # attached => attached to THE unique match (fires for a non-matching case, for one of several
                # matches and when nothing matches); the second clause is the contrapositive half of the statement
                # ("no candidate, or two or more distinct candidates => left unresolved") and fires in addition
                # when there is no unique match at all
                out.append(viol("attached_only_if_unique_match", inp, index=i, citation=describe(c),
                                attached_to_full_index=got, allowed_full_indices=sorted(allowed), model=info))
                if not allowed:
                    out.append(viol("unresolved_when_none_or_many", inp, index=i, citation=describe(c),
                                    attached_to_full_index=got, model=info))
        elif isinstance(c, IdCitation):
            if got is None:
                continue
            prev = f.list_of(i - 1) if i > 0 else None
            if prev is None:
                out.append(viol("id_unresolved_when_prev_unresolved", inp, index=i, citation=describe(c),
                                attached_to_full_index=got))
                continue
            if prev != f.list_of(i):
                out.append(viol("id_only_predecessor", inp, index=i, citation=describe(c),
                                attached_to_full_index=got, predecessor_full_index=attached_class(i - 1)))
                continue
            if got < 0:
                continue
            ante = cits[got]
            page = ante.groups.get("page")
            pin = c.metadata.pin_cite
            why = None
            if type(ante) is FullCaseCitation and page is None:
                # weak reading: 'the antecedent has a placeholder page' for case citations (docstring of
                # _has_invalid_pin_cite: "known missing page"); journal/law placeholders -> observation only
                why = "antecedent has a placeholder page"
            elif pin:
                p = _page_number(page)
                if p is not None:
                    q = _pin_number(pin)
                    if q is None:
                        why = "pin cite is non-numeric"
                    elif q < p:
                        why = "pin cite lies before the first page"
                    elif q > p + FAR:
                        why = f"pin cite lies more than {FAR} pages beyond the first page"
            if why:
                out.append(viol("id_placeholder_or_bad_pin_unresolved", inp, index=i, citation=describe(c),
                                antecedent=describe(ante), why=why))
            elif obs is not None and page is None and not isinstance(ante, FullCaseCitation) and "page" in ante.groups:
                obs("id_after_non_case_placeholder_page", inp,
                    "stricter reading of C07 ('unresolved when the antecedent has a placeholder page' for ANY kind of "
                    "antecedent): an id. citation is attached to a journal/law citation whose page is a placeholder")
        else:
            # unknown citations and anything else: C06.unknown_never_appears covers them
            pass
    return out


# ----------------------------------------------------------------------------------------------------
# C08 clauses
# ----------------------------------------------------------------------------------------------------

def _restrict(cits: Sequence[Any], res: Any, k: int) -> List[Tuple[Any, List[Any]]]:
    """restriction of a resolution of `cits` to the first k input citations (keys whose restriction is empty vanish)"""
    pref = {id(c) for c in cits[:k]}
    out = []
    for key, members in res.items():
        ms = [m for m in members if id(m) in pref]
        if ms:
            out.append((key, ms))
    return out


def prefix_violation(cits: Sequence[Any], res_whole: Any, res_prefix: Any, k: int, inp: Any) -> List[Dict[str, Any]]:
    """resolve(cits[:k]) must be the restriction of resolve(cits) to cits[:k]: same resources (by equality),
    same members (by identity) in the same order.  Order AMONG resources is not compared (weaker reading)."""
    restricted = _restrict(cits, res_whole, k)
    pl = [(key, list(ms)) for key, ms in res_prefix.items()]
    problem = None
    if len(restricted) != len(pl):
        problem = f"{len(pl)} resources for the prefix, {len(restricted)} non-empty restricted resources"
    else:
        for key, ms in pl:
            hit = [rm for rk, rm in restricted if rk == key]
            if len(hit) != 1:
                problem = "a resource of the prefix resolution has no (or no unique) equal resource in the whole resolution"
                break
            if len(hit[0]) != len(ms) or any(a is not b for a, b in zip(hit[0], ms)):
                problem = "members differ"
                break
    if problem:
        idx = {id(c): i for i, c in enumerate(cits)}
        return [viol("prefix_stability", inp, k=k, why=problem,
                     prefix_groups=[[idx.get(id(m)) for m in ms] for _k, ms in pl],
                     whole_groups_restricted=[[idx.get(id(m)) for m in ms] for _k, ms in restricted])]
    return []


def clauses_C08_causal(cits: Sequence[Any], res: Any, inp: Any) -> List[Dict[str, Any]]:
    f = Facts(cits, res)
    for li, row in enumerate(f.src):
        if not row:
            continue
        first = row[0]
        for i in row:
            if i is None or _is_full(cits[i]):
                continue
            if first is None or not _is_full(cits[first]) or not first < i:
                return [viol("causal", inp, index=i, citation=describe(cits[i]), first_member_index=first,
                             why="grouped under a resource whose first member is not an earlier full citation")]
    return []


# ----------------------------------------------------------------------------------------------------
# one citation list against the clauses of one property
# ----------------------------------------------------------------------------------------------------

def check_list(pid: str, cits: List[Any], inp: Any, parent_res: Any = "compute",
               obs: Optional[Callable[..., None]] = None) -> Tuple[List[Dict[str, Any]], Any]:
    """Resolve `cits` with the default resolvers and evaluate the clauses of `pid`.
    parent_res: for C08, the resolution of cits[:-1] (then only the last cut point is compared -- used by the
    depth-first enumeration, where every shorter prefix was compared at its own node), or "compute" to resolve
    every prefix here.  Returns (violations, resolution or None if it raised)."""
    try:
        res = resolve_citations(cits)
    except Exception as e:  # a raise is recorded as a violation of whichever property was being checked
        return [viol(f"raised:{type(e).__name__}", inp, message=str(e)[:200], where=_tb_where(e))], None
    out: List[Dict[str, Any]] = []
    try:
        if pid == "C06":
            out = clauses_C06(cits, res, inp)
        elif pid == "C07":
            out = clauses_C07(cits, res, inp, obs)
        elif pid == "C08":
            out = clauses_C08_causal(cits, res, inp)
            if parent_res == "compute":
                for k in range(len(cits)):
                    try:
                        rp = resolve_citations(cits[:k])
                    except Exception as e:
                        out.append(viol(f"raised:{type(e).__name__}", inp, k=k, message=str(e)[:200]))
                        continue
                    out += prefix_violation(cits, res, rp, k, inp)
            elif parent_res is not None:
                out += prefix_violation(cits, res, parent_res, len(cits) - 1, inp)
    except Exception as e:
        # the clauses call real methods (==, corrected_reporter); a raise there is the code's, not the checker's
        out.append(viol(f"raised:{type(e).__name__}", inp, message=str(e)[:200], where=_tb_where(e), during="clause evaluation"))
    return out, res


def _tb_where(e: BaseException) -> str:
    tb = e.__traceback__
    last = None
    while tb is not None:
        last = tb
        tb = tb.tb_next
    if last is None:
        return ""
    return f"{os.path.basename(last.tb_frame.f_code.co_filename)}:{last.tb_frame.f_code.co_name}:{last.tb_lineno}"


def _case_to_list(case: Dict[str, Any]) -> List[Any]:
    if isinstance(case, str):
        case = {"kind": "text", "text": case}
    if case.get("kind") == "text" or ("text" in case and "seq" not in case):
        return list(get_citations(case["text"]))
    return [make(s) for s in case["seq"]]


def _check_resolution_case(pid: str, case: Any) -> List[Dict[str, Any]]:
    try:
        cits = _case_to_list(case)
    except Exception as e:
        return [viol(f"raised:{type(e).__name__}", case, message=str(e)[:200], where=_tb_where(e), during="building the citation list")]
    return check_list(pid, cits, case)[0]


def check_C06(case: Any) -> List[Dict[str, Any]]:
    """case: {"kind":"letters","seq":[letter name or spec dict,...]} or {"kind":"text","text": str} (or a bare str:
    the text is run through get_citations and the extracted list is resolved)."""
    return _check_resolution_case("C06", case)


def check_C07(case: Any) -> List[Dict[str, Any]]:
    """case: as check_C06"""
    return _check_resolution_case("C07", case)


def check_C08(case: Any) -> List[Dict[str, Any]]:
    """case: as check_C06; every prefix of the list is resolved and compared"""
    return _check_resolution_case("C08", case)


# ----------------------------------------------------------------------------------------------------
# enumeration
# ----------------------------------------------------------------------------------------------------

def _dfs(pid: str, col: Collector, alphabet: List[Any], names: List[Any], max_len: int, deadline: float,
         skip_complete_below: int = 0) -> bool:
    """All sequences of length 1..max_len over `alphabet`, depth first, one fresh object per node (a sequence
    shares objects only with its own prefixes).  Returns False if the deadline cut the enumeration short."""
    complete = True
    obs = col.observe

    def rec(cits: List[Any], seq: List[Any], res: Any) -> bool:
        nonlocal complete
        for spec, name in zip(alphabet, names):
            if time.time() > deadline:
                complete = False
                return False
            c = make(spec)
            cits2 = cits + [c]
            seq2 = seq + [name]
            inp = {"kind": "letters", "seq": seq2}
            vs, res2 = check_list(pid, cits2, inp, parent_res=res, obs=obs)
            col.count_case("|".join(x if isinstance(x, str) else json.dumps(x, sort_keys=True) for x in seq2))
            if res2 is None and len(seq2) < max_len:
                col.pruned += 1
            if vs:
                col.add(vs)
            if len(seq2) < max_len and res2 is not None:
                if not rec(cits2, seq2, res2):
                    return False
        return True

    try:
        root = resolve_citations([])
    except Exception:
        root = None
    rec([], [], root)
    return complete


def _estimate_nodes(a: int, L: int) -> int:
    return sum(a ** k for k in range(1, L + 1))


# tiny local document generator ---------------------------------------------------------------------

_NAMES = ["Foo", "Foote", "Smith", "Smithson", "Bar", "Barr", "Roe", "Doe"]
_REPS = ["U.S.", "U. S.", "F.2d", "F.3d", "S. Ct."]


def gen_document(rng: random.Random) -> str:
    """A short pseudo-opinion mixing every citation kind, built to be ambiguous often (few names that contain each
    other, two volumes, three pages)."""
    parts: List[str] = []
    cited: List[Tuple[str, str, str, str, str]] = []
    for _ in range(rng.randint(2, 9)):
        r = rng.random()
        if r < 0.32 or not cited:
            p, d = rng.sample(_NAMES, 2)
            vol, rep = rng.choice(["1", "2"]), rng.choice(_REPS)
            page = rng.choice(["100", "200", "1", "___", "100", "9" * rng.choice([3, 4400])]) if rng.random() < 0.9 else "xii"
            if len(page) > 10 and rng.random() < 0.8:
                page = "300"
            cited.append((p, d, vol, rep, page))
            tail = rng.choice(["", ", 105", " (1999)", ", 150 (1999)", " (holding Foo)"])
            parts.append(f"{p} v. {d}, {vol} {rep} {page}{tail}.")
        elif r < 0.42:
            p, d, vol, rep, page = rng.choice(cited)
            pin = rng.choice(["105", "50", "400", "251"])
            parts.append(rng.choice([f"{vol} {rep}, at {pin}.", f"{rng.choice([p, d, 'Zed'])}, {vol} {rep}, at {pin}."]))
        elif r < 0.54:
            p, d, *_ = rng.choice(cited)
            parts.append(f"{rng.choice([p, d, 'Zed', 'Smith'])}, supra, at {rng.choice(['3', '105'])}.")
        elif r < 0.72:
            parts.append(rng.choice(["Id.", "Id. at 105.", "Id. at 50.", "Id. at 400.", "Id. at ¶ 5.", "Ibid.",
                                     "Id., at 250.", "Id. at 251."]))
        elif r < 0.82:
            p, d, *_ = rng.choice(cited)
            parts.append(f"In {rng.choice([p, d])} at {rng.choice(['105', '7'])}, the court agreed.")
        elif r < 0.89:
            parts.append(rng.choice(["1 Minn. L. Rev. 1.", "1 Minn. L. Rev. ___.", "2 Minn. L. Rev. 30, 31 (1999)."]))
        elif r < 0.95:
            parts.append(rng.choice(["Mass. Gen. Laws ch. 1, § 2.", "See Mass. Gen. Laws ch. 2, § 3 (holding Foo)."]))
        else:
            parts.append("§ 5 of the Act applies.")
    return " ".join(parts)


def _hint_letters(hints: Optional[Dict[str, Any]]) -> List[Dict[str, Any]]:
    """Strings found in a solver model become extra letters (pin cites, pages, names), at most 8."""
    out: List[Dict[str, Any]] = []
    strings: List[str] = []

    def walk(x: Any) -> None:
        if isinstance(x, str):
            s = x
            if len(s) >= 2 and s[0] == s[-1] == '"':
                s = s[1:-1]
            if 0 < len(s) <= 5000 and s not in strings and not s.startswith("(") and not s.startswith("!"):
                strings.append(s)
        elif isinstance(x, dict):
            for v in x.values():
                walk(v)
        elif isinstance(x, (list, tuple)):
            for v in x:
                walk(v)

    walk(hints or {})
    for s in strings[:4]:
        out.append({"t": "id", "metadata": {"pin_cite": s}})
        if re.fullmatch(r"\d+|_+|[ivxlcdm]+", s):
            out.append({"t": "case", "volume": "1", "reporter": "U.S.", "page": s,
                        "metadata": {"plaintiff": "Hint", "defendant": "Page"}})
        else:
            out.append({"t": "supra", "metadata": {"antecedent_guess": s}})
    return out[:8]


def run_resolution(pid: str, col: Collector, seed: int, n: int, focus: Optional[str], hints: Optional[Dict[str, Any]]) -> None:
    rng = random.Random(f"{seed}/{pid}")
    budget = col.budget_s
    # ---- layer 0: extracted lists from generated documents (n/3 documents, at most 20% of the budget)
    ndocs = max(10, n // 3)
    t_docs = time.time() + 0.2 * budget
    done_docs = 0
    fixed_docs = ["1 Minn. L. Rev. ___. Id. at 5.", "1 U.S. " + "1" * 5000 + ". Id. at 5.",
                  "Foo v. Bar, 1 U.S. 100 (holding Smith). Smith at 5.", "1 U.S. ___. Id. at 5.", "",
                  "Foo v. Bar, 1 U.S. 1. Foo, 3 F.2d, at 7.",
                  "Foo v. Bar, 1 U.S. 1. Smith v. Jones, 2 F.2d 5. Doe v. Roe, 2 F.2d 90. Foo, 2 F.2d, at 7."]
    for d in range(ndocs + len(fixed_docs)):
        if time.time() > t_docs:
            break
        text = fixed_docs[d] if d < len(fixed_docs) else gen_document(rng)
        inp = {"kind": "text", "text": text}
        try:
            cits = list(get_citations(text))
        except Exception as e:
            col.observe(f"get_citations_raised:{type(e).__name__}", inp, "extraction raised (C04's subject, not counted here)")
            continue
        vs, _ = check_list(pid, cits, inp, obs=col.observe)
        col.count_case(text)
        col.add(vs)
        done_docs += 1
    col.bound_parts.append(f"{done_docs} citation lists extracted by get_citations from generated documents (sampled, all prefixes for C08)")
    # optional: the shared document generator of /verif/props/gen.py, when it exists (never required)
    try:
        import gen as _gen  # type: ignore
        shared = 0
        for case in _gen.documents(seed, max(30, n // 3), focus=(focus if focus and focus.split("/")[0].startswith("resolve.") else "resolve.resolve_citations")):
            if time.time() > t_docs:
                break
            text = case.get("text")
            if not isinstance(text, str):
                continue
            inp = {"kind": "text", "text": text}
            try:
                cits = list(get_citations(text))
            except Exception:
                continue
            if len(cits) > 60:
                continue
            vs, _ = check_list(pid, cits, inp, obs=col.observe)
            col.count_case(text)
            col.add(vs)
            shared += 1
        col.bound_parts.append(f"{shared} citation lists extracted from documents of props/gen.py (regression corpus + generated)")
    except Exception:
        pass

    # ---- layer 1/2: small-scope exhaustive enumeration
    alphabet_names: List[Any] = list(CORE)
    label = "core"
    if focus:
        fn = focus.split("/")[0]
        for keys, alpha in FOCUS_ALPHABETS:
            if any(k in fn for k in keys):
                alphabet_names = list(alpha)
                label = f"focus[{fn}]"
                break
    extra = _hint_letters(hints)
    ext_names: List[Any] = list(EXT) + extra
    if extra:
        alphabet_names = alphabet_names + extra

    # calibrate: time per node on all sequences of length <= 2 over the extended alphabet (always complete)
    t = time.time()
    before = col.evaluations
    ok = _dfs(pid, col, ext_names, ext_names, 2, time.time() + max(5.0, 0.3 * budget))
    per_node = max((time.time() - t) / max(1, col.evaluations - before), 1e-5)
    col.bound_parts.append(f"ALL sequences of length <= 2 over the {len(ext_names)}-letter extended alphabet"
                           + ("" if ok else " (CUT SHORT by the time budget)"))
    if not ok:
        col.exhaustive = False
    # choose L for the main alphabet and for the extended alphabet from what is left (reserve 15% for sampling)
    remaining = col.left() * 0.85
    a = len(alphabet_names)
    L = 2
    while L < 7 and _estimate_nodes(a, L + 1) * per_node * 1.25 <= remaining * 0.8:
        L += 1
    if L > 2 or alphabet_names != ext_names:
        ok = _dfs(pid, col, alphabet_names, alphabet_names, L, time.time() + remaining * 0.95)
        col.bound_parts.append(f"ALL sequences of length <= {L} over the {a}-letter {label} alphabet "
                               f"({_estimate_nodes(a, L)} sequences)" + ("" if ok else " (CUT SHORT by the time budget)"))
        if not ok:
            col.exhaustive = False
    remaining = col.left() * 0.8
    e = len(ext_names)
    if _estimate_nodes(e, 3) * per_node * 1.25 <= remaining:
        ok = _dfs(pid, col, ext_names, ext_names, 3, time.time() + remaining)
        col.bound_parts.append(f"ALL sequences of length <= 3 over the extended alphabet ({_estimate_nodes(e, 3)} sequences)"
                               + ("" if ok else " (CUT SHORT)"))
        if not ok:
            col.exhaustive = False
    # ---- layer 3: random longer sequences over the extended alphabet
    nrand = 0
    t_end = col.t0 + budget
    target = n * 10
    while nrand < target and time.time() < t_end:
        ln = rng.randint(L + 1, L + 6)
        seq = [rng.choice(ext_names) for _ in range(ln)]
        inp = {"kind": "letters", "seq": seq}
        try:
            cits = [make(s) for s in seq]
        except Exception:
            continue
        vs, _ = check_list(pid, cits, inp, obs=col.observe)
        col.count_case(json.dumps(seq, sort_keys=True))
        col.add(vs)
        nrand += 1
    col.bound_parts.append(f"{nrand} random sequences of length {L + 1}..{L + 6} over the extended alphabet (sampled)")
    if col.pruned:
        col.bound_parts.append(f"NOTE: {col.pruned} sequences raised in resolve_citations; their extensions were not enumerated")
        col.exhaustive = False
    col.bound_parts.append("alphabet letters are fresh real citation objects per sequence node: " + ", ".join(
        x if isinstance(x, str) else json.dumps(x)[:60] for x in ext_names))


# =====================================================================================================
# C09 / C10 / C11 -- annotation
# =====================================================================================================
import eyecite.annotate as _ann  # noqa: E402
from eyecite.annotate import SpanUpdater  # noqa: E402
from lxml import etree  # noqa: E402

SENT0 = 0xE000            # private-use characters: never occur in generated texts
MODES = ("unchecked", "skip", "wrap")


def sentinel_pair(k: int, width: int = 1) -> Tuple[str, str]:
    return chr(SENT0 + 2 * k) * width, chr(SENT0 + 2 * k + 1) * width


def _call_annotate(plain: str, anns: List[Tuple[Tuple[int, int], str, str]], source: Optional[str], mode: str,
                   use_dmp: bool) -> str:
    return annotate_citations(plain, anns, source_text=source, unbalanced_tags=mode, use_dmp=use_dmp)


def _trace_balance(plain: str, anns: List[Any], source: Optional[str], mode: str, use_dmp: bool) -> Dict[str, bool]:
    """Re-run with eyecite.annotate.maybe_balance_style_tags wrapped (in this process only) to learn whether the
    style-tag repair moved a start backwards / an end forwards; used only to label the REGION of a violation."""
    moved = {"start_back": False, "end_forward": False}
    orig = _ann.maybe_balance_style_tags

    def wrapper(start: int, end: int, text: str, *a: Any, **k: Any) -> Any:
        r = orig(start, end, text, *a, **k)
        if r[0] < start:
            moved["start_back"] = True
        if r[1] > end:
            moved["end_forward"] = True
        return r

    _ann.maybe_balance_style_tags = wrapper
    try:
        _call_annotate(plain, anns, source, mode, use_dmp)
    except Exception:
        pass
    finally:
        _ann.maybe_balance_style_tags = orig
    return moved


def _strip_inserted(out: str, inserted: Iterable[str]) -> str:
    for s in sorted({x for x in inserted if x}, key=len, reverse=True):
        out = out.replace(s, "")
    return out


def _first_diff(a: str, b: str) -> int:
    n = min(len(a), len(b))
    for i in range(n):
        if a[i] != b[i]:
            return i
    return n


def _c09_region(case: Dict[str, Any], target_is_source: bool) -> str:
    plain, source, mode, use_dmp = case["plain"], case.get("source"), case.get("mode", "unchecked"), case.get("use_dmp", True)
    anns = [((s, e), b, a) for s, e, b, a in case["annotations"]]
    if target_is_source and any(s == e for (s, e), _b, _a in anns):
        rest = [x for x in anns if x[0][0] != x[0][1]]
        try:
            out = _call_annotate(plain, rest, source, mode, use_dmp)
            if _strip_inserted(out, [x for _sp, b, a in rest for x in (b, a)]) == source:
                return "empty_span_with_source"
        except Exception:
            pass
    if mode == "skip":
        mv = _trace_balance(plain, anns, source, mode, use_dmp)
        if mv["start_back"]:
            return "skip_style_repair_moved_start_back"
        if mv["end_forward"]:
            return "skip_style_repair_moved_end_forward"
        return "skip_other"
    return "other"


def _check_C09(case: Dict[str, Any], obs: Optional[Callable[..., None]] = None) -> List[Dict[str, Any]]:
    plain = case["plain"]
    source = case.get("source")
    mode = case.get("mode", "unchecked")
    use_dmp = bool(case.get("use_dmp", True))
    anns = [((int(s), int(e)), b, a) for s, e, b, a in case["annotations"]]
    # target text: the source text if one is given (non-empty) and differs, otherwise the plain text
    target_is_source = bool(source) and source != plain
    target = source if target_is_source else plain
    try:
        out = _call_annotate(plain, anns, source, mode, use_dmp)
    except Exception as e:
        # C09 speaks about the output; a raise is C04's subject -> observation, not a violation
        if obs:
            obs(f"annotate_raised:{type(e).__name__}", case, "annotate_citations raised (not a C09 clause; e.g. plain_text == '' with a source text)")
        return []
    stripped = _strip_inserted(out, [x for _sp, b, a in anns for x in (b, a)])
    if stripped != target:
        d = _first_diff(stripped, target)
        return [viol("strip_inserted_restores_target", case, output=out, stripped=stripped, target=target,
                     first_difference_at=d, region=_c09_region(case, target_is_source))]
    return []


def check_C09(case: Dict[str, Any]) -> List[Dict[str, Any]]:
    """case: {"plain": str, "annotations": [[start, end, before, after], ...], "source": str|None,
    "mode": "unchecked"|"skip"|"wrap", "use_dmp": bool}; before/after must not occur in the texts."""
    return _check_C09(case, None)


# ----------------------------------------------------------------------------------------------------
# C09 generators
# ----------------------------------------------------------------------------------------------------

_WORDS = ["Id.", "at", "3;", "id.", "5", "See", "Foo", "v.", "Bar,", "1", "U.S.", "100", "(1999).", "a", "bb", "supra,",
          # characters whose case mappings change length (casefold / upper / lower): offsets must stay in the coordinates of the given texts
          "Wei\u00df", "Gro\u00df,", "\ufb01led", "\u0130d.", "\u01f0"]
_STYLE = ["i", "em", "b"]
_OTHER_TAGS = ["p", "div", "span", "a"]


def _gen_plain_tagged(rng: random.Random) -> Tuple[str, List[Tuple[int, int]]]:
    """words with style/other tags around random word ranges; returns text and the word spans (in text offsets)"""
    nw = rng.randint(1, 8)
    words = [rng.choice(_WORDS) for _ in range(nw)]
    opens: Dict[int, List[str]] = {}
    closes: Dict[int, List[str]] = {}
    for _ in range(rng.choice([0, 1, 1, 1, 2, 2, 3])):
        a = rng.randrange(nw)
        b = rng.randrange(a, nw)
        tag = rng.choice(_STYLE * 3 + _OTHER_TAGS)
        kind = rng.random()
        if kind < 0.8:
            opens.setdefault(a, []).append(f"<{tag}>")
            closes.setdefault(b, []).insert(0, f"</{tag}>")
        elif kind < 0.9:
            opens.setdefault(a, []).append(f"<{tag}>")       # unbalanced document
        else:
            closes.setdefault(b, []).insert(0, f"</{tag}>")
    parts: List[str] = []
    spans: List[Tuple[int, int]] = []
    pos = 0
    for i, w in enumerate(words):
        pre = "".join(opens.get(i, []))
        post = "".join(closes.get(i, []))
        if i:
            parts.append(" ")
            pos += 1
        parts.append(pre)
        pos += len(pre)
        spans.append((pos, pos + len(w)))
        parts.append(w)
        pos += len(w)
        parts.append(post)
        pos += len(post)
    return "".join(parts), spans


def _gen_plain(rng: random.Random) -> Tuple[str, List[Tuple[int, int]]]:
    r = rng.random()
    if r < 0.45:
        return _gen_plain_tagged(rng)
    if r < 0.7:
        n = rng.randint(0, 10)
        t = "".join(rng.choice("ab <>/i") for _ in range(n))
        return t, []
    n = rng.randint(0, 30)
    t = "".join(rng.choice("abcXY .,\n\t  ") for _ in range(n))
    return t, []


def _gen_spans(rng: random.Random, n: int, word_spans: List[Tuple[int, int]]) -> List[Tuple[int, int]]:
    k = rng.choice([0, 1, 1, 2, 2, 3, 4])
    spans: List[Tuple[int, int]] = []
    for _ in range(k):
        r = rng.random()
        if word_spans and r < 0.45:
            a = rng.randrange(len(word_spans))
            b = min(len(word_spans) - 1, a + rng.choice([0, 0, 1, 1, 2]))
            spans.append((word_spans[a][0], word_spans[b][1]))
        elif spans and r < 0.55:
            s0, e0 = rng.choice(spans)                      # touching the end of an earlier one
            spans.append((e0, rng.randint(e0, n)))
        elif spans and r < 0.65:
            s0, e0 = rng.choice(spans)                      # overlapping / nested / duplicate
            s = rng.randint(s0, e0)
            spans.append((s, rng.randint(s, n)))
        elif r < 0.75:
            s = rng.randint(0, n)
            spans.append((s, s))                            # empty
        else:
            s = rng.randint(0, n)
            spans.append((s, rng.randint(s, min(n, s + rng.choice([1, 2, 5, 12, n])))))
    rng.shuffle(spans)                                      # unsorted
    return spans


def _gen_source(rng: random.Random, plain: str) -> Optional[str]:
    r = rng.random()
    if r < 0.4:
        return None
    if r < 0.45:
        return plain
    chars = list(plain)
    out: List[str] = []
    ins_tags = ["<i>", "</i>", "<em>", "</em>", "<b>", "</b>", "<p>", "</p>", "<br/>", "\n", "  ", "\t"]
    style = rng.random()
    for ch in chars + [None]:
        x = rng.random()
        if x < 0.12:
            out.append(rng.choice(ins_tags))                # tag / whitespace insertion
        if ch is None:
            break
        y = rng.random()
        if style < 0.5:
            out.append(ch)                                  # insertion only
        elif ch in " \n\t" and y < 0.3:
            out.append(rng.choice(["\n", "  ", "", " \n "]))  # whitespace change
        elif y < 0.06:
            out.append(rng.choice("zq&;"))                  # character replacement
        elif y < 0.09:
            pass                                            # deletion
        else:
            out.append(ch)
    return "".join(out)


def gen_case_C09(rng: random.Random) -> Dict[str, Any]:
    plain, wspans = _gen_plain(rng)
    spans = _gen_spans(rng, len(plain), wspans)
    source = _gen_source(rng, plain)
    if source == "":
        source = None
    mode = rng.choice(MODES)
    width = rng.choice([1, 1, 2])
    shared = rng.random() < 0.3
    marker_style = rng.choice([0, 0, 1])
    anns = []
    for k, (s, e) in enumerate(spans):
        b, a = sentinel_pair(0 if shared else k, width)
        if marker_style == 1:
            # realistic markers: regex-special and template-special characters around the private-use sentinel (which keeps them unique)
            b = f'<a class="cite" href="/c/{k}-us-1.html?ref=x#p[{k}]">' + b
            a = a + "</a><!-- end cite (\\g<0> $1 \\1) -->"
        if rng.random() < 0.05:
            b = ""
        elif rng.random() < 0.05:
            a = ""
        anns.append([s, e, b, a])
    return {"plain": plain, "annotations": anns, "source": source, "mode": mode, "use_dmp": rng.random() < 0.6}


_S0, _S1, _S2, _S3 = chr(SENT0), chr(SENT0 + 1), chr(SENT0 + 2), chr(SENT0 + 3)
FIXED_C09 = [
    # DESIGN section 7 row 9 without and with a source text, row 10 with both engines
    {"plain": "<i>Id. at 3; id.</i> at 5", "annotations": [[3, 11, _S0, _S1], [13, 25, _S2, _S3]],
     "source": None, "mode": "skip", "use_dmp": True},
    {"plain": "Id. at 3; id. at 5", "annotations": [[0, 8, _S0, _S1], [10, 18, _S2, _S3]],
     "source": "<i>Id. at 3; id.</i> at 5", "mode": "skip", "use_dmp": True},
    {"plain": "ab", "annotations": [[1, 1, _S0, _S1]], "source": "a<i>b", "mode": "unchecked", "use_dmp": True},
    {"plain": "ab", "annotations": [[1, 1, _S0, _S1]], "source": "a<i>b", "mode": "unchecked", "use_dmp": False},
]


def run_C09(col: Collector, seed: int, n: int, focus: Optional[str], hints: Any) -> None:
    rng = random.Random(f"{seed}/C09")
    target = max(200, n * 400)
    done = 0
    for case in FIXED_C09:
        col.count_case(json.dumps(case, sort_keys=True))
        col.add(_check_C09(case, col.observe))
    while done < target and col.left() > 0:
        case = gen_case_C09(rng)
        if focus and "maybe_balance_style_tags" in focus:
            case["mode"] = "skip"
        if focus and "wrap_html_tags" in focus:
            case["mode"] = "wrap"
        if focus and ("SpanUpdater" in focus or "get_diff_steps" in focus) and not case["source"]:
            case["source"] = _gen_source(rng, case["plain"]) or None
        col.count_case(json.dumps(case, sort_keys=True))
        col.add(_check_C09(case, col.observe))
        done += 1
    col.exhaustive = False
    col.bound_parts.append(
        f"{done} sampled (plain, annotations, source, mode, engine) cases + {len(FIXED_C09)} fixed ones: plain texts of "
        "0..8 words with balanced/unbalanced style and other tags, strings over 'ab <>/i' up to length 10, prose up to "
        "30 chars; 0..4 spans (word aligned, touching, overlapping, nested, empty, unsorted); source None / equal / "
        "derived by tag+whitespace insertion, whitespace changes, replacements, deletions; modes unchecked/skip/wrap; "
        "both diff engines; before/after = private-use sentinels (U+E000..), width 1..2, shared or distinct, sometimes empty")


# ----------------------------------------------------------------------------------------------------
# C10
# ----------------------------------------------------------------------------------------------------

def _sorted_like_code(anns: List[Tuple[Tuple[int, int], str, str]]) -> List[Tuple[Tuple[int, int], str, str]]:
    return sorted(anns)


def _check_C10(case: Dict[str, Any], obs: Optional[Callable[..., None]] = None) -> List[Dict[str, Any]]:
    clause = case["clause"]
    if clause == "A":
        plain, mode = case["plain"], case.get("mode", "unchecked")
        anns = [((int(s), int(e)),) + sentinel_pair(k) for k, (s, e) in enumerate(case["annotations"])]
        try:
            out = _call_annotate(plain, list(anns), None, mode, True)
        except Exception as e:
            if obs:
                obs(f"annotate_raised:{type(e).__name__}", case, "annotate_citations raised (not a C10 clause)")
            return []
        order = _sorted_like_code(anns)
        vs: List[Dict[str, Any]] = []
        last_pos = -1
        for k, ((s, e), b, a) in enumerate(order):
            if s >= e:
                continue
            # 'does not overlap an earlier one': intersects no annotation that sorts before it (weak reading: also
            # annotations that were themselves not emitted count as 'earlier ones')
            if any(s2 < e and s < e2 for (s2, e2), _b, _a in order[:k]):
                continue
            want = b + plain[s:e] + a
            nb, na = out.count(b), out.count(a)
            ib = out.find(b)
            if nb != 1 or na != 1 or out[ib:ib + len(want)] != want:
                vs.append(viol("exact_once_in_order", case, span=[s, e], output=out, expected_piece=want,
                               count_before=nb, count_after=na))
                break
            if ib <= last_pos:
                vs.append(viol("exact_once_in_order", case, span=[s, e], output=out, why="annotations not in span order"))
                break
            last_pos = ib
        return vs
    if clause == "B":
        a, b, use_dmp = case["a"], case["b"], bool(case.get("use_dmp", True))
        if len(a) < 1:
            return []
        try:
            u = SpanUpdater(a, b, use_dmp=use_dmp)
        except Exception as e:
            if obs:
                obs(f"SpanUpdater_raised:{type(e).__name__}", case, "SpanUpdater(a, b) raised")
            return []
        for name, bis in (("bisect_left", bisect_left), ("bisect_right", bisect_right)):
            try:
                vals = [u.update(o, bis) for o in range(len(a) + 1)]
            except Exception as e:
                return [viol(f"raised:{type(e).__name__}", case, bisect=name, message=str(e)[:200])]
            bad = lambda vs: any(x > y for x, y in zip(vs, vs[1:])) or any(v < 0 or v > len(b) for v in vs)  # noqa: E731
            if bad(vals):
                # region: update(0, bisect_left) computes index -1 and silently uses the LAST updater
                region = "bisect_left_at_offset_0" if (bis is bisect_left and not bad(vals[1:])) else "other"
                return [viol("monotone_in_range", case, bisect=name, translated=vals, len_b=len(b), region=region)]
        return []
    if clause == "C":
        plain = case["plain"]
        use_dmp = bool(case.get("use_dmp", True))
        inserts = sorted(((int(p), s) for p, s in case["inserts"]), key=lambda x: x[0])
        # source: `s` inserted in front of plain character p (p == len(plain): at the end); pos[i] = source index of plain[i]
        pos: List[int] = []
        src: List[str] = []
        cur = 0
        it = 0
        for i in range(len(plain) + 1):
            while it < len(inserts) and inserts[it][0] == i:
                src.append(inserts[it][1])
                cur += len(inserts[it][1])
                it += 1
            if i < len(plain):
                pos.append(cur)
                src.append(plain[i])
                cur += 1
        source = "".join(src)
        if set(plain) & set("".join(s for _p, s in inserts)):
            return []                                   # outside the clause: inserted material must be foreign
        spans = sorted((int(s), int(e)) for s, e in case["annotations"])
        if any(s >= e for s, e in spans) or any(e1 > s2 for (_s1, e1), (s2, _e2) in zip(spans, spans[1:])):
            return []                                   # clause C is stated for non-empty, non-overlapping spans
        anns = [((s, e),) + sentinel_pair(k) for k, (s, e) in enumerate(spans)]
        try:
            out = _call_annotate(plain, list(anns), source, "unchecked", use_dmp)
        except Exception as e:
            if obs:
                obs(f"annotate_raised:{type(e).__name__}", case, "annotate_citations raised (not a C10 clause)")
            return []
        if not source or source == plain:
            expected_pos = list(range(len(plain)))
        else:
            expected_pos = pos
        pieces: List[str] = []
        last = 0
        for (s, e), b, a in anns:
            ps, pe = expected_pos[s], expected_pos[e - 1] + 1
            pieces += [source[last:ps], b, source[ps:pe], a]
            last = pe
        pieces.append(source[last:])
        expected = "".join(pieces)
        if out != expected:
            if not use_dmp:
                # the clause's oracle rests on the MINIMAL diff being unique; difflib does not compute a minimal diff
                # and the statement names both engines only for the monotone/in-range clause -> observation
                if obs:
                    obs("difflib_alignment_differs_from_forced_alignment", case,
                        "use_dmp=False: difflib's non-minimal diff places an annotation on other source characters than the "
                        "forced alignment (clause C is checked as a violation for the default engine only)")
                return []
            return [viol("encloses_plain_span", case, source=source, output=out, expected=expected,
                         engine="fast_diff_match_patch")]
        return []
    raise ValueError(f"unknown C10 clause {clause!r}")


def check_C10(case: Dict[str, Any]) -> List[Dict[str, Any]]:
    """case: {"clause":"A","plain":str,"annotations":[[s,e],...],"mode":str}
           | {"clause":"B","a":str,"b":str,"use_dmp":bool}
           | {"clause":"C","plain":str,"inserts":[[plain_index, inserted_string],...],"annotations":[[s,e],...],"use_dmp":bool}
    (sentinel pair k = U+E000+2k / U+E001+2k is given to the k-th annotation)."""
    return _check_C10(case, None)


def run_C10(col: Collector, seed: int, n: int, focus: Optional[str], hints: Any) -> None:
    rng = random.Random(f"{seed}/C10")
    want = {"A", "B", "C"}
    if focus:
        fn = focus.split("/")[0]
        if "SpanUpdater" in fn or "get_diff_steps" in fn:
            want = {"B", "C"}
    budget = col.budget_s
    # ---- B exhaustive: all pairs of strings over {a,b} with 1 <= len(a) <= L, len(b) <= L, both engines
    if "B" in want:
        t_b = col.t0 + 0.45 * budget
        per = 4e-5
        L_done = 0
        by_len = {ln: ["".join(t) for t in itertools.product("ab", repeat=ln)] for ln in range(0, 8)}
        for L in range(1, 8):
            # the pairs (a, b) with max(len(a), len(b)) == L and len(a) >= 1
            pairs_n = sum(len(by_len[la]) * len(by_len[lb]) for la in range(1, L + 1) for lb in range(0, L + 1) if max(la, lb) == L)
            if L > 4 and time.time() + pairs_n * 2 * per > t_b:
                break
            t = time.time()
            cnt = 0
            for la in range(1, L + 1):
                for lb in range(0, L + 1):
                    if max(la, lb) != L:
                        continue
                    for a in by_len[la]:
                        for b in by_len[lb]:
                            for dmp in (True, False):
                                col.count_case()
                                col.add(_check_C10({"clause": "B", "a": a, "b": b, "use_dmp": dmp}, col.observe))
                                cnt += 1
            per = max(per, (time.time() - t) / max(cnt, 1))
            L_done = L
        L = L_done
        col.bound_parts.append(f"clause B: ALL pairs (a, b) of strings over {{a,b}} with 1 <= len(a) <= {L}, len(b) <= {L}, both diff engines, both bisects, every offset 0..len(a)")
        nb = 0
        while nb < n * 10 and time.time() < t_b + 0.05 * budget:
            a = "".join(rng.choice("ab c\n") for _ in range(rng.randint(1, 40)))
            b = _gen_source(rng, a) or a[::-1]
            for dmp in (True, False):
                case = {"clause": "B", "a": a, "b": b, "use_dmp": dmp}
                col.count_case(json.dumps(case))
                col.add(_check_C10(case, col.observe))
            nb += 1
        col.bound_parts.append(f"clause B: {nb} sampled longer pairs (b derived from a by insertions/whitespace changes/replacements/deletions), both engines")
    # ---- A: generated plain texts and span sets, no source
    if "A" in want:
        na = 0
        t_a = time.time() + 0.2 * budget
        while na < n * 50 and time.time() < t_a:
            plain, wspans = _gen_plain(rng)
            mode = rng.choice(MODES)
            if mode != "unchecked" and ("<" in plain or ">" in plain):
                mode = "unchecked"      # skip/wrap may legitimately omit/split annotations when tags are involved
            spans = _gen_spans(rng, len(plain), wspans)
            case = {"clause": "A", "plain": plain, "annotations": [[s, e] for s, e in spans], "mode": mode}
            col.count_case(json.dumps(case))
            col.add(_check_C10(case, col.observe))
            na += 1
        col.bound_parts.append(f"clause A: {na} sampled (plain, span set) cases without source (unchecked mode; skip/wrap only for texts without angle brackets), distinct sentinel pair per annotation")
    # ---- C: forced alignment
    if "C" in want:
        nc = 0
        foreign = ["<i>", "</i>", "\n", "\t\t", "<p>", "</p>", "_", "<i></i>"]
        t_c = col.t0 + budget
        # small-scope part: plain 'abab'-like strings up to length 4, one or two insertions, every single span
        small_done = 0
        for ln in range(1, 5):
            for tup in itertools.product("ab", repeat=ln):
                plain = "".join(tup)
                for p1 in range(ln + 1):
                    for ins in ("<i>", "\n"):
                        for s in range(ln):
                            for e in range(s + 1, ln + 1):
                                for dmp in (True, False):
                                    case = {"clause": "C", "plain": plain, "inserts": [[p1, ins]], "annotations": [[s, e]], "use_dmp": dmp}
                                    col.count_case()
                                    col.add(_check_C10(case, col.observe))
                                    small_done += 1
        col.bound_parts.append(f"clause C: ALL plain strings over {{a,b}} of length 1..4 x one insertion ('<i>' or newline) at every position x every non-empty span x both engines ({small_done} cases)")
        while nc < n * 50 and time.time() < t_c:
            ln = rng.randint(1, 24)
            plain = "".join(rng.choice("abc. abc. \u00df\ufb01\u0130") for _ in range(ln))      # incl. characters whose case mappings change length
            inserts = [[rng.randint(0, ln), rng.choice(foreign)] for _ in range(rng.choice([0, 1, 1, 2, 3, 5]))]
            cuts = sorted(rng.sample(range(ln + 1), min(ln + 1, rng.choice([2, 2, 3, 4, 6]))))
            spans = []
            i = 0
            while i + 1 < len(cuts):
                spans.append([cuts[i], cuts[i + 1]])
                i += rng.choice([1, 2])                  # touching or separated
            case = {"clause": "C", "plain": plain, "inserts": inserts, "annotations": spans, "use_dmp": rng.random() < 0.5}
            col.count_case(json.dumps(case))
            col.add(_check_C10(case, col.observe))
            nc += 1
        col.bound_parts.append(f"clause C: {nc} sampled cases (plain over 'abc. ' up to 24 chars, 0..5 foreign insertions, 1..3 disjoint/touching spans, either engine; exact expected output)")
        # long multi-line documents with repeated identical lines (both texts > 100 characters: the regime where a line-mode
        # diff would be taken), citations on some lines wrapped in foreign tags
        nl = 0
        pool = ["Accord 2 U.S. 2.", "The rule was first announced in 1 U.S. 1 and later extended.", "The dissent relied instead on 3 U.S. 3.",
                "See also 4 U.S. 4; 5 U.S. 5.", "It was so.", "Accord 2 U.S. 2.", "Id. at 7.",
                "In Wei\u00df v. Gro\u00df, 12 U.S. 345 (1999), the rule was set.", "The brief was \ufb01led late. See 6 U.S. 6."]
        cite_re = re.compile(r"\d+ U\.S\. \d+")
        t_l = time.time() + 0.1 * budget
        while nl < n * 5 and time.time() < t_l + 0.1 * budget:
            lines = []
            for _ in range(rng.randint(3, 9)):
                ln_ = rng.choice(pool)
                lines += [ln_] * rng.choice([1, 1, 2, 4])
            plain = "\n".join(lines) + "\n"
            spans = [list(m.span()) for m in cite_re.finditer(plain)]
            inserts = []
            for sp in spans:
                if rng.random() < 0.5:
                    inserts.append([sp[0], "<q>"])
                    inserts.append([sp[1], "</q>"])
            keep = [sp for sp in spans if rng.random() < 0.8] or spans[:1]
            case = {"clause": "C", "plain": plain, "inserts": inserts, "annotations": keep, "use_dmp": rng.random() < 0.7}
            col.count_case(json.dumps(case))
            col.add(_check_C10(case, col.observe))
            nl += 1
        col.bound_parts.append(f"clause C: {nl} sampled multi-line documents (> 100 characters, repeated identical lines, citations on some lines wrapped in foreign tags)")
    col.exhaustive = ("B" in want)


# ----------------------------------------------------------------------------------------------------
# C11
# ----------------------------------------------------------------------------------------------------

_TXT = "ABCDEFGHKLMNOP QRST 0123456789 .,;"
_BLOCK = ["p", "div"]


def gen_tree(rng: random.Random, depth: int = 0) -> str:
    parts: List[str] = []
    for _ in range(rng.randint(1, 3)):
        if depth >= 3 or rng.random() < 0.5:
            parts.append("".join(rng.choice(_TXT) for _ in range(rng.randint(1, 6))))
        else:
            tag = rng.choice(_STYLE * 3 + _BLOCK)
            inner = gen_tree(rng, depth + 1) if rng.random() < 0.92 else ""
            parts.append(f"<{tag}>{inner}</{tag}>")
    return "".join(parts)


def _parse_fragment(s: str) -> Any:
    return etree.fromstring(f"<div>{s}</div>")


def _looks_bad_c11(out: str, plain: str) -> bool:
    try:
        return "".join(_parse_fragment(out).itertext()) != plain
    except etree.XMLSyntaxError:
        return True


def _check_C11(case: Dict[str, Any], obs: Optional[Callable[..., None]] = None) -> List[Dict[str, Any]]:
    source, mode, use_dmp = case["source"], case["mode"], bool(case.get("use_dmp", True))
    try:
        plain = "".join(_parse_fragment(source).itertext())
    except etree.XMLSyntaxError:
        return []                                        # precondition: the source is well-formed markup
    if plain == "":
        return []                                        # excluded corner (SpanUpdater needs len(plain) >= 1)
    spans = [(int(s), int(e)) for s, e in case["spans"]]
    befores = [f'<a href="{k}">' for k in range(len(spans))]
    after = "</a>"
    anns = [((s, e), befores[k], after) for k, (s, e) in enumerate(spans)]
    try:
        out = _call_annotate(plain, list(anns), source, mode, use_dmp)
    except Exception as e:
        if obs:
            obs(f"annotate_raised:{type(e).__name__}", case, "annotate_citations raised (not a C11 clause)")
        return []
    region = "empty_span_with_source" if any(s == e for s, e in spans) and source != plain else mode
    if region == "skip":
        mv = _trace_balance(plain, list(anns), source, mode, use_dmp) if _looks_bad_c11(out, plain) else None
        if mv and mv["start_back"]:
            region = "skip_style_repair_moved_start_back"
        elif mv and mv["end_forward"]:
            region = "skip_style_repair_moved_end_forward"
    vs: List[Dict[str, Any]] = []
    root = None
    try:
        root = _parse_fragment(out)
    except etree.XMLSyntaxError as e:
        vs.append(viol("output_well_formed", case, plain=plain, output=out, error=str(e)[:120], region=region))
    if mode == "skip" and "<a" not in source and "</a" not in source:
        for k, b in enumerate(befores):
            i = out.find(b)
            if i < 0:
                continue
            j = out.find(after, i)
            content = out[i + len(b): j if j >= 0 else len(out)]
            try:
                _parse_fragment(content)
            except etree.XMLSyntaxError:
                vs.append(viol("skip_never_unbalanced", case, plain=plain, output=out, annotation=k, enclosed=content, region=region))
                break
    if mode == "wrap":
        order = sorted(range(len(spans)), key=lambda k: (spans[k], befores[k], after))
        for n_, k in enumerate(order):
            s, e = spans[k]
            if s >= e or any(spans[j][0] < e and s < spans[j][1] for j in order[:n_]):
                continue                                 # empty or overlapping an earlier one: may be clipped/dropped
            if befores[k] not in out:
                vs.append(viol("wrap_all_present", case, plain=plain, output=out, annotation=k, span=[s, e], region=region))
                break
    if root is not None:
        txt = "".join(root.itertext())
        if txt != plain:
            vs.append(viol("text_content_unchanged", case, plain=plain, output=out, output_text=txt, region=region))
    return vs


def check_C11(case: Dict[str, Any]) -> List[Dict[str, Any]]:
    """case: {"source": well-formed fragment, "spans": [[s,e],...] over its text content, "mode": "skip"|"wrap",
    "use_dmp": bool}; annotation k is <a href="k"> ... </a>"""
    return _check_C11(case, None)


def run_C11(col: Collector, seed: int, n: int, focus: Optional[str], hints: Any) -> None:
    rng = random.Random(f"{seed}/C11")
    trees = 0
    exhaustive_trees = 0
    fixed = ["<i>ID. AT 3; ID.</i> AT 5", "<i>A</i>B", "A<p>B</p>C", "<b><i>AB</i>C</b>D"]
    target_trees = max(20, n * 6)
    while trees < target_trees + len(fixed) and col.left() > 0:
        source = fixed[trees] if trees < len(fixed) else gen_tree(rng)
        trees += 1
        try:
            plain = "".join(_parse_fragment(source).itertext())
        except etree.XMLSyntaxError:      # generator bug guard
            col.observe("generator_produced_malformed_tree", source, "skipped")
            continue
        ln = len(plain)
        if ln == 0:
            continue
        span_sets: List[List[List[int]]] = []
        if ln <= 12:
            exhaustive_trees += 1
            span_sets += [[[s, e]] for s in range(ln) for e in range(s + 1, ln + 1)]
        for _ in range(12):
            cuts = sorted(rng.sample(range(ln + 1), min(ln + 1, rng.choice([2, 3, 4, 4, 6]))))
            ss = []
            i = 0
            while i + 1 < len(cuts):
                ss.append([cuts[i], cuts[i + 1]])
                i += rng.choice([1, 1, 2])
            r = rng.random()
            if r < 0.15 and ss:
                s0, e0 = rng.choice(ss)
                ss.append([rng.randint(s0, e0), rng.randint(e0, ln)])     # overlapping
            elif r < 0.2:
                x = rng.randint(0, ln)
                ss.append([x, x])                                           # empty
            rng.shuffle(ss)
            span_sets.append(ss)
        for ss in span_sets:
            for mode in ("skip", "wrap"):
                case = {"source": source, "spans": ss, "mode": mode, "use_dmp": rng.random() < 0.8}
                col.count_case(json.dumps(case))
                col.add(_check_C11(case, col.observe))
    col.exhaustive = False
    col.bound_parts.append(
        f"{trees} generated well-formed fragments (nested i/em/b/p/div, depth <= 4, text over upper-case letters, digits, "
        f"space and '.,;' -- disjoint from markup characters); for the {exhaustive_trees} fragments with <= 12 text characters "
        "EVERY single non-empty span, plus 12 sampled span sets per fragment (1..3 disjoint/touching spans, 15% with an "
        "overlapping span, 5% with an empty span); modes skip and wrap; before/after = <a href=\"k\">/</a>; lxml.etree is the judge")


# =====================================================================================================
# C16 -- citation equality
# =====================================================================================================

_KINDS4 = (FullCaseCitation, ShortCaseCitation, FullLawCitation, FullJournalCitation)


def _kind4(o: Any) -> Optional[str]:
    for k in _KINDS4:
        if type(o) is k:
            return k.__name__
    return None


def _build_pool(descs: List[Dict[str, Any]]) -> List[Any]:
    """descriptor -> real object.  {"text": t, "index": i, "twin": bool}: i-th citation of get_citations(t) (the twin
    comes from a second, separate extraction of the same text, i.e. a distinct object); {"spec": letter spec}."""
    ext: Dict[Tuple[str, bool], List[Any]] = {}
    out: List[Any] = []
    for d in descs:
        if "text" in d:
            key = (d["text"], bool(d.get("twin")))
            if key not in ext:
                ext[key] = list(get_citations(d["text"]))
            out.append(ext[key][d["index"]])
        else:
            out.append(make(d["spec"]))
    return out


def _is_plain_case(o: Any) -> bool:
    return isinstance(o, CaseCitation) and o.groups.get("page") is not None


def _stmt_case_equal(a: Any, b: Any) -> bool:
    """'exactly when their volume, page and normalised reporter agree' (and the class agrees)"""
    return (type(a) is type(b) and a.groups.get("volume") == b.groups.get("volume")
            and a.groups.get("page") == b.groups.get("page") and a.corrected_reporter() == b.corrected_reporter())


def pool_violations(descs: List[Dict[str, Any]], objs: List[Any], obs: Optional[Callable[..., None]] = None) -> List[Dict[str, Any]]:
    n = len(objs)
    out: List[Dict[str, Any]] = []
    seen: set = set()

    def report(clause: str, idx: Sequence[int], **detail: Any) -> None:
        if clause in seen:
            return
        seen.add(clause)
        out.append(viol(clause, {"clause": "pool", "items": [descs[i] for i in idx]},
                        citations=[describe(objs[i]) for i in idx], **detail))

    H = [hash(o) for o in objs]
    EQ = [[bool(objs[i] == objs[j]) for j in range(n)] for i in range(n)]
    for i in range(n):
        if not EQ[i][i]:
            report("equivalence_laws", [i], law="reflexive")
        if hash(objs[i]) != H[i]:
            report("equivalence_laws", [i], law="hash is stable")
    for i in range(n):
        oi = objs[i]
        # a placeholder page is recognised from the MATCHED TEXT (last field a run of underscores), not only from the code's own
        # normalisation of groups["page"] to None -- so that a change to that normalisation is noticed
        _data = str(getattr(getattr(oi, "token", None), "data", "") or "")
        _last = _data.split()[-1] if _data.split() else ""
        identity_kind = ("placeholder_identity" if isinstance(oi, CaseCitation) and (oi.groups.get("page") is None or (_last and set(_last) == {"_"}))
                         else "id_unknown_identity" if isinstance(oi, (IdCitation, UnknownCitation)) else None)
        for j in range(n):
            if i == j:
                continue
            oj = objs[j]
            e = EQ[i][j]
            if e != EQ[j][i]:
                report("equivalence_laws", [i, j], law="symmetric")
            if e and H[i] != H[j]:
                report("equivalence_laws", [i, j], law="equal objects have equal hashes")
            if identity_kind and (e or H[i] == H[j]) and oi is not oj:
                report(identity_kind, [i, j], why="equal (or hash-equal) to a different object")
            if i < j:
                ki, kj = _kind4(oi), _kind4(oj)
                if ki and kj and ki != kj and e:
                    report("cross_kind_never_equal", [i, j])
                if _is_plain_case(oi) and _is_plain_case(oj):
                    exp = _stmt_case_equal(oi, oj)
                    if e != exp or (H[i] == H[j]) != exp:
                        report("case_eq_iff", [i, j], expected_equal=exp, equal=e, hash_equal=H[i] == H[j])
                    elif isinstance(oi, FullCaseCitation) and isinstance(oj, FullCaseCitation):
                        ri, rj = Resource(oi), Resource(oj)
                        if (ri == rj) != exp or (hash(ri) == hash(rj)) != exp:
                            report("case_eq_iff", [i, j], expected_equal=exp, resources_equal=bool(ri == rj),
                                   why="Resource(a) == Resource(b) disagrees")
                if identity_kind and oi is not oj and isinstance(oi, FullCaseCitation) and isinstance(oj, FullCitation):
                    # (a generated pool may list one text twice: the same object at two positions is not "another citation")
                    if Resource(oi) == Resource(oj):
                        report(identity_kind, [i, j], why="resources of a placeholder-page citation and another citation are equal")
                # stricter reading, observation only: 'citations with a placeholder page are equal only to themselves'
                # read for journal/law citations too (they hash their groups by value, page None included)
                if obs and e and oi is not oj and not isinstance(oi, CaseCitation) and isinstance(oi, FullCitation) \
                        and "page" in oi.groups and oi.groups.get("page") is None:
                    obs("non_case_placeholder_page_equal_by_value", {"clause": "pool", "items": [descs[i], descs[j]]},
                        "stricter reading of C16 ('citations with a placeholder page are equal only to themselves' for ALL "
                        "kinds): two distinct journal/law citations with a placeholder page compare equal")
    # transitivity
    for i in range(n):
        row = EQ[i]
        for j in range(n):
            if row[j]:
                rj = EQ[j]
                for k in range(n):
                    if rj[k] and not row[k]:
                        report("equivalence_laws", [i, j, k], law="transitive")
                        break
    return out


def _single_plain(text: str, reporter: str, vol: str = "1", page: str = "1") -> Optional[Any]:
    cs = get_citations(text)
    if len(cs) != 1:
        return None
    c = cs[0]
    if not isinstance(c, FullCaseCitation) or c.matched_text() != text:
        return None
    g = c.groups
    if g.get("reporter") != reporter or g.get("volume") != vol or g.get("page") != page:
        return None
    return c


def _check_C16(case: Dict[str, Any], obs: Optional[Callable[..., None]] = None) -> List[Dict[str, Any]]:
    cl = case["clause"]
    if cl == "pool":
        descs = case["items"]
        return pool_violations(descs, _build_pool(descs), obs)
    if cl == "variation_equals_canonical":
        v, canon = case["variation"], case["canonical"]
        a = _single_plain(f"1 {v} 1", v)
        b = _single_plain(f"1 {canon} 1", canon)
        if a is None or b is None:
            if obs:
                obs("variation_not_extracted_as_plain_case_citation", case,
                    "'1 <variation> 1' or '1 <canonical> 1' is not extracted as exactly one full case citation spelled "
                    "that way (custom cite format, or another reading wins) -- outside the clause, skipped")
            return []
        if not (a == b and hash(a) == hash(b) and Resource(a) == Resource(b) and b == a):
            return [viol("variation_equals_canonical", case, variation=describe(a), canonical=describe(b),
                         corrected=[a.corrected_reporter(), b.corrected_reporter()])]
        return []
    if cl == "reparse_fixed_point":
        text = case["text"]
        cs = get_citations(text)
        if len(cs) != 1 or not isinstance(cs[0], FullCaseCitation) or cs[0].matched_text() != text:
            return []
        c = cs[0]
        norm = c.corrected_citation()
        again = get_citations(norm)
        same = [x for x in again if x == c]
        if not same:
            return [viol("reparse_fixed_point", case, normalised=norm, reparsed=[describe(x) for x in again],
                         why="the normalised text does not re-parse to an equal citation")]
        if same[0].corrected_citation() != norm:
            return [viol("reparse_fixed_point", case, normalised=norm, second=same[0].corrected_citation(),
                         why="normalisation is not a fixed point")]
        return []
    if cl == "irrelevant_context":
        core, variant = case["core"], case["variant"]
        base = get_citations(core)
        if len(base) != 1 or not isinstance(base[0], FullCaseCitation):
            return []
        b = base[0]
        hits = [c for c in get_citations(variant) if isinstance(c, FullCaseCitation)
                and all(c.groups.get(k) == b.groups.get(k) for k in ("volume", "reporter", "page"))]
        if not hits:
            if obs:
                obs("context_variant_not_extracted", case, "the variant text did not yield the core citation (extraction, not equality) -- skipped")
            return []
        for c in hits:
            if not (c == b and b == c and hash(c) == hash(b) and Resource(c) == Resource(b)):
                return [viol("irrelevant_context", case, base=describe(b), variant=describe(c))]
        return []
    raise ValueError(f"unknown C16 clause {cl!r}")


def check_C16(case: Dict[str, Any]) -> List[Dict[str, Any]]:
    """case: {"clause":"pool","items":[{"text":t,"index":i,"twin":bool} | {"spec":{...}}, ...]}  (case_eq_iff,
    placeholder_identity, id_unknown_identity, cross_kind_never_equal, equivalence_laws over all pairs/triples)
    | {"clause":"variation_equals_canonical","variation":v,"canonical":c}
    | {"clause":"reparse_fixed_point","text":"1 <reporter> 1"}
    | {"clause":"irrelevant_context","core":"5 U.S. 137","variant":"Marbury v. Madison, 5 U.S. (1 Cranch) 137, 140 (1803)"}"""
    return _check_C16(case, None)


_C16_REPS = ["U.S.", "U. S.", "F.2d", "F. 2d", "F.3d", "S. Ct.", "S.Ct.", "L. Ed. 2d", "L.Ed.2d", "F. Supp.", "N.E.2d", "P.2d", "Cal. Rptr."]
_NOMINATIVE = ["Dall.", "Cranch", "Wheat.", "Pet.", "How.", "Black", "Wall."]


_C16_YEAR_REPS = ["Am. Law Reg.", "Chi. Leg. News", "Brown Adm."]     # formats "$volume $reporter ($year) $page": an extra regex group that must not matter


def _c16_texts(rng: random.Random, k: int) -> List[str]:
    out = []
    # the same (volume, reporter, page) written with and without the optional year group, and with two different years
    rep = rng.choice(_C16_YEAR_REPS)
    v, pg = rng.choice(["3", "14"]), rng.choice(["10", "120"])
    out += [f"{v} {rep} {pg}", f"{v} {rep} (1866) {pg}", f"See {v} {rep} (1867) {pg}."]
    for _ in range(k):
        rep = rng.choice(_C16_REPS)
        vol, page = rng.choice(["1", "2", "10"]), rng.choice(["1", "5", "100", "___", "_", "__", "_____"])
        core = f"{vol} {rep} {page}"
        t = rng.choice([
            "{c}", "See {c}.", "{p} v. {d}, {c}", "{p} v. {d}, {c}, {pin} ({y})", "{p} v. {d}, {c} ({y}) (holding that x)",
            "Lorem ipsum {c} dolor sit.", "{p} v. {d}, {c}. {p}, {v} {r}, at {pin}. Id. at {pin}.",
            "{c}; 1 Minn. L. Rev. {pg}; Mass. Gen. Laws ch. 1, § 2; § 5.", "{v} {r}, at {pin}", "{p}, {v} {r} at {pin}",
        ])
        out.append(t.format(c=core, p=rng.choice(_NAMES), d=rng.choice(_NAMES), pin=rng.choice(["3", "101"]),
                            y=rng.choice(["1999", "1950", "2005"]), v=vol, r=rep, pg=rng.choice(["1", "___"])))
    return out


def run_C16(col: Collector, seed: int, n: int, focus: Optional[str], hints: Any) -> None:
    rng = random.Random(f"{seed}/C16")
    from reporters_db import REPORTERS
    from eyecite.tokenizers import EDITIONS_LOOKUP
    # ---- exhaustive over the reporters database
    strings: set = set()
    nvar = nuniq = 0
    for _key, cluster in REPORTERS.items():
        for src in cluster:
            for ed in src["editions"]:
                strings.add(ed)
            for v in src["variations"]:
                strings.add(v)
                nvar += 1
                eds = set(EDITIONS_LOOKUP[v])
                if len(eds) == 1:
                    nuniq += 1
                    case = {"clause": "variation_equals_canonical", "variation": v, "canonical": next(iter(eds)).short_name}
                    col.count_case(json.dumps(case))
                    col.add(_check_C16(case, col.observe))
    skipped = col.observations.get("variation_not_extracted_as_plain_case_citation", {}).get("count", 0)
    col.bound_parts.append(f"variation_equals_canonical: ALL {nuniq} variation strings of reporters_db.REPORTERS that map to exactly "
                           f"one edition (of {nvar} variation entries), as '1 <variation> 1' vs '1 <canonical> 1' ({skipped} skipped: "
                           "not extracted as one plain full case citation spelled that way)")
    for s in sorted(strings):
        case = {"clause": "reparse_fixed_point", "text": f"1 {s} 1"}
        col.count_case(json.dumps(case))
        col.add(_check_C16(case, col.observe))
    col.bound_parts.append(f"reparse_fixed_point: ALL {len(strings)} edition and variation strings of reporters_db.REPORTERS as '1 <reporter> 1' "
                           "(those extracted as exactly one full case citation covering the text)")
    # ---- irrelevant context
    nctx = 0
    single = [r for r in _C16_REPS if len(set(EDITIONS_LOOKUP[r])) == 1]
    while nctx < max(60, n) and col.left() > col.budget_s * 0.5:
        rep = rng.choice(single)
        vol, page = str(rng.randint(1, 90)), str(rng.randint(1, 999))
        core = f"{vol} {rep} {page}"
        p, d = rng.sample(_NAMES, 2)
        variants = [f"{core}, {int(page) + 3}", f"{core} ({rng.choice(['1999', '1950', '1890'])})", f"{p} v. {d}, {core}",
                    f"{p} v. {d}, {core}, {int(page) + 1} ({rng.choice(['1999', '1803'])}) (holding that {p} won)",
                    f"Lorem ipsum dolor {core} sit amet.", f"See, e.g., {core}; see also 2 F.2d 3.",
                    f"In re {p}, {core} (per curiam)", f"{p} v. {d}, {core}, cert. denied, 3 U.S. 4 (1990)"]
        if rep in ("U.S.", "U. S."):
            variants.append(f"{vol} {rep} ({rng.randint(1, 9)} {rng.choice(_NOMINATIVE)}) {page}")
            variants.append(f"{p} v. {d}, {vol} {rep} ({rng.randint(1, 9)} {rng.choice(_NOMINATIVE)}) {page}, {int(page) + 2} (1803)")
        for v in variants:
            case = {"clause": "irrelevant_context", "core": core, "variant": v}
            col.count_case(json.dumps(case))
            col.add(_check_C16(case, col.observe))
            nctx += 1
    col.bound_parts.append(f"irrelevant_context: {nctx} sampled (core, variant) pairs: pin cite, year, parties, parenthetical, surrounding text, "
                           "nominative parenthetical, subsequent history, over single-edition reporters")
    # ---- pools
    npools = 0
    pool_sizes = []
    specs = [{"spec": LETTERS[k]} for k in ("A", "A2", "B", "P", "P", "LAW", "J", "JP", "JP", "short_plain", "short_var", "short_foreign",
                                            "id_valid", "id_valid", "unknown", "unknown", "supra_known", "ref_A", "ROMAN")]
    specs.append({"spec": {"t": "short", "volume": "1", "reporter": "U.S.", "page": "100"}})      # same vol/rep/page as A, other class
    specs.append({"spec": {"t": "case", "volume": "1", "reporter": "U.S.", "reporter_found": "U. S.", "page": "100"}})
    specs.append({"spec": {"t": "journal", "volume": "1", "reporter": "Minn. L. Rev.", "page": "100"}})
    while npools < max(3, n // 30) and col.left() > 0.15 * col.budget_s:
        descs: List[Dict[str, Any]] = list(specs)
        for t in _c16_texts(rng, 22):
            try:
                k = len(get_citations(t))
            except Exception:
                continue
            for twin in (False, True):
                descs += [{"text": t, "index": i, "twin": twin} for i in range(k)]
        if len(descs) > 170:
            descs = descs[:170]
        objs = _build_pool(descs)
        vs = pool_violations(descs, objs, col.observe)
        col.evaluations += len(objs) * len(objs)
        col.distinct += len(objs) * (len(objs) - 1) // 2
        col.add(vs)
        npools += 1
        pool_sizes.append(len(objs))
    col.bound_parts.append(f"case_eq_iff / placeholder_identity / id_unknown_identity / cross_kind_never_equal / equivalence_laws: ALL ordered pairs "
                           f"and triples within {npools} pools of {min(pool_sizes or [0])}..{max(pool_sizes or [0])} citations (extracted by get_citations "
                           "from generated texts, each text extracted twice to obtain distinct twin objects, plus factory-built full/short/law/journal/"
                           "id/unknown/placeholder citations); evaluations counts ordered pairs")
    col.exhaustive = True


# =====================================================================================================
# C20 -- cleaning
# =====================================================================================================
import contextlib  # noqa: E402
import importlib.util  # noqa: E402
import io  # noqa: E402
import eyecite.clean as _clean  # noqa: E402

TEXT_CLEANERS = ["inline_whitespace", "all_whitespace", "underscores"]
_CALLABLES: Dict[str, Callable[[str], str]] = {"callable:upper": str.upper, "callable:rstrip": str.rstrip}


def _steps(names: List[str]) -> List[Any]:
    return [_CALLABLES.get(s, s) for s in names]


_HIDDEN = ("script", "style")


def _check_C20(case: Dict[str, Any], obs: Optional[Callable[..., None]] = None) -> List[Dict[str, Any]]:
    cl = case["clause"]
    if cl == "composition":
        t, a, b = case["text"], case["a"], case["b"]
        try:
            whole = clean_text(t, _steps(a + b))
            parts = clean_text(clean_text(t, _steps(a)), _steps(b))
        except Exception as e:
            return [viol(f"raised:{type(e).__name__}", case, message=str(e)[:200])]
        if whole != parts:
            return [viol("composition", case, whole=whole, stepwise=parts)]
        return []
    if cl == "unknown_step":
        steps = case["steps"]
        try:
            r = clean_text(case["text"], _steps(steps))
        except ValueError:
            return []
        except Exception as e:
            return [viol("unknown_step_raises_ValueError", case, raised=type(e).__name__, message=str(e)[:200])]
        return [viol("unknown_step_raises_ValueError", case, returned=r)]
    if cl == "html":
        markup, expected = case["html"], " ".join(case["visible"])
        try:
            got = _clean.html(markup)
            via = clean_text(markup, ["html"])
        except Exception as e:
            if obs:
                obs(f"html_raised:{type(e).__name__}", case, "eyecite.clean.html raised (not a C20 clause)")
            return []
        if got != expected or via != expected:
            return [viol("html_visible_text", case, got=got, via_clean_text=via, expected=expected)]
        return []
    raise ValueError(f"unknown C20 clause {cl!r}")


def check_C20(case: Dict[str, Any]) -> List[Dict[str, Any]]:
    """case: {"clause":"composition","text":t,"a":[step names],"b":[step names]}
           | {"clause":"unknown_step","text":t,"steps":[...]}   (contains a name that is not a cleaner)
           | {"clause":"html","html":markup,"visible":[text nodes expected, in document order]}
           | {"clause":"cleaner_laws","cleaner":name,"law":clause,"text":t}  (re-runs checks/c20_standin.check_one)"""
    if case.get("clause") == "cleaner_laws":
        mod = _load_standin()
        found: List[Dict[str, Any]] = []

        def report(cleaner: str, clause: str, s: str, got: str, expected: str) -> None:
            found.append(viol(f"{cleaner}/{clause}", case, got=got, expected=expected))

        mod.check_one(case["cleaner"], getattr(_clean, case["cleaner"]), case["text"], report)
        return found
    return _check_C20(case, None)


def _load_standin() -> Any:
    p = os.path.join(VERIF, "checks", "c20_standin.py")
    spec = importlib.util.spec_from_file_location("c20_standin", p)
    mod = importlib.util.module_from_spec(spec)      # type: ignore[arg-type]
    spec.loader.exec_module(mod)                      # type: ignore[union-attr]
    return mod


_ENT = [("&amp;", "&"), ("&lt;", "<"), ("&gt;", ">"), ("&#233;", "é"), ("&quot;", '"'), ("&nbsp;", " "), ("&#x41;", "A")]


def _gen_text(rng: random.Random) -> Tuple[str, str]:
    """(markup, text value) of one text node; may be whitespace only"""
    if rng.random() < 0.15:
        ws = "".join(rng.choice(" \n\t") for _ in range(rng.randint(1, 3)))
        return ws, ws
    m: List[str] = []
    v: List[str] = []
    for _ in range(rng.randint(1, 8)):
        r = rng.random()
        if r < 0.12:
            e, c = rng.choice(_ENT)
            m.append(e)
            v.append(c)
        elif r < 0.3:
            w = rng.choice([" ", "  ", "\n", " \t"])
            m.append(w)
            v.append(w)
        else:
            w = rng.choice(["Foo", "v.", "Bar,", "1", "U.S.", "100", "x", "(1999)", "été", "§", "12"])
            m.append(w)
            v.append(w)
    return "".join(m), "".join(v)


def _gen_html_nodes(rng: random.Random, depth: int, inline_only: bool) -> Tuple[str, List[str]]:
    """children of a visible element: markup and the list of text-node values in document order (adjacent texts merged)"""
    markup: List[str] = []
    nodes: List[str] = []
    last_text = False
    for _ in range(rng.randint(1, 4)):
        r = rng.random()
        if r < 0.45 or depth >= 3:
            if last_text:
                continue
            m, v = _gen_text(rng)
            markup.append(m)
            nodes.append(v)
            last_text = True
            continue
        last_text = False
        if r < 0.58:
            tag = rng.choice(_HIDDEN)
            content = rng.choice(["var x = 1;", "a < b && c", "p { color: red }", "hidden text", " "])
            markup.append(f"<{tag}>{content}</{tag}>")
        elif r < 0.63:
            markup.append(rng.choice(['<link rel="stylesheet" href="x.css">', "<br>", '<img src="x.png">', "<hr>"]) if not inline_only
                          else rng.choice(["<br>", '<img src="x.png">']))
        elif r < 0.85 or inline_only:
            # (no <a> and no <li>: libxml2's HTML parser auto-closes a nested <a>/<li>, which merges text nodes and
            #  would make the generator's list of text nodes wrong)
            tag = rng.choice(["span", "b", "i", "em", "u", "strong", "code"])
            m, ns = _gen_html_nodes(rng, depth + 1, True)
            markup.append(f"<{tag}>{m}</{tag}>")
            nodes += ns
        else:
            tag = rng.choice(["div", "p", "blockquote", "section"])
            m, ns = _gen_html_nodes(rng, depth + 1, tag == "p")
            markup.append(f"<{tag}>{m}</{tag}>")
            nodes += ns
    return "".join(markup), nodes


def _is_xml_ws(s: str) -> bool:
    return all(c in " \t\r\n" for c in s)


def gen_html(rng: random.Random) -> Dict[str, Any]:
    body, nodes = _gen_html_nodes(rng, 0, False)
    form = rng.random()
    if form < 0.4:
        head = "".join(rng.sample(['<style>body { margin: 0 }</style>', '<script>var hidden = "text";</script>',
                                   '<link rel="stylesheet" href="a.css">', '<meta charset="utf-8">'], rng.randint(0, 4)))
        markup = f"<html><head>{head}</head><body>{body}</body></html>"
    elif form < 0.7:
        markup = f"<div>{body}</div>"
    else:
        markup = f"<p>x</p>{body}"
        nodes = ["x"] + nodes
    visible = [v for v in nodes if not _is_xml_ws(v)]
    return {"clause": "html", "html": markup, "visible": visible}


def run_C20(col: Collector, seed: int, n: int, focus: Optional[str], hints: Any) -> None:
    rng = random.Random(f"{seed}/C20")
    fn = (focus or "").split("/")[0]
    only_html = fn.endswith("clean.html")
    only_clean_text = fn.endswith("clean_text")
    # ---- composition
    lists = [list(t) for k in range(4) for t in itertools.product(TEXT_CLEANERS, repeat=k)]
    if not only_html:
        small = ["".join(t) for k in range(5) for t in itertools.product(" \t_a\n", repeat=k)]
        texts = list(small)
        std = _load_standin()
        extra_ws = sorted({c for c in std.RANDOM_ALPHABET if std.pySpaceP(c)})
        texts += list(std.random_strings(rng, max(50, n), extra_ws + ["_"]))
        cnt = 0
        for t in texts:
            if col.left() < col.budget_s * 0.5:
                col.exhaustive = False
                break
            for lst in lists:
                for cut in range(len(lst) + 1):
                    case = {"clause": "composition", "text": t, "a": lst[:cut], "b": lst[cut:]}
                    col.count_case()
                    col.add(_check_C20(case, col.observe))
                    cnt += 1
        # a few lists with callables mixed in
        for _ in range(max(100, n)):
            lst = [rng.choice(TEXT_CLEANERS + list(_CALLABLES)) for _ in range(rng.randint(0, 4))]
            cut = rng.randint(0, len(lst))
            case = {"clause": "composition", "text": rng.choice(texts), "a": lst[:cut], "b": lst[cut:]}
            col.count_case(json.dumps(case))
            col.add(_check_C20(case, col.observe))
        col.bound_parts.append(f"composition: ALL {len(lists)} step lists of length <= 3 over the three text cleaners x every split point x "
                               f"(ALL {len(small)} strings of length <= 4 over space/tab/underscore/'a'/newline + {len(texts) - len(small)} sampled "
                               f"run-structured strings of length 9..200) = {cnt} cases; plus sampled lists with callables")
        # ---- unknown step
        bad_names = ["foo", "", "HTML", "inline-whitespace", "all_whitespace ", "Underscores", "html5", " "]
        cnt = 0
        for bad in bad_names:
            for lst in lists:
                if len(lst) > 2:
                    continue
                for pos in range(len(lst) + 1):
                    steps = lst[:pos] + [bad] + lst[pos:]
                    case = {"clause": "unknown_step", "text": rng.choice(["", "a  b", "x__y"]), "steps": steps}
                    col.count_case()
                    col.add(_check_C20(case, col.observe))
                    cnt += 1
        col.bound_parts.append(f"unknown_step_raises_ValueError: {len(bad_names)} non-cleaner names at every position of every valid list of length <= 2 ({cnt} cases)")
    # ---- cleaner laws through checks/c20_standin.py
    if not only_html and not only_clean_text:
        std = _load_standin()
        buf = io.StringIO()
        try:
            with contextlib.redirect_stdout(buf):
                std.main(["--seed", str(seed), "--tier", "quick" if n <= 1000 else "thorough"])
            r = json.loads(buf.getvalue().strip().splitlines()[-1])
            col.evaluations += int(r.get("evaluations", 0))
            col.distinct += int(r.get("distinct", 0))
            for v in r.get("violations", []):
                col.add([viol(f"{v['cleaner']}/{v['clause']}", {"clause": "cleaner_laws", "cleaner": v["cleaner"], "law": v["clause"], "text": v["input"]},
                              got=v.get("got"), expected=v.get("expected"))])
            for k, c in (r.get("violation_counts") or {}).items():
                col.counts[k] = max(col.counts.get(k, 0), int(c))
            col.bound_parts.append("cleaner laws via checks/c20_standin.py: " + str(r.get("bound")))
            if "error" in r:
                col.observe("c20_standin_error", r["error"], "c20_standin could not load the cleaners")
        except Exception as e:
            col.observe("c20_standin_failed", repr(e), "checks/c20_standin.py could not be run")
    # ---- html cleaner
    if not only_clean_text:
        cnt = 0
        while cnt < max(200, n * 20) and col.left() > 0:
            case = gen_html(rng)
            col.count_case(case["html"])
            col.add(_check_C20(case, col.observe))
            cnt += 1
        col.bound_parts.append(f"html_visible_text: {cnt} generated trees (full documents with head/style/script/link/meta, div fragments, multi-root "
                               "fragments; nested inline/block elements, script/style in the body, void elements, entities incl. &nbsp;, whitespace-only "
                               "nodes); expected = the generator's non-whitespace text nodes outside script/style/head/link joined by single spaces")


# =====================================================================================================
# drivers
# =====================================================================================================

CLAUSE_READINGS: Dict[str, Dict[str, str]] = {
    "C06": {
        "values_are_disjoint_subsequences": "every member of every value list IS (identity) an input citation; within a list the input indices strictly increase; no input index occurs twice over all lists",
        "first_is_full": "every value list is non-empty and its first member is a FullCitation",
        "every_full_exactly_once": "every FullCitation of the input occurs in exactly one list, once",
        "share_iff_equal": "for two full citations: same list <=> a == b; for two FullCaseCitations additionally same list <=> same (volume, corrected_reporter(), page) with page not None (other kinds: the code's == is taken as the meaning of 'equal')",
        "unknown_never_appears": "no UnknownCitation in any list",
        "raised:<Exc>": "resolve_citations (or a real method used by a clause) raised",
    },
    "C07": {
        "attached_only_if_unique_match": "a short/supra/reference citation that is listed under a resource is listed under THE resource the statement allows: short -- the unique resource among earlier FullCaseCitations with equal corrected_reporter() and volume, or the unique one among them whose plaintiff/defendant contains strip_punct(antecedent_guess); supra -- the unique resource of earlier FullCaseCitations whose plaintiff/defendant contains strip_punct(antecedent_guess) (antecedent non-empty); reference -- the unique resource of earlier FullCaseCitations one of whose four name fields equals one of the reference's (non-empty)",
        "unresolved_when_none_or_many": "fires in addition when the citation is attached although no unique match exists (none, or two or more distinct resources)",
        "id_only_predecessor": "an attached id. citation is in the same list as the citation immediately before it",
        "id_unresolved_when_prev_unresolved": "an id. citation is attached although it is first or its predecessor is in no list",
        "id_placeholder_or_bad_pin_unresolved": "an attached id. citation whose antecedent (first full member of the list) is a FullCaseCitation with page None, or -- when the antecedent page is a decimal number p of <= 4300 digits and the pin cite is non-empty -- whose pin cite does not start (optionally after 'at ') with a decimal number q, or q < p, or q > p + 150. Nothing is claimed for antecedents without a numeric page; journal/law placeholder pages are an observation only",
    },
    "C08": {
        "prefix_stability": "for every k: resolve(cits[:k]) has exactly the keys (by ==) of resolve(cits) restricted to members among cits[:k] (empty restrictions dropped), with identical member objects in the same order; the order AMONG resources is not compared",
        "causal": "every non-full member of a list has a larger input index than the list's first member, which is a FullCitation",
    },
    "C09": {
        "strip_inserted_restores_target": "output with every occurrence of each non-empty before/after string deleted == (source if source is non-empty and != plain else plain); before/after are private-use sentinels absent from the texts; a raise is an observation, not a violation",
    },
    "C10": {
        "exact_once_in_order": "(A) no source, mode unchecked (skip/wrap only for texts without angle brackets): every annotation with start < end that intersects no annotation sorting before it occurs exactly once as before+plain[s:e]+after, and these occurrences are in span order",
        "monotone_in_range": "(B) for len(a) >= 1, each engine, each of bisect_left/bisect_right: o -> SpanUpdater(a,b).update(o, bisect) is non-decreasing on 0..len(a) with values in [0, len(b)]",
        "encloses_plain_span": "(C) default engine, source = plain with insertions of characters foreign to plain, annotations non-empty and pairwise non-overlapping: output == source with before_k put right before the source position of plain[s_k] and after_k right after that of plain[e_k-1] (difflib deviations are an observation)",
    },
    "C11": {
        "output_well_formed": "lxml.etree.fromstring('<div>'+output+'</div>') succeeds (skip and wrap)",
        "wrap_all_present": "wrap: every annotation with a non-empty span that intersects no annotation sorting before it has its before string in the output",
        "skip_never_unbalanced": "skip: for every emitted annotation the text between its before string and the next </a> parses as balanced markup",
        "text_content_unchanged": "text content of the parsed output == plain (only judged when the output parses)",
    },
    "C16": {
        "case_eq_iff": "two case citations (full or short) with non-None pages: (a == b), (hash(a) == hash(b)) and, for full ones, (Resource(a) == Resource(b)) and equality of the resource hashes all equal [same class, same groups.get('volume'), same page, same corrected_reporter()]",
        "variation_equals_canonical": "for every variation string of reporters_db.REPORTERS whose EDITIONS_LOOKUP entry is exactly one edition: the citation extracted from '1 <variation> 1' ==, hash-equals and resource-equals the one from '1 <edition short name> 1' (both must be extracted as exactly one FullCaseCitation spelled that way, else skipped)",
        "irrelevant_context": "the citation with the same volume/reporter/page groups extracted from a text with pin cite / year / parties / parenthetical / surrounding text / nominative parenthetical == the one extracted from the bare core",
        "placeholder_identity": "a CASE citation with page None is ==/hash-equal to no other object, and its Resource equals no other full citation's Resource (journal/law placeholders: observation only)",
        "id_unknown_identity": "an IdCitation / UnknownCitation is ==/hash-equal to no other object",
        "cross_kind_never_equal": "objects of two different classes among FullCaseCitation, ShortCaseCitation, FullLawCitation, FullJournalCitation are never ==",
        "reparse_fixed_point": "for '1 <reporter> 1' extracted as one FullCaseCitation c: get_citations(c.corrected_citation()) contains a citation == c whose corrected_citation() is the same text",
        "equivalence_laws": "== is reflexive, symmetric, transitive over the pool and a == b implies hash(a) == hash(b)",
    },
    "C20": {
        "composition": "clean_text(t, a+b) == clean_text(clean_text(t, a), b)",
        "unknown_step_raises_ValueError": "a step list containing a string that is not a cleaner name raises ValueError (at any position)",
        "<cleaner>/<law>": "model_equal, idempotent, no_remaining_run, others_kept_in_order, erasure_equality of checks/c20_standin.py",
        "html_visible_text": "eyecite.clean.html(markup) == clean_text(markup, ['html']) == ' '.join(text nodes that are not whitespace-only and whose parent is not script/style/head/link, in document order)",
    },
}

RUNNERS: Dict[str, Callable[..., None]] = {
    "C06": lambda col, seed, n, focus, hints: run_resolution("C06", col, seed, n, focus, hints),
    "C07": lambda col, seed, n, focus, hints: run_resolution("C07", col, seed, n, focus, hints),
    "C08": lambda col, seed, n, focus, hints: run_resolution("C08", col, seed, n, focus, hints),
    "C09": run_C09, "C10": run_C10, "C11": run_C11, "C16": run_C16, "C20": run_C20,
}
CHECKERS: Dict[str, Callable[[Any], List[Dict[str, Any]]]] = {
    "C06": check_C06, "C07": check_C07, "C08": check_C08, "C09": check_C09, "C10": check_C10, "C11": check_C11,
    "C16": check_C16, "C20": check_C20,
}
PROPERTIES = sorted(RUNNERS)


def run_property(pid: str, seed: int = 0, n: int = 300, focus: Optional[str] = None, budget_s: float = 50.0,
                 hints: Optional[Dict[str, Any]] = None, stop_on_first: bool = False,
                 ignore_regions: Sequence[str] = (), ignore_clauses: Sequence[str] = ()) -> Dict[str, Any]:
    """Run the bounded stand-in of one property; never raises."""
    col = Collector(budget_s, stop_on_first, ignore_regions, ignore_clauses)
    try:
        RUNNERS[pid](col, seed, n, focus, hints)
    except StopRun:
        col.exhaustive = False
        col.bound_parts.append("STOPPED at the first violation (replay mode)")
    except Exception as e:          # a harness failure is reported, never turned into a violation
        col.observe("harness_error", f"{type(e).__name__}: {e} @ {_tb_where(e)}", "the stand-in itself failed; results so far are kept")
        col.exhaustive = False
    res = col.result(pid, seed)
    if focus:
        res["focus"] = focus
    if ignore_regions or ignore_clauses:
        res["relevant_violations"] = col.relevant
    return res
