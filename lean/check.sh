#!/usr/bin/env bash
# Build and audit /verif/lean/Collapse.lean (property C20).
#
#   1. `lean -o <tmp>/Collapse.olean Collapse.lean` must exit 0 with no `error:` line.
#   2. The source (comments stripped) must not contain sorry / axiom / native_decide / unsafe /
#      implemented_by / extern / set_option debug.skipKernelTC.
#   3. Every theorem in THEOREMS must appear in the `#print axioms` output, and its axiom list must
#      be a subset of {propext, Quot.sound, Classical.choice}; `sorryAx` anywhere fails.
#   4. The statements of the theorems (`#check @name` in a second file that imports the fresh
#      .olean) must be byte-identical to statements.expected, so a theorem cannot be weakened
#      while keeping its name.  `check.sh --pin` rewrites statements.expected.
#   5. `leanchecker Collapse` replays the compiled module through the kernel.
#
# No lake project is needed: leanchecker finds the .olean through LEAN_PATH.  All build output goes
# to a mktemp dir that is removed on exit.  Prints one JSON line on success; exit 0 iff all pass.
set -u
HERE="$(cd "$(dirname "${BASH_SOURCE[0]}")" && pwd)"
SRC="$HERE/Collapse.lean"
EXPECTED="$HERE/statements.expected"
PIN=0
[ "${1:-}" = "--pin" ] && PIN=1

THEOREMS="
Collapse.collapse_run
Collapse.collapse_run_cons
Collapse.collapse_unique
Collapse.collapse_idem
Collapse.collapse_idem_ws
Collapse.collapse_idem_del
Collapse.collapse_noAdj
Collapse.collapse_ws_noAdj
Collapse.collapse_ws_no_adjacent
Collapse.collapse_ws_p_eq
Collapse.collapse_del_noAdj
Collapse.collapse_del_no_adjacent
Collapse.NoAdj.not_adjacent
Collapse.noAdj_of_not_adjacent
Collapse.collapse_filter
Collapse.collapse_ws_filter
Collapse.collapse_del_filter
Collapse.collapse_del_sublist
Collapse.collapse_del_fixed
Collapse.collapse_del_fixed_iff
Collapse.collapse_ws_fixed
Collapse.collapse_ws_fixed_iff
Collapse.fold_nil
Collapse.fold_snoc
Collapse.fold_append
Collapse.inlineWhitespace_idem
Collapse.allWhitespace_idem
Collapse.underscores_idem
"
DEFS="Collapse.flush Collapse.collapse Collapse.fold Collapse.inlineWsP Collapse.underscoreP Collapse.pySpaceP Collapse.inlineWhitespace Collapse.allWhitespace Collapse.underscores"
# equation lemmas of the two recursive definitions (their #print shows the compiled recursor)
EQNS="Collapse.go.eq_1 Collapse.go.eq_2 Collapse.NoAdj.eq_1 Collapse.NoAdj.eq_2 Collapse.NoAdj.eq_3"

OUT="$(mktemp -d /tmp/collapse-lean.XXXXXX)"
trap 'rm -rf "$OUT"' EXIT
fail() { echo "check.sh: FAIL: $*" >&2; exit 1; }

command -v lean >/dev/null || fail "lean not on PATH"
command -v leanchecker >/dev/null || fail "leanchecker not on PATH"

# -- 1. compile ---------------------------------------------------------------------------------
T0=$(date +%s.%N)
( cd "$HERE" && lean -o "$OUT/Collapse.olean" -i "$OUT/Collapse.ilean" Collapse.lean ) >"$OUT/build.log" 2>&1
RC=$?
T1=$(date +%s.%N)
[ $RC -eq 0 ] || { cat "$OUT/build.log" >&2; fail "lean exited $RC"; }
grep -q "error:" "$OUT/build.log" && { cat "$OUT/build.log" >&2; fail "error: in build log"; }
[ -s "$OUT/Collapse.olean" ] || fail "no .olean produced"

# -- 2. forbidden tokens in the code (block and line comments removed) ----------------------------
python3 - "$SRC" >"$OUT/code.txt" <<'EOF' || fail "comment stripper failed"
import re, sys
s = open(sys.argv[1], encoding="utf-8").read()
out, i, depth = [], 0, 0
while i < len(s):
    if s.startswith("/-", i):
        depth += 1; i += 2
    elif depth and s.startswith("-/", i):
        depth -= 1; i += 2
    elif depth:
        i += 1
    elif s.startswith("--", i):
        while i < len(s) and s[i] != "\n":
            i += 1
    else:
        out.append(s[i]); i += 1
sys.stdout.write("".join(out))
EOF
if grep -nE '\b(sorry|axiom|native_decide|unsafe|implemented_by|extern|skipKernelTC|ofReduceBool)\b' "$OUT/code.txt" >&2; then
  fail "forbidden token in Collapse.lean"
fi
if grep -nE '^\s*import\s' "$OUT/code.txt" | grep -vE '^\S*\s*import\s+(Init|Std)(\.|\s|$)' >&2; then
  fail "import outside Init/Std"
fi

# -- 3. axioms --------------------------------------------------------------------------------------
grep -q "sorryAx" "$OUT/build.log" && { grep "sorryAx" "$OUT/build.log" >&2; fail "sorryAx in #print axioms output"; }
AXIOMS_SEEN=""
for t in $THEOREMS; do
  line="$(grep -F "'$t' " "$OUT/build.log" | head -1)"
  [ -n "$line" ] || fail "no '#print axioms $t' line in the build output"
  case "$line" in
    *"does not depend on any axioms"*) ;;
    *"depends on axioms: ["*)
      ax="$(printf '%s' "$line" | sed -e 's/.*depends on axioms: \[//' -e 's/\].*//' | tr ',' ' ')"
      for a in $ax; do
        case "$a" in
          propext|Quot.sound|Classical.choice) AXIOMS_SEEN="$AXIOMS_SEEN $a" ;;
          *) fail "$t depends on non-standard axiom $a" ;;
        esac
      done ;;
    *) fail "unrecognised #print axioms line: $line" ;;
  esac
done
AXIOMS_SEEN="$(printf '%s\n' $AXIOMS_SEEN | sort -u | tr '\n' ' ' | sed 's/ $//')"

# -- 4. statements pinned ----------------------------------------------------------------------------
{
  echo "import Collapse"
  echo "set_option pp.unicode.fun true"
  for d in $DEFS; do echo "#print $d"; done
  for e in $EQNS; do echo "#check @$e"; done
  for t in $THEOREMS; do echo "#check @$t"; done
} >"$OUT/Statements.lean"
( cd "$OUT" && LEAN_PATH="$OUT" lean Statements.lean ) >"$OUT/statements.txt" 2>&1 \
  || { cat "$OUT/statements.txt" >&2; fail "could not #check the theorems against the fresh .olean"; }
if [ $PIN -eq 1 ]; then
  cp "$OUT/statements.txt" "$EXPECTED"
  echo "check.sh: pinned $(wc -l <"$EXPECTED") lines to $EXPECTED" >&2
fi
[ -f "$EXPECTED" ] || fail "statements.expected missing (run check.sh --pin once)"
if ! diff -u "$EXPECTED" "$OUT/statements.txt" >&2; then
  fail "theorem/definition statements differ from statements.expected"
fi

# -- 5. kernel replay -----------------------------------------------------------------------------------
T2=$(date +%s.%N)
LEAN_PATH="$OUT" leanchecker Collapse >"$OUT/checker.log" 2>&1
RC=$?
T3=$(date +%s.%N)
[ $RC -eq 0 ] || { cat "$OUT/checker.log" >&2; fail "leanchecker exited $RC"; }

NT=$(printf '%s\n' $THEOREMS | grep -c .)
printf '{"ok": true, "file": "%s", "sha256": "%s", "lean": "%s", "theorems": %d, "axioms": "%s", "compile_s": %.2f, "leanchecker_s": %.2f}\n' \
  "$SRC" "$(sha256sum "$SRC" | cut -d' ' -f1)" "$(lean --short-version)" \
  "$NT" "$AXIOMS_SEEN" "$(echo "$T1 - $T0" | bc)" "$(echo "$T3 - $T2" | bc)"
