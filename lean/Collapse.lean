/-
  Collapse.lean — machine-checked laws for the regex text cleaners of
  eyecite/clean.py (property C20, DESIGN.md section 6).

  The three cleaners are each one call `re.sub(P, R, text)`:

      inline_whitespace   re.sub(r"[ \t]+", " ", text)
      all_whitespace      re.sub(r"\s+",    " ", text)
      underscores         re.sub(r"__+",    "",  text)

  Family `collapse p n r`: scan the input left to right; every MAXIMAL run of
  elements satisfying the predicate `p` whose length is `>= n` is replaced by
  the fixed list `r`; everything else (non-`p` elements and `p`-runs shorter
  than `n`) is kept verbatim.

      ws-collapse   p = the class, n = 1, r = [c] with side condition p c = true
      delete-runs   p = (· == '_'), n = 2, r = []

  ASSUMED, not proved here (E-RE-SUB): CPython's `re.sub` on a pattern
  `C{n,}` with a one-character class `C` and a literal replacement *is* this
  function (leftmost, greedy, non-overlapping maximal runs).  Whether the real
  (P, R) is in the family is decided on every run by pyvc/cleaner_family.py;
  the bounded cross-check of E-RE-SUB is checks/c20_standin.py, whose Python
  `collapse` is a line-by-line transliteration of `go`/`flush` below.

  Only core `Init` is used (no Std, no Mathlib, no `sorry`, no `axiom`, no
  `native_decide`).  `lean Collapse.lean` compiles in a few seconds.
-/

namespace Collapse

universe u
variable {α : Type u}

/-! ## Definition -/

/-- What one finished maximal `p`-run is rewritten to: the fixed list `r` when
the run has length `>= n`, otherwise the run itself. -/
def flush (n : Nat) (r : List α) (run : List α) : List α :=
  if n ≤ run.length then r else run

/-- `go p n r run s`: `run` is the pending (not yet emitted) `p`-run that ends
just before `s`.  Structural recursion on `s`. -/
def go (p : α → Bool) (n : Nat) (r : List α) : List α → List α → List α
  | run, [] => flush n r run
  | run, x :: xs =>
    if p x = true then go p n r (run ++ [x]) xs
    else flush n r run ++ x :: go p n r [] xs

/-- Replace every maximal `p`-run of length `>= n` by `r`. -/
def collapse (p : α → Bool) (n : Nat) (r : List α) (s : List α) : List α :=
  go p n r [] s

/-- No two adjacent elements both satisfy `p`. -/
def NoAdj (p : α → Bool) : List α → Prop
  | [] => True
  | [_] => True
  | a :: b :: t => ¬(p a = true ∧ p b = true) ∧ NoAdj p (b :: t)

/-- Apply a list of functions left to right (what `clean_text`'s loop does). -/
def fold {β : Type u} (fs : List (β → β)) (t : β) : β :=
  fs.foldl (fun acc f => f acc) t

variable {p : α → Bool} {n : Nat} {r : List α}

/-! ## `flush` -/

theorem flush_flush (run : List α) : flush n r (flush n r run) = flush n r run := by
  unfold flush
  by_cases h : n ≤ run.length
  · by_cases h' : n ≤ r.length <;> simp [h, h']
  · simp [h]

theorem flush_allp (hr : ∀ x ∈ r, p x = true) {run : List α}
    (hrun : ∀ x ∈ run, p x = true) : ∀ x ∈ flush n r run, p x = true := by
  unfold flush
  by_cases h : n ≤ run.length
  · simpa [h] using hr
  · simpa [h] using hrun

theorem flush_nil_repl_sublist (run : List α) : List.Sublist (flush n ([] : List α) run) run := by
  unfold flush
  by_cases h : n ≤ run.length
  · simp [h]
  · simp [h]

theorem flush_length_le_one (hr : r.length ≤ 1) (hn : n ≤ 2) (run : List α) :
    (flush n r run).length ≤ 1 := by
  unfold flush
  by_cases h : n ≤ run.length
  · simpa [h] using hr
  · simp [h]; omega

/-! ## Characterising equations of `collapse`

`collapse_run` and `collapse_run_cons` say exactly "maximal runs are flushed,
everything else is copied"; `collapse_unique` shows they determine the function,
so the accumulator-style definition above is not part of the trusted reading. -/

theorem go_run (acc run : List α) (h : ∀ x ∈ run, p x = true) :
    go p n r acc run = flush n r (acc ++ run) := by
  induction run generalizing acc with
  | nil => simp [go]
  | cons a t ih =>
    have ha : p a = true := h a (by simp)
    have ht : ∀ x ∈ t, p x = true := fun x hx => h x (by simp [hx])
    simp [go, ha, ih _ ht]

theorem go_run_cons (acc run : List α) (x : α) (rest : List α)
    (h : ∀ y ∈ run, p y = true) (hx : p x = false) :
    go p n r acc (run ++ x :: rest) = flush n r (acc ++ run) ++ x :: go p n r [] rest := by
  induction run generalizing acc with
  | nil => simp [go, hx]
  | cons a t ih =>
    have ha : p a = true := h a (by simp)
    have ht : ∀ y ∈ t, p y = true := fun y hy => h y (by simp [hy])
    simp [go, ha, ih _ ht]

/-- A list consisting of one `p`-run is flushed as a whole. -/
theorem collapse_run (run : List α) (h : ∀ x ∈ run, p x = true) :
    collapse p n r run = flush n r run := by
  simpa [collapse] using go_run (n := n) (r := r) [] run h

/-- A maximal `p`-run followed by a non-`p` element: flush the run, copy the
element, continue with the rest. -/
theorem collapse_run_cons (run : List α) (x : α) (rest : List α)
    (h : ∀ y ∈ run, p y = true) (hx : p x = false) :
    collapse p n r (run ++ x :: rest) = flush n r run ++ x :: collapse p n r rest := by
  simpa [collapse] using go_run_cons (n := n) (r := r) [] run x rest h hx

/-- Every list is a `p`-run, or a (maximal) `p`-run, a non-`p` element and a rest. -/
theorem run_decomp (p : α → Bool) (s : List α) :
    (∀ x ∈ s, p x = true) ∨
    ∃ run x rest, s = run ++ x :: rest ∧ (∀ y ∈ run, p y = true) ∧ p x = false := by
  induction s with
  | nil => left; simp
  | cons a t ih =>
    cases ha : p a with
    | false => exact Or.inr ⟨[], a, t, by simp, by simp, ha⟩
    | true =>
      cases ih with
      | inl h =>
        left
        intro x hx
        cases List.mem_cons.mp hx with
        | inl e => simpa [e] using ha
        | inr m => exact h x m
      | inr h =>
        obtain ⟨run, x, rest, e, hrun, hx⟩ := h
        refine Or.inr ⟨a :: run, x, rest, by simp [e], ?_, hx⟩
        intro y hy
        cases List.mem_cons.mp hy with
        | inl e' => simpa [e'] using ha
        | inr m => exact hrun y m

/-- The two characterising equations determine `collapse`. -/
theorem collapse_unique (f : List α → List α)
    (h1 : ∀ run, (∀ x ∈ run, p x = true) → f run = flush n r run)
    (h2 : ∀ run x rest, (∀ y ∈ run, p y = true) → p x = false →
            f (run ++ x :: rest) = flush n r run ++ x :: f rest) :
    ∀ s, f s = collapse p n r s := by
  have key : ∀ k, ∀ s : List α, s.length ≤ k → f s = collapse p n r s := by
    intro k
    induction k with
    | zero =>
      intro s hs
      have : s = [] := List.length_eq_zero_iff.mp (by omega)
      subst this
      rw [h1 [] (by simp), collapse_run [] (by simp)]
    | succ k ih =>
      intro s hs
      cases run_decomp p s with
      | inl h => rw [h1 s h, collapse_run s h]
      | inr h =>
        obtain ⟨run, x, rest, e, hrun, hx⟩ := h
        subst e
        have hlen : rest.length ≤ k := by
          simp [List.length_append] at hs; omega
        rw [h2 run x rest hrun hx, collapse_run_cons run x rest hrun hx, ih rest hlen]
  intro s
  exact key s.length s (Nat.le_refl _)

/-! ## T1 — idempotence -/

theorem go_idem (hr : ∀ x ∈ r, p x = true) (s : List α) :
    ∀ acc : List α, (∀ x ∈ acc, p x = true) →
      collapse p n r (go p n r acc s) = go p n r acc s := by
  induction s with
  | nil =>
    intro acc hacc
    simp only [go]
    rw [collapse_run _ (flush_allp hr hacc), flush_flush]
  | cons x xs ih =>
    intro acc hacc
    cases hx : p x with
    | true =>
      simp only [go, hx, if_true]
      apply ih
      intro y hy
      cases List.mem_append.mp hy with
      | inl m => exact hacc y m
      | inr m => simpa [List.mem_singleton.mp m] using hx
    | false =>
      simp only [go, hx, Bool.false_eq_true, if_false]
      rw [collapse_run_cons _ x _ (flush_allp hr hacc) hx, flush_flush, ih [] (by simp)]

/-- General idempotence: any threshold `n`, any replacement made of `p`-elements. -/
theorem collapse_idem (hr : ∀ x ∈ r, p x = true) (s : List α) :
    collapse p n r (collapse p n r s) = collapse p n r s :=
  go_idem hr s [] (by simp)

/-- (T1, ws-collapse) `n = 1`, `r = [c]`, `p c`. -/
theorem collapse_idem_ws (c : α) (hc : p c = true) (s : List α) :
    collapse p 1 [c] (collapse p 1 [c] s) = collapse p 1 [c] s :=
  collapse_idem (by simpa using hc) s

/-- (T1, delete-runs) `n = 2`, `r = []`. -/
theorem collapse_idem_del (s : List α) :
    collapse p 2 [] (collapse p 2 [] s) = collapse p 2 [] s :=
  collapse_idem (by simp) s

/-! ## T2 — leaves no run it is meant to remove -/

theorem noAdj_cons_of_not {x : α} (hx : p x = false) {t : List α} (ht : NoAdj p t) :
    NoAdj p (x :: t) := by
  cases t with
  | nil => trivial
  | cons b t' => exact ⟨by simp [hx], ht⟩

theorem noAdj_short_append {l : List α} (hl : l.length ≤ 1) {x : α} (hx : p x = false)
    {t : List α} (ht : NoAdj p t) : NoAdj p (l ++ x :: t) := by
  match l, hl with
  | [], _ => simpa using noAdj_cons_of_not hx ht
  | [a], _ => exact ⟨by simp [hx], noAdj_cons_of_not hx ht⟩
  | _ :: _ :: _, h => simp at h

theorem noAdj_of_length_le_one {l : List α} (hl : l.length ≤ 1) : NoAdj p l := by
  match l, hl with
  | [], _ => trivial
  | [_], _ => trivial
  | _ :: _ :: _, h => simp at h

theorem NoAdj.tail {a : α} {l : List α} (h : NoAdj p (a :: l)) : NoAdj p l := by
  cases l with
  | nil => trivial
  | cons b t => exact h.2

/-- Reading of `NoAdj` without the auxiliary definition. -/
theorem NoAdj.not_adjacent {l : List α} (h : NoAdj p l) :
    ∀ (l₁ : List α) (a b : α) (l₂ : List α), l = l₁ ++ a :: b :: l₂ →
      ¬(p a = true ∧ p b = true) := by
  intro l₁
  induction l₁ generalizing l with
  | nil =>
    intro a b l₂ e
    subst e
    exact h.1
  | cons c t ih =>
    intro a b l₂ e
    subst e
    exact ih (NoAdj.tail h) a b l₂ rfl

theorem noAdj_of_not_adjacent {l : List α}
    (h : ∀ (l₁ : List α) (a b : α) (l₂ : List α), l = l₁ ++ a :: b :: l₂ →
      ¬(p a = true ∧ p b = true)) : NoAdj p l := by
  induction l with
  | nil => trivial
  | cons a t ih =>
    cases t with
    | nil => trivial
    | cons b t' =>
      refine ⟨h [] a b t' rfl, ih ?_⟩
      intro l₁ a' b' l₂ e
      exact h (a :: l₁) a' b' l₂ (by simp [e])

theorem go_noAdj (hr : r.length ≤ 1) (hn : n ≤ 2) (s : List α) :
    ∀ acc : List α, NoAdj p (go p n r acc s) := by
  induction s with
  | nil =>
    intro acc
    simp only [go]
    exact noAdj_of_length_le_one (flush_length_le_one hr hn acc)
  | cons x xs ih =>
    intro acc
    cases hx : p x with
    | true =>
      simp only [go, hx, if_true]
      exact ih _
    | false =>
      simp only [go, hx, Bool.false_eq_true, if_false]
      exact noAdj_short_append (flush_length_le_one hr hn acc) hx (ih [])

/-- General form: threshold at most 2 and replacement of length at most 1. -/
theorem collapse_noAdj (hr : r.length ≤ 1) (hn : n ≤ 2) (s : List α) :
    NoAdj p (collapse p n r s) :=
  go_noAdj hr hn s []

theorem mem_flush_of_le_one (hn : n ≤ 1) {run : List α} {y : α}
    (h : y ∈ flush n r run) : y ∈ r := by
  unfold flush at h
  by_cases hh : n ≤ run.length
  · rwa [if_pos hh] at h
  · rw [if_neg hh] at h
    have : run = [] := List.length_eq_zero_iff.mp (by omega)
    subst this
    cases h

theorem go_p_mem (hn : n ≤ 1) (s : List α) :
    ∀ acc : List α, ∀ y ∈ go p n r acc s, p y = true → y ∈ r := by
  induction s with
  | nil =>
    intro acc y hy _
    simp only [go] at hy
    exact mem_flush_of_le_one hn hy
  | cons x xs ih =>
    intro acc y hy hpy
    cases hx : p x with
    | true =>
      simp only [go, hx, if_true] at hy
      exact ih (acc ++ [x]) y hy hpy
    | false =>
      simp only [go, hx, Bool.false_eq_true, if_false] at hy
      cases List.mem_append.mp hy with
      | inl m => exact mem_flush_of_le_one hn m
      | inr m =>
        cases List.mem_cons.mp m with
        | inl e => subst e; simp [hx] at hpy
        | inr m' => exact ih [] y m' hpy

/-- General form: with threshold at most 1 every surviving `p`-element comes from `r`. -/
theorem collapse_p_mem (hn : n ≤ 1) (s : List α) :
    ∀ y ∈ collapse p n r s, p y = true → y ∈ r :=
  go_p_mem hn s []

/-- (T2, ws-collapse) no two adjacent elements of the result both satisfy `p`. -/
theorem collapse_ws_noAdj (c : α) (s : List α) : NoAdj p (collapse p 1 [c] s) :=
  collapse_noAdj (by simp) (by omega) s

/-- (T2, ws-collapse), stated without `NoAdj`. -/
theorem collapse_ws_no_adjacent (c : α) (s : List α) :
    ∀ (l₁ : List α) (a b : α) (l₂ : List α), collapse p 1 [c] s = l₁ ++ a :: b :: l₂ →
      ¬(p a = true ∧ p b = true) :=
  (collapse_ws_noAdj c s).not_adjacent

/-- (T2, ws-collapse) every element of the result satisfying `p` equals `c`. -/
theorem collapse_ws_p_eq (c : α) (s : List α) :
    ∀ y ∈ collapse p 1 [c] s, p y = true → y = c := by
  intro y hy hpy
  simpa using collapse_p_mem (r := [c]) (Nat.le_refl 1) s y hy hpy

/-- (T2, delete-runs) no two adjacent elements of the result both satisfy `p`,
i.e. no `p`-run of length `>= 2` remains. -/
theorem collapse_del_noAdj (s : List α) : NoAdj p (collapse p 2 [] s) :=
  collapse_noAdj (by simp) (Nat.le_refl 2) s

/-- (T2, delete-runs), stated without `NoAdj`. -/
theorem collapse_del_no_adjacent (s : List α) :
    ∀ (l₁ : List α) (a b : α) (l₂ : List α), collapse p 2 [] s = l₁ ++ a :: b :: l₂ →
      ¬(p a = true ∧ p b = true) :=
  (collapse_del_noAdj s).not_adjacent

/-! ## T3 — keeps all other characters in order -/

theorem filter_not_of_allp {l : List α} (h : ∀ x ∈ l, p x = true) :
    l.filter (fun x => !p x) = [] := by
  induction l with
  | nil => rfl
  | cons a t ih =>
    have ha : p a = true := h a (List.mem_cons_self ..)
    have ht : ∀ x ∈ t, p x = true := fun x hx => h x (List.mem_cons_of_mem _ hx)
    rw [List.filter_cons, ha]
    exact ih ht

theorem filter_not_cons_pos {x : α} (hx : p x = true) (t : List α) :
    (x :: t).filter (fun x => !p x) = t.filter (fun x => !p x) := by
  rw [List.filter_cons_of_neg]
  rw [hx]; decide

theorem filter_not_cons_neg {x : α} (hx : p x = false) (t : List α) :
    (x :: t).filter (fun x => !p x) = x :: t.filter (fun x => !p x) := by
  rw [List.filter_cons_of_pos]
  rw [hx]; decide

theorem go_filter (hr : ∀ x ∈ r, p x = true) (s : List α) :
    ∀ acc : List α, (∀ x ∈ acc, p x = true) →
      (go p n r acc s).filter (fun x => !p x) = s.filter (fun x => !p x) := by
  induction s with
  | nil =>
    intro acc hacc
    simp only [go]
    exact filter_not_of_allp (flush_allp (n := n) hr hacc)
  | cons x xs ih =>
    intro acc hacc
    cases hx : p x with
    | true =>
      simp only [go, hx, if_true]
      rw [filter_not_cons_pos hx, ih (acc ++ [x])]
      intro y hy
      cases List.mem_append.mp hy with
      | inl m => exact hacc y m
      | inr m => rw [List.mem_singleton.mp m]; exact hx
    | false =>
      simp only [go, hx, Bool.false_eq_true, if_false]
      rw [List.filter_append, filter_not_of_allp (flush_allp (n := n) hr hacc),
        filter_not_cons_neg hx, filter_not_cons_neg hx, ih [] (fun _ h => nomatch h)]
      rfl

/-- General form: the non-`p` elements are kept, all of them, in order. -/
theorem collapse_filter (hr : ∀ x ∈ r, p x = true) (s : List α) :
    (collapse p n r s).filter (fun x => !p x) = s.filter (fun x => !p x) :=
  go_filter hr s [] (by simp)

/-- (T3, ws-collapse) -/
theorem collapse_ws_filter (c : α) (hc : p c = true) (s : List α) :
    (collapse p 1 [c] s).filter (fun x => !p x) = s.filter (fun x => !p x) :=
  collapse_filter (by simpa using hc) s

/-- (T3, delete-runs) -/
theorem collapse_del_filter (s : List α) :
    (collapse p 2 [] s).filter (fun x => !p x) = s.filter (fun x => !p x) :=
  collapse_filter (by simp) s

theorem go_sublist (s : List α) :
    ∀ acc : List α, List.Sublist (go p n [] acc s) (acc ++ s) := by
  induction s with
  | nil =>
    intro acc
    simpa [go] using flush_nil_repl_sublist (n := n) acc
  | cons x xs ih =>
    intro acc
    cases hx : p x with
    | true =>
      simp only [go, hx, if_true]
      simpa using ih (acc ++ [x])
    | false =>
      simp only [go, hx, Bool.false_eq_true, if_false]
      exact List.Sublist.append (flush_nil_repl_sublist acc)
        (List.Sublist.cons_cons x (by simpa using ih []))

/-- (T3, empty replacement, any threshold) the result is a sublist of the input:
nothing is invented or reordered. -/
theorem collapse_del_sublist (n : Nat) (s : List α) :
    List.Sublist (collapse p n [] s) s := by
  simpa [collapse] using go_sublist (p := p) (n := n) s []

/-! ## T5 — inputs without a removable run are left untouched

Together with T2 this says the fixed points of each cleaner are exactly the
"clean" strings; in particular a lone `p`-element (a single `_`) is kept, which
T1-T3 alone do not say. -/

theorem NoAdj.of_append_right {l t : List α} (h : NoAdj p (l ++ t)) : NoAdj p t := by
  induction l with
  | nil => exact h
  | cons a l ih => exact ih (NoAdj.tail h)

theorem go_del_fixed (s : List α) :
    ∀ acc : List α, acc.length ≤ 1 → (∀ x ∈ acc, p x = true) → NoAdj p (acc ++ s) →
      go p 2 [] acc s = acc ++ s := by
  induction s with
  | nil =>
    intro acc hlen _ _
    have : ¬ 2 ≤ acc.length := by omega
    simp [go, flush, this]
  | cons x xs ih =>
    intro acc hlen hacc h
    cases hx : p x with
    | true =>
      simp only [go, hx, if_true]
      match acc, hlen, hacc, h with
      | [], _, _, h =>
        have := ih [x] (by simp) (by simpa using hx) (by simpa using h)
        simpa using this
      | [a], _, hacc, h =>
        exact absurd ⟨hacc a (by simp), hx⟩ h.1
      | _ :: _ :: _, hl, _, _ => simp at hl
    | false =>
      simp only [go, hx, Bool.false_eq_true, if_false]
      have hfl : flush 2 ([] : List α) acc = acc := by
        have : ¬ 2 ≤ acc.length := by omega
        simp [flush, this]
      have hxs : NoAdj p xs := NoAdj.tail (NoAdj.of_append_right h)
      rw [hfl, ih [] (by simp) (by simp) (by simpa using hxs)]
      rfl

/-- (T5, delete-runs) a list with no two adjacent `p`-elements is unchanged. -/
theorem collapse_del_fixed (s : List α) (h : NoAdj p s) : collapse p 2 [] s = s := by
  simpa [collapse] using go_del_fixed s [] (by simp) (by simp) (by simpa using h)

/-- (T5, delete-runs) fixed points are exactly the lists with no `p`-run of length `>= 2`. -/
theorem collapse_del_fixed_iff (s : List α) : collapse p 2 [] s = s ↔ NoAdj p s :=
  ⟨fun e => e ▸ collapse_del_noAdj s, collapse_del_fixed s⟩

theorem flush_ws_small (c : α) {acc : List α} (hlen : acc.length ≤ 1) (hacc : ∀ x ∈ acc, x = c) :
    flush 1 [c] acc = acc := by
  match acc, hlen, hacc with
  | [], _, _ => simp [flush]
  | [a], _, hacc => simp [flush, hacc a (by simp)]
  | _ :: _ :: _, hl, _ => simp at hl

theorem go_ws_fixed (c : α) (hc : p c = true) (s : List α) :
    ∀ acc : List α, acc.length ≤ 1 → (∀ x ∈ acc, x = c) → NoAdj p (acc ++ s) →
      (∀ y ∈ s, p y = true → y = c) → go p 1 [c] acc s = acc ++ s := by
  induction s with
  | nil =>
    intro acc hlen hacc _ _
    simp [go, flush_ws_small c hlen hacc]
  | cons x xs ih =>
    intro acc hlen hacc h hs
    have hs' : ∀ y ∈ xs, p y = true → y = c := fun y hy => hs y (List.mem_cons_of_mem _ hy)
    cases hx : p x with
    | true =>
      simp only [go, hx, if_true]
      have hxc : x = c := hs x (List.mem_cons_self ..) hx
      match acc, hlen, hacc, h with
      | [], _, _, h =>
        have := ih [x] (by simp) (by simpa using hxc) (by simpa using h) hs'
        simpa using this
      | [a], _, hacc, h =>
        have hpa : p a = true := by rw [hacc a (by simp)]; exact hc
        exact absurd ⟨hpa, hx⟩ h.1
      | _ :: _ :: _, hl, _, _ => simp at hl
    | false =>
      simp only [go, hx, Bool.false_eq_true, if_false]
      have hxs : NoAdj p xs := NoAdj.tail (NoAdj.of_append_right h)
      rw [flush_ws_small c hlen hacc, ih [] (by simp) (by simp) (by simpa using hxs) hs']
      rfl

/-- (T5, ws-collapse) a list with no two adjacent `p`-elements whose `p`-elements
all equal `c` is unchanged. -/
theorem collapse_ws_fixed (c : α) (hc : p c = true) (s : List α) (h : NoAdj p s)
    (hs : ∀ y ∈ s, p y = true → y = c) : collapse p 1 [c] s = s := by
  simpa [collapse] using go_ws_fixed c hc s [] (by simp) (by simp) (by simpa using h) hs

/-- (T5, ws-collapse) characterisation of the fixed points. -/
theorem collapse_ws_fixed_iff (c : α) (hc : p c = true) (s : List α) :
    collapse p 1 [c] s = s ↔ (NoAdj p s ∧ ∀ y ∈ s, p y = true → y = c) :=
  ⟨fun e => ⟨e ▸ collapse_ws_noAdj c s, e ▸ collapse_ws_p_eq c s⟩,
   fun h => collapse_ws_fixed c hc s h.1 h.2⟩

/-! ## T4 — fold-append (composition clause of `clean_text`) -/

theorem fold_nil {β : Type u} (t : β) : fold ([] : List (β → β)) t = t := rfl

theorem fold_snoc {β : Type u} (fs : List (β → β)) (f : β → β) (t : β) :
    fold (fs ++ [f]) t = f (fold fs t) := by
  simp [fold, List.foldl_append]

/-- (T4) `clean_text(t, a ++ b) == clean_text(clean_text(t, a), b)`. -/
theorem fold_append {β : Type u} (a b : List (β → β)) (t : β) :
    fold (a ++ b) t = fold b (fold a t) := by
  simp [fold, List.foldl_append]

/-! ## The concrete instances over `List Char` -/

/-- `[ \t]` -/
def inlineWsP (c : Char) : Bool := c == ' ' || c == '\t'

/-- `_` -/
def underscoreP (c : Char) : Bool := c == '_'

/-- CPython's `\s` for `str` patterns without `re.ASCII` (= `str.isspace`):
the 29 code points computed on every run by pyvc/cleaner_family.py.  The
theorems are generic in `p`; only `pySpaceP ' ' = true` is used. -/
def pySpaceP (c : Char) : Bool :=
  let k := c.toNat
  (0x09 ≤ k && k ≤ 0x0D) || (0x1C ≤ k && k ≤ 0x20) || k == 0x85 || k == 0xA0 ||
  k == 0x1680 || (0x2000 ≤ k && k ≤ 0x200A) || k == 0x2028 || k == 0x2029 ||
  k == 0x202F || k == 0x205F || k == 0x3000

def inlineWhitespace (s : List Char) : List Char := collapse inlineWsP 1 [' '] s
def allWhitespace (s : List Char) : List Char := collapse pySpaceP 1 [' '] s
def underscores (s : List Char) : List Char := collapse underscoreP 2 [] s

theorem inlineWsP_space : inlineWsP ' ' = true := by decide
theorem pySpaceP_space : pySpaceP ' ' = true := by decide

theorem inlineWhitespace_idem (s : List Char) :
    inlineWhitespace (inlineWhitespace s) = inlineWhitespace s :=
  collapse_idem_ws ' ' inlineWsP_space s

theorem allWhitespace_idem (s : List Char) :
    allWhitespace (allWhitespace s) = allWhitespace s :=
  collapse_idem_ws ' ' pySpaceP_space s

theorem underscores_idem (s : List Char) :
    underscores (underscores s) = underscores s :=
  collapse_idem_del s

/-! Sanity evaluations (kernel `decide`, not `native_decide`). -/

example : inlineWhitespace "a \t b\n  c ".toList = "a b\n c ".toList := by decide
example : allWhitespace " a \t\n b  c".toList = " a b c".toList := by decide
example : underscores "a_b__c___d____".toList = "a_bcd".toList := by decide
example : collapse underscoreP 2 [] "_".toList = "_".toList := by decide

end Collapse

/-
  STABLE THEOREM NAMES (referenced from pyvc / contracts / MANIFEST):

  definition          Collapse.flush, Collapse.go, Collapse.collapse, Collapse.NoAdj, Collapse.fold
  characterisation    Collapse.collapse_run, Collapse.collapse_run_cons, Collapse.collapse_unique
  T1 idempotence      Collapse.collapse_idem        (general: r made of p-elements, any n)
                      Collapse.collapse_idem_ws     (n = 1, r = [c], p c)
                      Collapse.collapse_idem_del    (n = 2, r = [])
  T2 no run remains   Collapse.collapse_noAdj       (general: |r| <= 1, n <= 2)
                      Collapse.collapse_ws_noAdj, Collapse.collapse_ws_no_adjacent
                      Collapse.collapse_ws_p_eq
                      Collapse.collapse_del_noAdj, Collapse.collapse_del_no_adjacent
                      Collapse.NoAdj.not_adjacent, Collapse.noAdj_of_not_adjacent
  T3 content kept     Collapse.collapse_filter      (general)
                      Collapse.collapse_ws_filter, Collapse.collapse_del_filter
                      Collapse.collapse_del_sublist
  T4 fold-append      Collapse.fold_append (also fold_nil, fold_snoc)
  T5 fixed points     Collapse.collapse_del_fixed, Collapse.collapse_del_fixed_iff
                      Collapse.collapse_ws_fixed, Collapse.collapse_ws_fixed_iff
  instances           Collapse.inlineWhitespace_idem, Collapse.allWhitespace_idem,
                      Collapse.underscores_idem
-/

#print axioms Collapse.collapse_run
#print axioms Collapse.collapse_run_cons
#print axioms Collapse.collapse_unique
#print axioms Collapse.collapse_idem
#print axioms Collapse.collapse_idem_ws
#print axioms Collapse.collapse_idem_del
#print axioms Collapse.collapse_noAdj
#print axioms Collapse.collapse_ws_noAdj
#print axioms Collapse.collapse_ws_no_adjacent
#print axioms Collapse.collapse_ws_p_eq
#print axioms Collapse.collapse_del_noAdj
#print axioms Collapse.collapse_del_no_adjacent
#print axioms Collapse.NoAdj.not_adjacent
#print axioms Collapse.noAdj_of_not_adjacent
#print axioms Collapse.collapse_filter
#print axioms Collapse.collapse_ws_filter
#print axioms Collapse.collapse_del_filter
#print axioms Collapse.collapse_del_sublist
#print axioms Collapse.collapse_del_fixed
#print axioms Collapse.collapse_del_fixed_iff
#print axioms Collapse.collapse_ws_fixed
#print axioms Collapse.collapse_ws_fixed_iff
#print axioms Collapse.fold_nil
#print axioms Collapse.fold_snoc
#print axioms Collapse.fold_append
#print axioms Collapse.inlineWhitespace_idem
#print axioms Collapse.allWhitespace_idem
#print axioms Collapse.underscores_idem
