#!/bin/bash
# usage: seedtest.sh <seed-id> <worktree>
# confirms a seeded change in its scratch worktree (tests pass with it, demo fails with it and passes without it),
# stores it under /verif/seeded/<id>/, then runs checks/seed_all.py <id> (scratch copy of /repo/eyecite + patch, quick check of the seed's property).
set -u
ID=$1; WT=$2; shift 2
D=/verif/seeded/$ID; mkdir -p $D
cp $WT/_seed/patch.diff $WT/_seed/demo.py $WT/_seed/meta.json $D/ 2>/dev/null
cd $WT
git checkout -q -- eyecite; git apply _seed/patch.diff || { echo "patch does not apply"; exit 2; }
T_WITH=$(/venv/bin/python -m pytest -q -p no:cacheprovider 2>&1 | tail -1)
PYTHONPATH=$WT /venv/bin/python _seed/demo.py >/tmp/seed_demo_with.txt 2>&1; D_WITH=$?
git checkout -q -- eyecite
PYTHONPATH=$WT /venv/bin/python _seed/demo.py >/tmp/seed_demo_without.txt 2>&1; D_WITHOUT=$?
git apply _seed/patch.diff
echo "tests with change: $T_WITH"; echo "demo with change: exit $D_WITH ; without: exit $D_WITHOUT"
cd /verif
python3 - <<PY
import json
p="$D/meta.json"
try: m=json.load(open(p))
except Exception: m={}
m["confirmed_by_main"]={"tests_with_change":"$T_WITH","demo_exit_with_change":$D_WITH,"demo_exit_without_change":$D_WITHOUT}
json.dump(m,open(p,"w"),indent=1)
PY

python3-vt /verif/checks/seed_all.py $ID
