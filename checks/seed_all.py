#!/usr/bin/env python3
"""Mutation self-test over the stored seeded changes (DESIGN 1.7 ii / 13.5).

For every /verif/seeded/<id>/ : copy /repo/eyecite to a scratch directory outside /repo and /verif, apply patch.diff there,
run the quick check of the seed's property with EYECITE_REPO pointing at the copy, delete the copy.  A seed counts as *caught*
when the check exits 1 with a VIOLATION line.  Writes /verif/seeded/RESULTS.json and prints one line per seed.
Exit 0 when every seed is caught, 1 otherwise.  (Not a registered property check: it takes ~1 h.)

usage: python3-vt checks/seed_all.py [seed-id ...]
"""
import json, os, re, shutil, subprocess, sys, tempfile, time

VERIF = os.path.dirname(os.path.dirname(os.path.abspath(__file__)))
REPO = "/repo"


def main():
    ids = sys.argv[1:] or sorted(d for d in os.listdir(os.path.join(VERIF, "seeded")) if os.path.isdir(os.path.join(VERIF, "seeded", d)))
    results = {}
    path = os.path.join(VERIF, "seeded", "RESULTS.json")
    if os.path.exists(path) and sys.argv[1:]:
        results = json.load(open(path))
    for sid in ids:
        sd = os.path.join(VERIF, "seeded", sid)
        meta = json.load(open(os.path.join(sd, "meta.json")))
        if meta.get("superseded") and not sys.argv[1:]:
            print(f"{sid}: SUPERSEDED (skipped)")
            results.pop(sid, None)
            continue
        prop = meta.get("property") or sid.split("-")[0]
        d = tempfile.mkdtemp(prefix="pyvc_seed_")
        t = time.time()
        try:
            shutil.copytree(os.path.join(REPO, "eyecite"), os.path.join(d, "eyecite"))
            p = subprocess.run(["patch", "-p1", "-s", "-i", os.path.join(sd, "patch.diff")], cwd=d, capture_output=True, text=True)
            if p.returncode != 0:
                results[sid] = {"property": prop, "caught": None, "error": "patch does not apply: " + (p.stdout + p.stderr)[-300:]}
                print(f"{sid}: PATCH-FAILED")
                continue
            cmd = (["python3-vt", os.path.join(VERIF, "checks", "c13.py"), "--tier", "quick"] if prop == "C13"
                   else ["python3-vt", "-m", "pyvc.check", prop, "--tier", "quick"])
            env = dict(os.environ, EYECITE_REPO=d, PYTHONPATH=d, PYVC_EVIDENCE_DIR=os.path.join(d, "evidence"), PYVC_REPLAY_DIR=os.path.join(d, "replay"))
            r = subprocess.run(cmd, cwd=VERIF, capture_output=True, text=True, env=env)
            out = r.stdout + r.stderr
            viol = [l for l in out.splitlines() if l.startswith("VIOLATION")]
            summ = [l for l in out.splitlines() if re.match(r"^\[C\d\d\] tier=", l)]
            results[sid] = {"property": prop, "caught": r.returncode == 1 and bool(viol), "exit": r.returncode,
                            "violations": [re.sub(r"replay=\S*/", "replay=", v)[:200] for v in viol][:8],
                            "summary": summ[-1] if summ else out[-300:], "wall_s": round(time.time() - t, 1)}
            print(f"{sid}: {'CAUGHT' if results[sid]['caught'] else 'MISSED'} exit={r.returncode} " + (viol[0][:150] if viol else ""))
        finally:
            shutil.rmtree(d, ignore_errors=True)
        cur = json.load(open(path)) if os.path.exists(path) else {}     # merge: several runs may be active
        if sid in results:
            cur[sid] = results[sid]
        json.dump(cur, open(path, "w"), indent=1, sort_keys=True)
    return 0 if all(results.get(s, {}).get("caught") for s in ids) else 1


if __name__ == "__main__":
    sys.exit(main())
