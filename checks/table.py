"""Property -> contract files, functions under contract, stated assumptions, clauses not covered."""

A_HASH = ("A-HASH (DESIGN 2.3): hash(hash_sha256(d)) is injective on the dictionaries that occur and never collides with an "
          "id(); equality of citations/resources is equality of these abstract keys")
DEFAULT_RESOLVERS = "resolvers are the defaults (the function-valued parameters of resolve_citations are bound to their default values)"
CIT_WF = ("citation objects satisfy the class invariants established by their constructors/extraction: metadata/groups not None, "
          "type(c.metadata) is type(c).Metadata, case citations have an edition guess or a 'reporter' group, the page group of a "
          "full citation is in the language of PAGE_NUMBER_REGEX, id. pin cites are at most 300 characters (match window)")

RESOLVE_FUNCS = [
    "resolve.resolve_full_citation",
    "resolve._filter_by_matching_antecedent",
    "resolve._filter_by_matching_plaintiff_or_defendant_or_resolved_names",
    "resolve._has_invalid_pin_cite",
    "resolve._resolve_shortcase_citation",
    "resolve._resolve_supra_citation",
    "resolve._resolve_reference_citation",
    "resolve._resolve_id_citation",
    "models.ResourceCitation.corrected_reporter",
    "resolve.resolve_citations",
]

OFFSET_FUNCS = [
    "models.CitationBase.span", "models.CitationBase.full_span", "models.CitationBase.span_with_pincite",
    "helpers.match_on_tokens", "helpers.clean_pin_cite", "helpers.process_parenthetical", "helpers.extract_pin_cite",
    "helpers.add_post_citation", "helpers.add_defendant", "helpers.add_pre_citation", "helpers.add_law_metadata",
    "helpers.add_journal_metadata", "models.ResourceCitation.add_metadata", "models.CaseCitation.guess_court",
    "models.FullCaseCitation.add_metadata", "models.FullLawCitation.add_metadata", "models.FullJournalCitation.add_metadata",
    "find._extract_id_citation", "find._extract_supra_citation", "find._extract_shortform_citation", "find._extract_full_citation",
]
OFFSET_CONTRACTS = ["a_common", "c18_helpers", "helpers", "find"]
# the top-level composition: get_citations = tokenize; extract per token; reference extraction; filter_citations; remove_ambiguous
API_CONTRACTS = ["a_common", "c18_helpers", "helpers", "filter", "find", "refs", "annotate", "tokenizers", "zz_getcit"]
API_FUNCS = ["find.extract_pincited_reference_citations", "find.find_reference_citations_from_markup", "find.extract_reference_citations",
             "helpers.filter_citations", "helpers.disambiguate_reporters", "find.get_citations"]
API_PINS = ["models.Document.__post_init__", "models.Document.tokenize", "utils.is_valid_name"]
API_ASSUMPTIONS = [
    "get_citations is verified against: Document(...) and Document.tokenize as ASSUMED contracts (pinned by SHA-256): the cleaned text, the two SpanUpdaters (invariant "
    "proved for SpanUpdater.__init__), PART + INDEXES (the proved postconditions of Tokenizer.tokenize, C12), NONL and the token data invariants of the shipped extractors "
    "(edition lists well formed and from one of the three databases; a short-form token has a page group that is a suffix of its text; stop-word tokens carry their group; "
    "every token has a groups dict)",
    "domain of get_citations' contract: steps_valid(markup_text, clean_steps) (the documented domain: known cleaner names, 'html' among them when markup is given -- outside "
    "it Document.__post_init__ raises), plain_text != 'eyecite' (known finding C02-4), tokenizer is a Tokenizer",
    "ROUNDTRIP (consistency of the two diffs of a Document) is assumed for the placement of markup-derived references",
]
PART_ASSUMPTION = ("PART(words, text, offs): the token list partitions the document text pointwise over a ghost offset array "
                   "(a precondition here; it is the postcondition of Tokenizer.tokenize, C12)")
NONL_ASSUMPTION = "plain-string words contain no newline (every newline is a ParagraphToken of the shipped extractors)"
REGEX_LEMMAS = ("regex lemmas 4.2 (pin_cite group at the head of POST_{FULL,SHORT,JOURNAL}_CITATION_REGEX matches, year group is \\d{4}, "
                "group order before the parenthetical, POST_SHORT/LAW/JOURNAL patterns match the empty string, antecedent group always participates) "
                "are assumed as named axioms keyed by the regex constant")

def _c16_extra(e, run, tier):
    from pyvc import hashmodel
    return hashmodel.obligations(e, run, tier)


def _c19_extra(e, run, tier):
    """Syntactic frame / read-set obligations for C19's non-interference clause (decided on the AST of the real source):
    markup only flows into Document(...) and the two reference extractors, which construct nothing but reference citations."""
    import ast
    from pyvc import solve
    obls = []

    def ob(name, ok, why):
        o = solve.Obligation(f"find/syntactic:{name}", [], None, {}, "C19", "post")
        o.status = "discharged" if ok else "refuted"
        o.solver = "ast"
        o.smt2 = why
        o.raw = why
        obls.append(o)

    repo = e.repo
    gc = repo.funcs.get("find.get_citations")
    ok = gc is not None
    why = "find.get_citations: every load of `markup_text` is the keyword argument markup_text= of the Document(...) call"
    if ok:
        loads = [n for n in ast.walk(gc.node) if isinstance(n, ast.Name) and n.id == "markup_text" and isinstance(n.ctx, ast.Load)]
        allowed = set()
        for c in ast.walk(gc.node):
            if isinstance(c, ast.Call) and isinstance(c.func, ast.Name) and c.func.id == "Document":
                for k in c.keywords:
                    if k.arg == "markup_text" and isinstance(k.value, ast.Name):
                        allowed.add(id(k.value))
        ok = all(id(n) in allowed for n in loads) and len(loads) >= 1
    ob("markup_only_into_document", ok, why)
    # attribute reads of the markup fields
    allowed_fns = {"find.extract_reference_citations", "find.find_reference_citations_from_markup", "models.Document.__post_init__"}
    bad = []
    for q, fi in repo.funcs.items():
        for n in ast.walk(fi.node):
            if isinstance(n, ast.Attribute) and n.attr in ("markup_text", "plain_to_markup", "markup_to_plain") and q not in allowed_fns:
                bad.append(f"{q}:{n.attr}")
    ob("markup_fields_read_only_by_reference_extractors", not bad, "attribute reads of markup_text/plain_to_markup/markup_to_plain outside the reference extractors and Document.__post_init__: " + (", ".join(bad) or "none"))
    # the reference extractors construct only reference citations / case-reference tokens
    bad = []
    for q in ("find.extract_pincited_reference_citations", "find.find_reference_citations_from_markup", "find.extract_reference_citations"):
        fi = repo.funcs.get(q)
        if fi is None:
            bad.append(q + ":missing")
            continue
        for n in ast.walk(fi.node):
            if isinstance(n, ast.Call) and isinstance(n.func, ast.Name) and n.func.id in repo.classes and n.func.id not in ("ReferenceCitation", "CaseReferenceToken"):
                bad.append(f"{q}:{n.func.id}")
            if isinstance(n, (ast.Assign, ast.AugAssign)):
                for t in (n.targets if isinstance(n, ast.Assign) else [n.target]):
                    for x in ast.walk(t):
                        if isinstance(x, ast.Attribute) and isinstance(x.ctx, ast.Store):
                            bad.append(f"{q}:store .{x.attr}")
        run.functions[q] = {"source_sha256": fi.sha256, "paths": 0}
    ob("reference_extractors_only_build_references", not bad, "constructors/attribute stores other than ReferenceCitation/CaseReferenceToken in the reference extractors: " + (", ".join(bad) or "none"))
    # in get_citations the extracted references are only appended to the result list
    ok = False
    if gc is not None:
        uses = [n for n in ast.walk(gc.node) if isinstance(n, ast.Name) and n.id == "references" and isinstance(n.ctx, ast.Load)]
        ext = [c for c in ast.walk(gc.node) if isinstance(c, ast.Call) and isinstance(c.func, ast.Attribute) and c.func.attr == "extend"
               and c.args and isinstance(c.args[0], ast.Name) and c.args[0].id == "references"]
        ok = len(uses) == len(ext) == 1
    ob("references_only_appended", ok, "find.get_citations uses `references` exactly once: citations.extend(references)")
    return obls


def _c20_extra(e, run, tier):
    """Cleaner laws: (1) the real source of each text cleaner is classified into the family collapse(p, n, r) that
    lean/Collapse.lean proves idempotent / run-free / content-preserving (AST + CPython's own regex parser);
    (2) the Lean file is re-checked (no sorry/axiom, statements pinned, leanchecker);
    (3) bounded cross-check of the assumed link re.sub == collapse (E-RE-SUB) -- never counted as proved."""
    import json, os, subprocess, sys
    from pyvc import report, solve
    sys.path.insert(0, os.path.join(report.VERIF, "pyvc"))
    from pyvc.cleaner_family import classify_cleaners
    obls = []
    res = classify_cleaners(repo=report.REPO) if "repo" in classify_cleaners.__code__.co_varnames else classify_cleaners()
    for name, r in res.items():
        ok = bool(r.get("ok"))
        o = solve.Obligation(f"clean.{name}/family:is_collapse_instance", [], None, {}, "C20", "post")
        o.status = "discharged" if ok else "refuted"
        o.solver = "ast+cpython-sre"
        o.smt2 = json.dumps({k: r.get(k) for k in ("pattern", "replacement", "in_family", "instance", "n", "class_description",
                                                      "class_matches_property", "instance_matches_property", "reason_if_not", "source_sha256")})
        o.raw = o.smt2
        o.values = {"pattern": r.get("pattern"), "replacement": r.get("replacement")}
        obls.append(o)
        run.functions[f"clean.{name}"] = {"source_sha256": r.get("source_sha256", ""), "paths": 1}
    # Lean lemmas
    p = subprocess.run(["bash", os.path.join(report.VERIF, "lean", "check.sh")], capture_output=True, text=True)
    o = solve.Obligation("lean/Collapse.lean/kernel_check", [], None, {}, "C20", "lemma")
    o.status = "discharged" if p.returncode == 0 else "undecided"
    o.solver = "lean-4.33+leanchecker"
    o.smt2 = (p.stdout + p.stderr)[-1500:]
    obls.append(o)
    run.trust("E-RE-SUB: CPython's re.sub on a pattern C{n,} with a backslash-free replacement rewrites exactly the maximal C-runs of length >= n "
              "(leftmost, greedy, non-overlapping) -- i.e. is the function `collapse` of lean/Collapse.lean; bounded cross-check only")
    run.trust("lean/Collapse.lean: collapse_idem, collapse_noAdj, collapse_filter, collapse_del_sublist, fold_append (axioms: propext, Quot.sound)")
    # bounded cross-check of E-RE-SUB + the three clauses on the real functions
    try:
        env = dict(os.environ, PYTHONPATH=report.REPO + os.pathsep + os.environ.get("PYTHONPATH", ""))
        q = subprocess.run(["/venv/bin/python", os.path.join(report.VERIF, "checks", "c20_standin.py"), "--seed", str(run.seed), "--tier", tier],
                           capture_output=True, text=True, timeout=1200, env=env)
        out = json.loads(q.stdout.strip().splitlines()[-1])
        run.extra["bounded_re_sub_crosscheck"] = {"label": "bounded (never counted as proved)", "evaluations": out.get("evaluations"),
                                                  "bound": out.get("bound"), "violations": len(out.get("violations", []))}
        for v in out.get("violations", [])[:3]:
            run.violation(f"standin:{v.get('cleaner')}/{v.get('clause')}", {"input": v.get("input"), "detail": v, "source": "bounded stand-in"}, True)
    except Exception as ex:
        run.notes.append(f"c20 stand-in failed to run: {ex!r}")
    return obls


PROPS = {
    "C04": {
        "pins": ["tokenizers.Tokenizer.extract_tokens", "tokenizers.HyperscanTokenizer.extract_tokens", "models.CitationToken.merge",
                 "models.CitationBase.__post_init__", "models.ResourceCitation.__post_init__", "models.CitationToken.__post_init__", "helpers.get_court_by_paren",
                 "utils.strip_punct", "utils.is_balanced_html", "utils.wrap_html_tags", "annotate.SpanUpdater.get_diff_steps", "annotate.SpanUpdater.get_diff_steps_builtin",
                 "models.Document.__post_init__", "models.Document.tokenize"],
        "contracts": ["a_common", "c18_helpers", "helpers", "find", "filter", "refs", "resolve", "annotate", "tokenizers", "zz_getcit"],
        "functions": "ALL_NORAISE",
        "assumptions": ["exception freedom is proved per function under the class/type invariants stated as preconditions (each asserted at the call sites that are under contract); "
                        "MemoryError, RecursionError, KeyboardInterrupt are outside every noraise contract",
                        "raise-sets of externals: re/regex search/match/finditer/sub on the shipped patterns: none; lxml.etree.fromstring: XMLSyntaxError only (caught); "
                        "fast_diff_match_patch.diff: none; ahocorasick iter: none (non-empty automaton)",
                        REGEX_LEMMAS, PART_ASSUMPTION, NONL_ASSUMPTION, CIT_WF, DEFAULT_RESOLVERS,
                        "annotate_citations is proved for the documented domain (spans inside the text, annotator None, mode one of the three literals)"],
        "not_covered": ["Tokenizer.tokenize (proved for C12 without the no-raise flag), Document.__post_init__ (assumed no-raise on the documented domain steps_valid), "
                        "the Aho-Corasick and Hyperscan tokenizer bodies (generators / C libraries): bounded stand-in only; get_citations itself, extract_reference_citations and "
                        "find_reference_citations_from_markup ARE under no-raise contracts",
                        "the Hyperscan cache path (C14, not applicable)"],
    },
    "C06": {
        "pins": ['utils.strip_punct', 'utils.hash_sha256'],
        "contracts": ["a_common", "c18_helpers", "resolve"],
        # the second half of share_iff_equal ('equal <=> same normalised volume, reporter, page, not placeholder') is C16's hash model:
        # its obligations and the contract of corrected_reporter() (normalised = the guessed edition's name) are part of this check too
        "functions": RESOLVE_FUNCS + ["models.ResourceCitation.corrected_reporter"],
        "extra": [_c16_extra],
        "assumptions": [A_HASH, DEFAULT_RESOLVERS, CIT_WF,
                        "dict model: defaultdict(list) keyed by the abstract equality key of the resource; the key object stored is not modelled (values only)",
                        "'sub-sequence' is by input index: a list that contains the same object twice is two indices"],
        "not_covered": [],
    },
    "C07": {
        "pins": ['utils.strip_punct', 'utils.hash_sha256'],
        "contracts": ["a_common", "resolve"],
        "functions": RESOLVE_FUNCS,
        "assumptions": [A_HASH, DEFAULT_RESOLVERS, CIT_WF,
                        "strip_punct is an uninterpreted function of its argument (what it strips is not part of the property)",
                        "iteration order of list(set(...)) is unspecified (any permutation of the distinct elements)",
                        "pin-cite window clause is stated for antecedent pages of at most 4300 decimal digits (int() limit)"],
        "not_covered": [],
    },
    "C08": {
        "pins": ['utils.strip_punct', 'utils.hash_sha256'],
        "contracts": ["a_common", "resolve"],
        "functions": RESOLVE_FUNCS,
        "assumptions": [A_HASH, DEFAULT_RESOLVERS, CIT_WF,
                        "the two-run statement (prefix vs whole list) is reduced to one-run obligations: functional step + append-only frame + "
                        "the loop body reads `citations` only through the loop variable (syntactic obligation) -- DESIGN 6/C08"],
        "not_covered": [],
        "extra_names": ["reads_only_current"],
    },
    "C02": {
        "pins": ['models.CitationBase.__post_init__', 'models.ResourceCitation.__post_init__', 'helpers.get_court_by_paren'] + API_PINS,
        "contracts": API_CONTRACTS,
        "functions": OFFSET_FUNCS + API_FUNCS,
        "assumptions": [PART_ASSUMPTION, NONL_ASSUMPTION, REGEX_LEMMAS,
                        "E-DATACLASS-CTOR: the dataclass-generated constructors (+ __post_init__) of citation/token classes set the declared fields",
                        "the class invariant SPANS is proved at every construction site (_extract_*, the add_metadata chain, both reference extractors, UnknownCitation) and carried "
                        "by the loop invariant of get_citations through filter_citations (nothing invented) and remove_ambiguous (a filter) to EVERY returned citation, "
                        "in plain and in markup mode (offsets w.r.t. the cleaned text)"] + API_ASSUMPTIONS,
        "not_covered": ["the easter-egg path of get_citations (plain_text == 'eyecite' returns a canned citation with span (0, 99)): excluded by precondition, known finding C02-4",
                        "PIN_IN (the pin-cite text lies inside the pin-cite span) is proved per extractor but not carried through get_citations' loop invariant"],
    },
    "C03": {
        "pins": API_PINS,
        "contracts": API_CONTRACTS,
        "functions": ["helpers.overlapping_citations", "models.CitationBase.span", "models.CitationBase.full_span", "helpers.filter_citations",
                      "helpers.disambiguate_reporters", "find.get_citations"],
        "assumptions": ["every element of the list is a well-formed citation object (cit_wf)",
                        "E-DICT-DEDUPE: list({c.span(): c for c in cs}.values()) keeps for every span the last element with that span; spans of the result are pairwise distinct",
                        "E-SORTED: sorted() is a stable permutation with non-decreasing keys",
                        "keeps_non_references: a non-reference citation is kept unless a later NON-reference citation has the identical span (after fix 9b8e589)",
                        "ordered_by_span / distinct_spans are postconditions of get_citations itself (carried from filter_citations through remove_ambiguous)"] + API_ASSUMPTIONS[:2],
        "not_covered": ["spans_disjoint (no two returned spans overlap) needs the disjointness of token-derived spans (C12 + C02's extension bound) and is checked by the bounded stand-in only",
                        "idempotence of filter_citations is checked by the bounded stand-in only"],
    },
    "C09": {
        "pins": ['utils.is_balanced_html', 'utils.wrap_html_tags', 'annotate.SpanUpdater.get_diff_steps', 'annotate.SpanUpdater.get_diff_steps_builtin'],
        "contracts": ["a_common", "annotate"],
        "functions": ["annotate.SpanUpdater.__init__", "annotate.SpanUpdater.update", "utils.maybe_balance_style_tags", "annotate.annotate_citations"],
        "assumptions": ["the deletion formulation ('deleting the inserted strings restores the target') is replaced by the ghost `content`: the concatenation of the "
                        "document-text parts appended to the output equals the target text; the two are equivalent when the inserted strings do not occur in the texts (informal step)",
                        "documented domain: annotator is None, every annotation span satisfies 0 <= start <= end <= len(plain_text), before/after are strings",
                        "in 'wrap' mode the document part of the wrapped span is the unwrapped slice (E-RE-SUB for wrap_html_tags: only insertions)",
                        "E-DIFF for both diff engines (steps tile both strings; minimality not assumed)",
                        "excluded corner: empty plain text with a non-empty source text (SpanUpdater has no range; IndexError)"],
        "not_covered": [],
    },
    "C10": {
        "pins": ['utils.is_balanced_html', 'utils.wrap_html_tags', 'annotate.SpanUpdater.get_diff_steps', 'annotate.SpanUpdater.get_diff_steps_builtin'],
        "contracts": ["a_common", "annotate"],
        "functions": ["annotate.SpanUpdater.__init__", "annotate.SpanUpdater.update", "utils.maybe_balance_style_tags", "annotate.annotate_citations"],
        "assumptions": ["E-DIFF for both diff engines; E-BISECT", "clause A is proved for 'unchecked' mode without a source text (step clause emits_exact)",
                        "clause B: translated offsets stay within the source (in_range) and the translation is MONOTONE -- both proved: update's postcondition `value` gives the exact "
                        "result from the class invariant (ranges ordered in both texts: clauses below/mono of upd_clauses, established by __init__), and the closed lemmas "
                        "update_monotone_{00,11,01,10} prove o1 <= o2 => update(o1) <= update(o2) for every pairing of bisect variants over the functional contract F_update"],
        "not_covered": ["clause C (each annotation encloses exactly the source characters of its plain span) needs minimality/uniqueness of the diff and is bounded (stand-in) only"],
    },
    "C11": {
        "pins": ['utils.is_balanced_html', 'utils.wrap_html_tags', 'annotate.SpanUpdater.get_diff_steps', 'annotate.SpanUpdater.get_diff_steps_builtin'],
        "contracts": ["a_common", "annotate"],
        "functions": ["annotate.SpanUpdater.__init__", "annotate.SpanUpdater.update", "utils.maybe_balance_style_tags", "annotate.annotate_citations"],
        "assumptions": ["E-LXML: is_balanced_html is an uninterpreted predicate wf(s)",
                        "L-XML (assumed, not proved): disjoint ordered wf spans wrapped in balanced elements keep a well-formed document well-formed"],
        "not_covered": ["the parse step itself (output parses under lxml) is checked by the bounded stand-in only"],
    },
    "C12": {
        "pins": ['tokenizers.Tokenizer.extract_tokens', 'tokenizers.HyperscanTokenizer.extract_tokens', 'tokenizers.Tokenizer.get_extractors', 'models.CitationToken.merge', 'models.CitationToken.__post_init__', 'models.TokenExtractor.get_matches', 'models.TokenExtractor.get_token'],
        "contracts": ["a_common", "helpers", "tokenizers"],
        "functions": ["models.Token.from_match", "models.Token.merge", "tokenizers.token_is_from_nominative_reporter", "tokenizers.Tokenizer.append_text",
                      "tokenizers.Tokenizer.tokenize"],
        "assumptions": ["CAND: every candidate token yielded by extract_tokens (both implementations) has 0 <= start <= end <= len(text) and its text is text[start:end] "
                        "(Token.from_match + E-RE-SPAN; the generator bodies and **extra construction are outside the subset; Hyperscan's own behaviour is C14)",
                        "append_text is VERIFIED (loop invariant SLICES over the split pieces, closed lemmas slices_append / slice_inner) against E-STR-SPLIT: "
                        "s.split(' ') yields the maximal space-free pieces of s in order, separated by exactly one space each",
                        "CitationToken.merge is modelled by its frame (edition tuples only) and result (self or None)",
                        "E-CUM: cumulative-length function over token arrays with its frame and monotonicity consequences",
                        "E-SORTED: sorted() is a stable permutation with non-decreasing keys"],
        "not_covered": ["AhocorasickTokenizer.get_extractors / HyperscanTokenizer.extract_tokens bodies (C13 / C14)"],
    },
    "C16": {
        "pins": ['utils.hash_sha256', 'models.CitationBase.__post_init__'],
        "contracts": ["a_common", "c18_helpers", "resolve"],
        # guess_edition carries the variation lemma: a single candidate edition is always guessed, so a variation spelling normalises to the canonical one
        "functions": ["models.ResourceCitation.corrected_reporter", "models.Edition.includes_year", "models.ResourceCitation.guess_edition"],
        "extra": [_c16_extra],
        "assumptions": [A_HASH, "E-HASH: json.dumps(sort_keys=True, default=str) is injective on the hashed dictionaries",
                        "case citations carry 'page' and 'reporter' groups (reporters-db guarantee quoted in CaseCitation.__hash__'s docstring)",
                        "the hash of law/journal citations includes the sorted candidate editions; their equality is an uninterpreted component",
                        "a placeholder page (a run of underscores) is normalised to groups['page'] = None by CitationBase.__post_init__ (assumed, pinned by SHA-256; "
                        "the hash model states placeholder identity over page None)"],
        "not_covered": ["'every spelling variation that the database maps unambiguously to an edition equals the canonical spelling' is extraction over the database "
                        "(bounded stand-in: exhaustive over reporters-db)",
                        "the re-parse / fixed-point clause of corrected_citation() (round trip through the extractor)"],
    },
    "C19": {
        "pins": ["models.Document.__post_init__", "models.Document.tokenize", "models.CitationBase.__post_init__", "utils.is_valid_name"],
        "contracts": API_CONTRACTS,
        "functions": ["find.extract_pincited_reference_citations", "find.find_reference_citations_from_markup", "find.extract_reference_citations", "helpers.filter_citations",
                      "annotate.SpanUpdater.__init__", "annotate.SpanUpdater.update", "find.get_citations"],
        "extra": [_c19_extra],
        "assumptions": ["non-interference is proved as a frame argument: (syntactic, on the AST) markup flows only into Document(...) and the reference extractors, which build nothing but "
                        "ReferenceCitation objects and store to no existing object; (SMT) filter_citations keeps every non-reference citation and invents nothing (C03)",
                        "markup-derived reference offsets are SpanUpdater.update results, which stay within the cleaned text (C10 in_range)",
                        "is_valid_name is an uninterpreted predicate",
                        "ROUNDTRIP (assumed, precondition of find_reference_citations_from_markup, not checked at its call site in extract_reference_citations): the two "
                        "independently computed diffs of a Document are mutually consistent -- for every plain offset p and markup offset q >= plain_to_markup.update(p, bisect_right), "
                        "markup_to_plain.update(q, bisect_left) >= p.  Under it, every markup-derived reference starts at or after the span start of the full citation it derives from; "
                        "the bounded stand-in (clause reference_after_full) samples it on real diffs",
                        "SpanUpdater.update is a deterministic function of its arguments and of self.offsets / self.updaters / the selected partial (functional contract F_update)",
                        "E-RE-GROUP1: the capturing group of the style-tag regex takes part in every match (skeleton re-read from the AST on every run)",
                        "Document well-formedness (precondition): plain_to_markup / markup_to_plain satisfy the SpanUpdater invariant established by SpanUpdater.__init__ "
                        "(proved, C10) for (plain_text, markup_text) resp. (markup_text, plain_text); Document.__post_init__ itself is pinned, not verified"],
        "not_covered": ["that a reference's text contains a valid party/resolved name -- bounded stand-in only",
                        "ROUNDTRIP itself (a statement about two fast_diff_match_patch diffs) -- assumed; bounded stand-in only",
                        "the easter-egg input (known finding)"],
    },
    "C20": {
        "contracts": ["clean"],
        "functions": ["clean.clean_text"],
        "extra": [_c20_extra],
        "assumptions": ["a step's effect is an uninterpreted function apply_step(step, text); names are looked up in the dict display of cleaners_lookup read from the AST",
                        "composition clean_text(t, a+b) == clean_text(clean_text(t, a), b) follows from `sequential` by the fold-append lemma proved in lean/Collapse.lean (fold_append)",
                        "cleaner laws: Lean proves them for `collapse`; that re.sub IS collapse on the classified patterns is assumed (E-RE-SUB) and cross-checked on a bounded domain"],
        "not_covered": ["the html cleaner (two lxml calls; the visible-text oracle is a statement about lxml's parser) -- bounded stand-in only"],
    },
    "C17": {
        "pins": ['models.CitationBase.__post_init__', 'models.ResourceCitation.__post_init__', 'helpers.get_court_by_paren'],
        "contracts": OFFSET_CONTRACTS,
        "functions": OFFSET_FUNCS + ["models.FullCaseCitation.is_parallel_citation"],
        "assumptions": [PART_ASSUMPTION, NONL_ASSUMPTION, REGEX_LEMMAS,
                        "L-CAT: ''.join(str(w) for w in words[a:b]) == text[offs[a]:offs[b]] (induction over PART; the step is the proved lemma slice_concat)",
                        "provenance is stated per store site: each textual metadata value is a substring of the text window it was matched in, and that window lies "
                        "inside [full span start, span start] resp. [span end, full span end]",
                        "court is an id looked up in courts_db, not text (not in the property's list)"],
        "not_covered": ["defendant and California-style leading year stored by add_defendant: the substring-of-window clause does not discharge reliably "
                        "(str.contains through a regex-search match of a stripped join) and was withdrawn; bounded stand-in only",
                        "supra volume / antecedent of _extract_supra_citation and antecedent of _extract_shortform_citation (window arithmetic proved under C02; substring clause not stated)",
                        "joint extent of parallel citations is covered by the equality of full-span starts (copies_when_joined), not by a substring clause"],
    },
    "C18": {
        "pins": ['models.CitationBase.__post_init__', 'models.ResourceCitation.__post_init__', 'helpers.get_court_by_paren'] + API_PINS,
        "contracts": API_CONTRACTS,
        "functions": ["helpers.get_year", "models.Edition.includes_year", "models.ResourceCitation.guess_edition",
                      "helpers.disambiguate_reporters", "models.FullCaseCitation.is_parallel_citation"] + OFFSET_FUNCS + ["find.get_citations"],
        "assumptions": ["_highest_valid_year is a symbolic integer (date.today().year + 1 at import time)",
                        "datetime.now().year is a symbolic integer read from an external object",
                        "year soundness of every returned full case citation is a postcondition of get_citations (clause `years`, carried by its loop invariant through "
                        "is_parallel_citation, filter_citations and remove_ambiguous)"] + API_ASSUMPTIONS[:2],
        "not_covered": ["year soundness of returned law/journal citations is proved at their construction (add_metadata) but not carried through get_citations' invariant"],
    },
}
