"""Property -> contract files, functions under contract, stated assumptions, clauses not covered."""

A_HASH = ("A-HASH (DESIGN 2.3): hash(hash_sha256(d)) is injective on the dictionaries that occur and never collides with an "
          "id(); equality of citations/resources is equality of these abstract keys")
DEFAULT_RESOLVERS = "resolvers are the defaults (the function-valued parameters of resolve_citations are bound to their default values)"
CIT_WF = ("citation objects satisfy the class invariants established by their constructors/extraction: metadata/groups not None, "
          "type(c.metadata) is type(c).Metadata, case citations have an edition guess or a 'reporter' group, the page group of a "
          "full citation is in the language of PAGE_NUMBER_REGEX, id. pin cites are at most 300 characters (match window)")

RESOLVE_FUNCS = [
    "resolve.resolve_full_citation",
    "resolve._filter_by_matching_antecedent",
    "resolve._filter_by_matching_plaintiff_or_defendant_or_resolved_names",
    "resolve._has_invalid_pin_cite",
    "resolve._resolve_shortcase_citation",
    "resolve._resolve_supra_citation",
    "resolve._resolve_reference_citation",
    "resolve._resolve_id_citation",
    "models.ResourceCitation.corrected_reporter",
    "resolve.resolve_citations",
]

OFFSET_FUNCS = [
    "models.CitationBase.span", "models.CitationBase.full_span", "models.CitationBase.span_with_pincite",
    "helpers.match_on_tokens", "helpers.clean_pin_cite", "helpers.process_parenthetical", "helpers.extract_pin_cite",
    "helpers.add_post_citation", "helpers.add_defendant", "helpers.add_pre_citation", "helpers.add_law_metadata",
    "helpers.add_journal_metadata", "models.ResourceCitation.add_metadata", "models.CaseCitation.guess_court",
    "models.FullCaseCitation.add_metadata", "models.FullLawCitation.add_metadata", "models.FullJournalCitation.add_metadata",
    "find._extract_id_citation", "find._extract_supra_citation", "find._extract_shortform_citation", "find._extract_full_citation",
]
OFFSET_CONTRACTS = ["a_common", "c18_helpers", "helpers", "find"]
PART_ASSUMPTION = ("PART(words, text, offs): the token list partitions the document text pointwise over a ghost offset array "
                   "(a precondition here; it is the postcondition of Tokenizer.tokenize, C12)")
NONL_ASSUMPTION = "plain-string words contain no newline (every newline is a ParagraphToken of the shipped extractors)"
REGEX_LEMMAS = ("regex lemmas 4.2 (pin_cite group at the head of POST_{FULL,SHORT,JOURNAL}_CITATION_REGEX matches, year group is \\d{4}, "
                "group order before the parenthetical, POST_SHORT/LAW/JOURNAL patterns match the empty string, antecedent group always participates) "
                "are assumed as named axioms keyed by the regex constant")

PROPS = {
    "C06": {
        "contracts": ["a_common", "resolve"],
        "functions": RESOLVE_FUNCS,
        "assumptions": [A_HASH, DEFAULT_RESOLVERS, CIT_WF,
                        "dict model: defaultdict(list) keyed by the abstract equality key of the resource; the key object stored is not modelled (values only)",
                        "'sub-sequence' is by input index: a list that contains the same object twice is two indices"],
        "not_covered": ["second half of share_iff_equal ('equal <=> same normalised volume, reporter, page, not placeholder') is C16's clause"],
    },
    "C07": {
        "contracts": ["a_common", "resolve"],
        "functions": RESOLVE_FUNCS,
        "assumptions": [A_HASH, DEFAULT_RESOLVERS, CIT_WF,
                        "strip_punct is an uninterpreted function of its argument (what it strips is not part of the property)",
                        "iteration order of list(set(...)) is unspecified (any permutation of the distinct elements)",
                        "pin-cite window clause is stated for antecedent pages of at most 4300 decimal digits (int() limit)"],
        "not_covered": [],
    },
    "C08": {
        "contracts": ["a_common", "resolve"],
        "functions": RESOLVE_FUNCS,
        "assumptions": [A_HASH, DEFAULT_RESOLVERS, CIT_WF,
                        "the two-run statement (prefix vs whole list) is reduced to one-run obligations: functional step + append-only frame + "
                        "the loop body reads `citations` only through the loop variable (syntactic obligation) -- DESIGN 6/C08"],
        "not_covered": [],
        "extra_names": ["reads_only_current"],
    },
    "C02": {
        "contracts": OFFSET_CONTRACTS,
        "functions": OFFSET_FUNCS,
        "assumptions": [PART_ASSUMPTION, NONL_ASSUMPTION, REGEX_LEMMAS,
                        "E-DATACLASS-CTOR: the dataclass-generated constructors (+ __post_init__) of citation/token classes set the declared fields",
                        "the class invariant SPANS is proved at every construction site (_extract_* and the add_metadata chain); "
                        "the collecting loop of get_citations, filter_citations and the reference-citation extractors are covered under C03/C19"],
        "not_covered": ["the easter-egg path of get_citations (plain_text == 'eyecite' returns a canned citation with span (0, 99))",
                        "markup mode (offsets w.r.t. the cleaned text) is covered under C19's offsets_valid clause"],
    },
    "C03": {
        "contracts": ["a_common", "c18_helpers", "helpers", "filter"],
        "functions": ["helpers.overlapping_citations", "models.CitationBase.span", "models.CitationBase.full_span", "helpers.filter_citations"],
        "assumptions": ["every element of the list is a well-formed citation object (cit_wf)",
                        "E-DICT-DEDUPE: list({c.span(): c for c in cs}.values()) keeps for every span the last element with that span; spans of the result are pairwise distinct",
                        "E-SORTED: sorted() is a stable permutation with non-decreasing keys",
                        "keeps_non_references is proved with the carve-out 'no later element of the list has the identical span' (known finding C03-2)"],
        "not_covered": ["spans_disjoint (no two returned spans overlap) needs the disjointness of token-derived spans (C12 + C02's extension bound) and is checked by the bounded stand-in only",
                        "idempotence of filter_citations is checked by the bounded stand-in only"],
    },
    "C09": {
        "contracts": ["a_common", "annotate"],
        "functions": ["annotate.SpanUpdater.__init__", "annotate.SpanUpdater.update", "utils.maybe_balance_style_tags", "annotate.annotate_citations"],
        "assumptions": ["the deletion formulation ('deleting the inserted strings restores the target') is replaced by the ghost `content`: the concatenation of the "
                        "document-text parts appended to the output equals the target text; the two are equivalent when the inserted strings do not occur in the texts (informal step)",
                        "documented domain: annotator is None, every annotation span satisfies 0 <= start <= end <= len(plain_text), before/after are strings",
                        "in 'wrap' mode the document part of the wrapped span is the unwrapped slice (E-RE-SUB for wrap_html_tags: only insertions)",
                        "E-DIFF for both diff engines (steps tile both strings; minimality not assumed)",
                        "excluded corner: empty plain text with a non-empty source text (SpanUpdater has no range; IndexError)"],
        "not_covered": [],
    },
    "C10": {
        "contracts": ["a_common", "annotate"],
        "functions": ["annotate.SpanUpdater.__init__", "annotate.SpanUpdater.update", "utils.maybe_balance_style_tags", "annotate.annotate_citations"],
        "assumptions": ["E-DIFF for both diff engines; E-BISECT", "clause A is proved for 'unchecked' mode without a source text (step clause emits_exact)",
                        "clause B: translated offsets stay within the source (in_range) is proved for both bisect variants; monotonicity of the translation is checked by the bounded stand-in only"],
        "not_covered": ["clause C (each annotation encloses exactly the source characters of its plain span) needs minimality/uniqueness of the diff and is bounded (stand-in) only"],
    },
    "C11": {
        "contracts": ["a_common", "annotate"],
        "functions": ["annotate.SpanUpdater.__init__", "annotate.SpanUpdater.update", "utils.maybe_balance_style_tags", "annotate.annotate_citations"],
        "assumptions": ["E-LXML: is_balanced_html is an uninterpreted predicate wf(s)",
                        "L-XML (assumed, not proved): disjoint ordered wf spans wrapped in balanced elements keep a well-formed document well-formed"],
        "not_covered": ["the parse step itself (output parses under lxml) is checked by the bounded stand-in only"],
    },
    "C12": {
        "contracts": ["a_common", "helpers", "tokenizers"],
        "functions": ["models.Token.merge", "tokenizers.token_is_from_nominative_reporter", "tokenizers.Tokenizer.tokenize"],
        "assumptions": ["CAND: every candidate token yielded by extract_tokens (both implementations) has 0 <= start <= end <= len(text) and its text is text[start:end] "
                        "(Token.from_match + E-RE-SPAN; the generator bodies and **extra construction are outside the subset; Hyperscan's own behaviour is C14)",
                        "append_text (split on single spaces, separators kept) is an assumed contract: the appended plain words concatenate to the given text (E-STR split/join)",
                        "CitationToken.merge is modelled by its frame (edition tuples only) and result (self or None)",
                        "E-CUM: cumulative-length function over token arrays with its frame and monotonicity consequences",
                        "E-SORTED: sorted() is a stable permutation with non-decreasing keys"],
        "not_covered": ["AhocorasickTokenizer.get_extractors / HyperscanTokenizer.extract_tokens bodies (C13 / C14)"],
    },
    "C18": {
        "contracts": OFFSET_CONTRACTS,
        "functions": ["helpers.get_year", "models.Edition.includes_year", "models.ResourceCitation.guess_edition",
                      "helpers.disambiguate_reporters"] + OFFSET_FUNCS,
        "assumptions": ["_highest_valid_year is a symbolic integer (date.today().year + 1 at import time)",
                        "datetime.now().year is a symbolic integer read from an external object"],
        "not_covered": [],
    },
}
