#!/venv/bin/python
"""C20 stand-in: BOUNDED cross-check of assumption E-RE-SUB and of the three
cleaner laws on the real functions.  Never counts as a proof (DESIGN 6/C20).

Run under /venv/bin/python (the interpreter eyecite runs in):

    /venv/bin/python /verif/checks/c20_standin.py --seed 0 --tier quick

For each of eyecite.clean.inline_whitespace / all_whitespace / underscores:

  * `model_equal`  -- the real function is compared with `collapse(p, n, r, s)`
    below, a line-by-line transliteration of `Collapse.flush` / `Collapse.go` /
    `Collapse.collapse` in /verif/lean/Collapse.lean (same names, same argument
    order, same recursion; Lean `List α` is a Python list of 1-character strs),
    instantiated as the PROPERTY says: ({' ', '\\t'}, 1, [' ']),
    (CPython `\\s` = the 29 code points of Collapse.pySpaceP, 1, [' ']),
    ({'_'}, 2, []).  This is the bounded check of E-RE-SUB (re.sub on C{n,} with
    a literal replacement is `collapse`), and also catches a source edit that
    leaves the family.
  * the three property clauses, directly on the real function (no model):
      `idempotent`            f(f(s)) == f(s)
      `no_remaining_run`      ws: no two adjacent class characters in f(s) and
                              every class character of f(s) is ' ';
                              underscores: '__' does not occur in f(s)
      `others_kept_in_order`  deleting the class characters from f(s) and from s
                              gives the same string; underscores additionally:
                              f(s) is a subsequence of s
      `erasure_equality`      f(s) == s with every maximal class run (underscores:
                              of two or more '_') replaced by ' ' (underscores:
                              erased) -- itertools.groupby reading, independent
                              of the recursive model; this is the clause that
                              sees a single '_' being dropped or whitespace
                              being deleted instead of collapsed

Domain (the `bound` field): ALL strings of length <= L over a 4-letter alphabet
per cleaner (L = 8 quick, 10 thorough), plus seeded random run-structured
strings of length 9..200 over an alphabet that includes the non-ASCII
whitespace U+00A0 U+2003 U+0085 U+001C..U+001F (and U+200B, which is NOT
whitespace), 3 000 (quick) / 100 000 (thorough) per cleaner.

Prints one JSON object on stdout:
  {"evaluations", "distinct", "violations": [{"cleaner","clause","input","got","expected"}], "bound", ...}
Exit status is always 0; the caller decides.
"""
from __future__ import annotations

_HTML = None
_CLEAN_TEXT = None

import argparse
import importlib.util
import itertools
import json
import random
import sys
import time
from typing import Callable, Dict, List, Optional

sys.setrecursionlimit(10000)

# ------------------------------------------------------------------------------------------
# Transliteration of /verif/lean/Collapse.lean (keep in step with the Lean text)
# ------------------------------------------------------------------------------------------

# def flush (n : Nat) (r : List α) (run : List α) : List α :=
#   if n ≤ run.length then r else run
def flush(n: int, r: List[str], run: List[str]) -> List[str]:
    return r if n <= len(run) else run


# def go (p : α → Bool) (n : Nat) (r : List α) : List α → List α → List α
#   | run, [] => flush n r run
#   | run, x :: xs =>
#     if p x = true then go p n r (run ++ [x]) xs
#     else flush n r run ++ x :: go p n r [] xs
def go(p: Callable[[str], bool], n: int, r: List[str], run: List[str], s: List[str]) -> List[str]:
    if not s:
        return flush(n, r, run)
    x, xs = s[0], s[1:]
    if p(x) is True:
        return go(p, n, r, run + [x], xs)
    else:
        return flush(n, r, run) + [x] + go(p, n, r, [], xs)


# def collapse (p : α → Bool) (n : Nat) (r : List α) (s : List α) : List α :=
#   go p n r [] s
def collapse(p: Callable[[str], bool], n: int, r: List[str], s: List[str]) -> List[str]:
    return go(p, n, r, [], s)


# def inlineWsP (c : Char) : Bool := c == ' ' || c == '\t'
def inlineWsP(c: str) -> bool:
    return c == " " or c == "\t"


# def underscoreP (c : Char) : Bool := c == '_'
def underscoreP(c: str) -> bool:
    return c == "_"


# def pySpaceP (c : Char) : Bool := let k := c.toNat; (0x09 ≤ k && k ≤ 0x0D) || ...
def pySpaceP(c: str) -> bool:
    k = ord(c)
    return ((0x09 <= k <= 0x0D) or (0x1C <= k <= 0x20) or k == 0x85 or k == 0xA0 or
            k == 0x1680 or (0x2000 <= k <= 0x200A) or k == 0x2028 or k == 0x2029 or
            k == 0x202F or k == 0x205F or k == 0x3000)


# inlineWhitespace / allWhitespace / underscores of the Lean file
INSTANCES = {
    "inline_whitespace": dict(p=inlineWsP, n=1, r=[" "], kind="ws",
                              alphabet=[" ", "\t", "a", "\n"]),
    "all_whitespace": dict(p=pySpaceP, n=1, r=[" "], kind="ws",
                           alphabet=[" ", "\n", "a", "\u00a0"]),
    "underscores": dict(p=underscoreP, n=2, r=[], kind="del",
                        alphabet=["_", "a", " ", "b"]),
}

RANDOM_ALPHABET = ([" ", "\t", "\n", "\r", "\x0b", "\x0c", "\u00a0", "\u2003", "\u0085",
                    "\x1c", "\x1d", "\x1e", "\x1f", "\u1680", "\u2028", "\u3000", "\u200b"]
                   + ["_", "_", "_", "a", "b", "Z", "1", ".", "-", "\u00e9", "\U0001d4d0", "\ud800"])


def model(name: str, s: str) -> str:
    inst = INSTANCES[name]
    return "".join(collapse(inst["p"], inst["n"], inst["r"], list(s)))


# ------------------------------------------------------------------------------------------
# direct property clauses (no model)
# ------------------------------------------------------------------------------------------

def is_subsequence(a: str, b: str) -> bool:
    it = iter(b)
    return all(ch in it for ch in a)


def rewrite_runs(s: str, p: Callable[[str], bool], n: int, r: List[str]) -> str:
    """s with every maximal p-run of length >= n replaced by r (itertools.groupby reading)."""
    return "".join("".join(r) if (k and len(g) >= n) else "".join(g)
                   for k, grp in itertools.groupby(s, key=p) for g in [list(grp)])


def check_one(name: str, f: Callable[[str], str], s: str, report: Callable[..., None]) -> None:
    inst = INSTANCES[name]
    p, n, r, kind = inst["p"], inst["n"], inst["r"], inst["kind"]
    out = f(s)
    exp = model(name, s)
    if out != exp:
        report(name, "model_equal", s, out, exp)
    again = f(out)
    if again != out:
        report(name, "idempotent", s, again, out)
    flags = [p(c) for c in out]
    if any(a and b for a, b in zip(flags, flags[1:])):
        report(name, "no_remaining_run", s, out, "no two adjacent class characters")
    elif kind == "ws" and any(fl and c != r[0] for fl, c in zip(flags, out)):
        report(name, "no_remaining_run", s, out, f"every class character equal to {r[0]!r}")
    kept_out = "".join(c for c in out if not p(c))
    kept_in = "".join(c for c in s if not p(c))
    if kept_out != kept_in:
        report(name, "others_kept_in_order", s, kept_out, kept_in)
    elif kind == "del" and not is_subsequence(out, s):
        report(name, "others_kept_in_order", s, out, "a subsequence of the input")
    er = rewrite_runs(s, p, n, r)
    if out != er:
        report(name, "erasure_equality", s, out, er)


# ------------------------------------------------------------------------------------------
# inputs
# ------------------------------------------------------------------------------------------

def exhaustive(alphabet: List[str], max_len: int):
    for ln in range(max_len + 1):
        for tup in itertools.product(alphabet, repeat=ln):
            yield "".join(tup)


def random_strings(rng: random.Random, count: int, extra: List[str]):
    alpha = RANDOM_ALPHABET + extra * 3
    for _ in range(count):
        target = rng.randint(9, 200)
        parts: List[str] = []
        ln = 0
        while ln < target:
            c = rng.choice(alpha)
            k = min(rng.choice((1, 1, 1, 2, 2, 3, 4, 7)), target - ln)
            if rng.random() < 0.25:       # a mixed run of class characters
                parts.append("".join(rng.choice(extra) for _ in range(k)))
            else:
                parts.append(c * k)
            ln += k
        yield "".join(parts)


# ------------------------------------------------------------------------------------------
# html cleaner: generated element trees with the expected visible text known from the generator
# ------------------------------------------------------------------------------------------
INLINE = ["i", "em", "b", "span", "u"]
BLOCK = ["div", "blockquote", "section"]
HIDDEN_RAW = ["script", "style"]
WORD_ENTS = [("&amp;", "&"), ("&lt;", "<"), ("&gt;", ">"), ("&#167;", "\u00a7"), ("&sect;", "\u00a7"), ("&quot;", '"')]
XML_WS = " \t\n"


class _Gen:
    def __init__(self, rng):
        self.rng = rng
        self.n = 0

    def text(self):
        """(serialised, decoded) text piece: a numbered word, optionally with an entity and surrounding XML whitespace"""
        r = self.rng
        if r.random() < 0.12:
            ws = "".join(r.choice(XML_WS) for _ in range(r.randint(1, 3)))
            return ws, ws
        self.n += 1
        ser = dec = f"w{self.n}"
        if r.random() < 0.25:
            e, d = r.choice(WORD_ENTS)
            ser, dec = ser + e + "x", dec + d + "x"
        pre = r.choice(["", "", " ", "\n", "  "])
        post = r.choice(["", "", " ", "\n "])
        return pre + ser + post, pre + dec + post

    def children(self, depth, allow_block):
        r = self.rng
        out = []
        for _ in range(r.randint(0, 4)):
            x = r.random()
            if x < 0.45 or depth >= 4:
                out.append(("text",) + self.text())
            elif x < 0.60:
                tag = r.choice(HIDDEN_RAW)
                self.n += 1
                raw = r.choice([f"var h{self.n} = 'hidden';", f"p {{ color: h{self.n} }}", "", f"h{self.n} < 3 && y"])
                out.append(("raw", tag, raw))
            elif x < 0.68:
                out.append(("void", r.choice(['<link rel="stylesheet" href="x.css">', "<br>", '<meta name="k" content="hidden">'])))
            elif x < 0.72:
                self.n += 1
                out.append(("void", f"<!-- hidden comment h{self.n} -->"))
            elif x < 0.88 or not allow_block:
                out.append(("el", r.choice(INLINE), self.children(depth + 1, False)))
            elif x < 0.94:
                out.append(("el", "p", self.children(depth + 1, False)))
            else:
                out.append(("el", r.choice(BLOCK), self.children(depth + 1, True)))
        return out


def _serialise(children):
    out = []
    for c in children:
        if c[0] == "text":
            out.append(c[1])
        elif c[0] == "raw":
            out.append(f"<{c[1]}>{c[2]}</{c[1]}>")
        elif c[0] == "void":
            out.append(c[1])
        else:
            out.append(f"<{c[1]}>{_serialise(c[2])}</{c[1]}>")
    return "".join(out)


def _visible_nodes(children, acc):
    """text nodes in document order; adjacent text pieces form ONE node (a comment, like any element, separates nodes)"""
    cur = None
    for c in children:
        if c[0] == "text":
            cur = (cur or "") + c[2]
            continue
        if cur is not None:
            acc.append(cur)
            cur = None
        if c[0] == "el":
            _visible_nodes(c[2], acc)
    if cur is not None:
        acc.append(cur)
    return acc


def html_cases(rng, count):
    fixed = [
        ("<div><p>w10<script>var x = 'hidden';</script>w11</p></div>", "w10 w11"),
        ('<div><link rel="stylesheet" href="x.css">w15<p>w16</p></div>', "w15 w16"),
        ("<div><style>p {}</style>w1 <i>w2</i><script>h</script> w3</div>", "w1  w2  w3"),
        ("<html><head><style>h1 {}</style><script>h2</script></head><body><p>w1 &amp; w2</p></body></html>", "w1 & w2"),
    ]
    for f in fixed:
        yield f
    for _ in range(count):
        g = _Gen(rng)
        kids = g.children(0, True)
        nodes = [t for t in _visible_nodes(kids, []) if t.strip(" \t\n\r")]
        if not nodes:
            continue
        body = _serialise(kids)
        shape = rng.random()
        if shape < 0.6:
            doc = f"<div>{body}</div>"
        elif shape < 0.8:
            doc = f"<html><head><style>hh0 {{}}</style><script>hh1</script><link rel=\"x\" href=\"hh2\"></head><body><div>{body}</div></body></html>"
        else:
            doc = f"<body><div>{body}</div></body>"
        yield doc, " ".join(nodes)


def load_cleaners(clean_path: Optional[str]):
    if clean_path:
        spec = importlib.util.spec_from_file_location("_c20_clean_under_test", clean_path)
        mod = importlib.util.module_from_spec(spec)      # type: ignore[arg-type]
        spec.loader.exec_module(mod)                      # type: ignore[union-attr]
    else:
        import eyecite.clean as mod                       # the real module
    global _HTML, _CLEAN_TEXT
    _HTML, _CLEAN_TEXT = getattr(mod, "html", None), getattr(mod, "clean_text", None)
    return {name: getattr(mod, name) for name in INSTANCES}, getattr(mod, "__file__", None)


def main(argv: List[str]) -> int:
    ap = argparse.ArgumentParser()
    ap.add_argument("--seed", type=int, default=0)
    ap.add_argument("--tier", choices=("quick", "thorough"), default="quick")
    ap.add_argument("--clean-path", default=None,
                    help="load this clean.py instead of eyecite.clean (scratch variants in tests)")
    ap.add_argument("--max-violations", type=int, default=5, help="kept per (cleaner, clause)")
    ns = ap.parse_args(argv)

    max_len = 8 if ns.tier == "quick" else 10
    n_random = 3000 if ns.tier == "quick" else 100000
    t0 = time.time()
    violations: List[Dict[str, str]] = []
    counts: Dict[str, int] = {}
    result = {"evaluations": 0, "distinct": 0, "violations": violations}
    try:
        cleaners, mod_file = load_cleaners(ns.clean_path)
    except Exception as e:                                   # import failure is reported, not raised
        result.update(bound="none: could not load the cleaners", error=f"{type(e).__name__}: {e}")
        print(json.dumps(result))
        return 0

    def report(cleaner: str, clause: str, s: str, got: str, expected: str) -> None:
        key = f"{cleaner}/{clause}"
        counts[key] = counts.get(key, 0) + 1
        if counts[key] <= ns.max_violations:
            violations.append({"cleaner": cleaner, "clause": clause, "input": s, "got": got, "expected": expected})

    evaluations = 0
    distinct = 0
    for name, inst in INSTANCES.items():
        f = cleaners[name]

        def safe(s: str, _f=f, _name=name) -> None:
            try:
                check_one(_name, _f, s, report)
            except Exception as e:                           # the cleaners are total on str
                report(_name, "no_exception", s, f"{type(e).__name__}: {e}", "a str")

        seen_long = set()
        for s in exhaustive(inst["alphabet"], max_len):     # all distinct by construction
            safe(s)
            evaluations += 1
            distinct += 1
        rng = random.Random(f"{ns.seed}/{name}")
        class_chars = [c for c in RANDOM_ALPHABET if inst["p"](c)]
        for s in random_strings(rng, n_random, sorted(set(class_chars))):
            safe(s)
            evaluations += 1
            if s not in seen_long:
                seen_long.add(s)
                distinct += 1

    # html cleaner: exactly the visible text nodes, in document order, joined by one space
    n_html = 600 if ns.tier == "quick" else 20000
    html_done = 0
    if _HTML is not None:
        for doc, expected in html_cases(random.Random(f"{ns.seed}/html"), n_html):
            evaluations += 1
            distinct += 1
            html_done += 1
            try:
                got = _HTML(doc)
                got2 = _CLEAN_TEXT(doc, ["html"]) if _CLEAN_TEXT is not None else got
            except Exception as e:
                report("html", "no_exception", doc, f"{type(e).__name__}: {e}", expected)
                continue
            if got != expected:
                report("html", "visible_text_nodes_in_order", doc, got, expected)
            elif got2 != got:
                report("html", "clean_text_html_step", doc, got2, got)

    per = (4 ** (max_len + 1) - 1) // 3
    result.update(
        evaluations=evaluations, distinct=distinct,
        bound=(f"per cleaner: all {per} strings of length <= {max_len} over a 4-letter alphabet "
               f"(inline_whitespace {INSTANCES['inline_whitespace']['alphabet']!r}, "
               f"all_whitespace {INSTANCES['all_whitespace']['alphabet']!r}, "
               f"underscores {INSTANCES['underscores']['alphabet']!r}) + {n_random} seeded random "
               f"run-structured strings of length 9..200 over {len(set(RANDOM_ALPHABET))} characters incl. "
               "U+00A0 U+2003 U+0085 U+001C-001F U+1680 U+2028 U+3000 (and non-space U+200B, a lone surrogate, "
               "an astral letter); clauses: model_equal (Lean collapse transliteration), idempotent, "
               "no_remaining_run, others_kept_in_order, erasure_equality; html cleaner: "
               f"{html_done} generated element trees (nested inline/block elements, script/style/link/meta/comment content, entities, "
               "XML whitespace; depth <= 5) with the expected visible text nodes known from the generator"),
        violation_counts=counts, tier=ns.tier, seed=ns.seed, module=mod_file,
        python=sys.version.split()[0], seconds=round(time.time() - t0, 2))
    print(json.dumps(result, ensure_ascii=True))
    return 0


if __name__ == "__main__":
    sys.exit(main(sys.argv[1:]))
