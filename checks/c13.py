#!/usr/bin/env python3-vt
"""C13 - the Aho-Corasick pre-filter is lossless (DESIGN section 6/C13, section 4).

    python3-vt /verif/checks/c13.py --tier quick|thorough

Per run:
  1. a child /venv/bin/python process (pyvc/dump_db.py) imports eyecite.tokenizers from the
     working tree and dumps every extractor with CPython's own regex parse tree and the
     code-point tables (E-DB; a change of tokenizers.py / regexes.py / reporters-db
     regenerates everything);
  2. for every extractor e with non-empty `strings` the lemma

        tokenizers.EXTRACTORS[i:label]/lemma:strings_necessary
        L_search(e.regex, e.flags)  /\  not ContainsAny(e.strings, ci)   =   empty

     is decided for ALL texts by z3 5.1 (in-process, str.in_re over the translated regular
     expression), with cvc5 1.0.3 / z3 4.8.12 (SMT-LIB text) as fall-back for `unknown` and,
     in the thorough tier, as second opinion on every `unsat`;
  3. `sat` models are replayed on the real code (pyvc/rx_c13_replay.py): reference
     Tokenizer(extractors=[e]) against AhocorasickTokenizer().get_extractors(text);
  4. listed open findings (known_findings.json) split their obligations into
     [outside-known-region] (must be discharged) and [known-region] (stored witnesses replayed);
  5. vacuity guards: one cover query per extractor (L_search non-empty, model validated by
     CPython's re and replayed through the real filter), canaries with a wrong literal;
  6. bounded side checks (never counted as proved): filter-model probes and a differential
     cross-check of the translation (IR matcher vs. CPython re on mutated cover models).

Exit 0 held / 1 violation / 3 checker problem (vacuity guard failed, crash).
"""
from __future__ import annotations

import json
import multiprocessing as mp
import os
import random
import shutil
import subprocess
import sys
import tempfile
import time
import traceback
from multiprocessing.connection import wait as mp_wait

VERIF = os.path.dirname(os.path.dirname(os.path.abspath(__file__)))
sys.path.insert(0, VERIF)

from pyvc import report  # noqa: E402
from pyvc import regex2smt as R  # noqa: E402
from pyvc.solve import CVC5, Z3OLD, Obligation, parse_sexprs, sexpr_value  # noqa: E402

PROP = "C13"
VENV_PY = "/venv/bin/python"
DUMP = os.path.join(VERIF, "pyvc", "dump_db.py")
REPLAY = os.path.join(VERIF, "pyvc", "rx_c13_replay.py")
LEMMA = "lemma:strings_necessary"
MAX_VIOLATION_FILES = 20

G: dict = {}   # state inherited by forked workers: tables, specs, configuration


def oname(rec, suffix=LEMMA):
    label = rec["label"].replace("/", "_")
    return "tokenizers.EXTRACTORS[%d:%s]/%s" % (rec["index"], label, suffix)


def _glob(pattern: str, name: str) -> bool:
    """`*` is the only wildcard (obligation names contain [ and ])."""
    import re as _re
    return _re.fullmatch(".*".join(_re.escape(p) for p in pattern.split("*")), name) is not None


def child_env():
    env = dict(os.environ)
    env["EYECITE_REPO"] = report.REPO
    env["PYTHONPATH"] = report.REPO + (os.pathsep + env["PYTHONPATH"] if env.get("PYTHONPATH") else "")
    env.setdefault("PYTHONHASHSEED", "0")
    return env


# ----------------------------------------------------------------------------- worker side

def _cli(solver: str, text: str, timeout: float, tag: str):
    path = os.path.join(G["tmp"], "q_%d_%s.smt2" % (os.getpid(), tag))
    with open(path, "w") as f:
        f.write(text)
    if solver == "cvc5-1.0.3":
        cmd = [CVC5, "--lang=smt2", "--strings-exp", "--produce-models", "--tlimit=%d" % int(timeout * 1000), path]
    else:
        cmd = [Z3OLD, "-T:%d" % max(1, int(timeout)), "-smt2", path]
    t0 = time.time()
    try:
        out = subprocess.run(cmd, capture_output=True, text=True, timeout=timeout + 5).stdout
    except subprocess.TimeoutExpired:
        out = "timeout"
    dt = time.time() - t0
    try:
        os.unlink(path)
    except OSError:
        pass
    lines = out.strip().splitlines()
    verdict = lines[0].strip() if lines and lines[0].strip() in ("sat", "unsat") else "unknown"
    model = None
    if verdict == "sat":
        try:
            sx = parse_sexprs(out[out.index("\n"):])
            model = sexpr_value(sx[0][0][1])
        except Exception:
            model = None
    return verdict, model, round(dt, 3)


def _decide(members, non_members, cs_strings, budget, confirm, tag, zcache=None):
    """Decide emptiness of  /\\ members  /\\  /\\ not non_members.  Returns a result dict."""
    import z3
    res = {"verdict": "unknown", "solver": "none", "seconds": 0.0, "model": None, "runs": []}
    alpha = R.alphabet_reduction(list(members) + list(non_members))
    res["alphabet"] = alpha.why
    if not alpha.ok:
        res["undecided_reason"] = "alphabet reduction failed: " + alpha.why
        return res
    t0 = time.time()
    try:
        x = z3.String("x")
        s = z3.SimpleSolver()
        s.set("timeout", int(budget * 1000))
        cache = {} if zcache is None else zcache.setdefault(id(alpha), {})
        for m in members:
            s.add(z3.InRe(x, R.ir_to_z3(m, cache, alpha)))
        for m in non_members:
            s.add(z3.Not(z3.InRe(x, R.ir_to_z3(m, cache, alpha))))
        r = str(s.check())
        if r == "sat":
            v = s.model().eval(x, model_completion=True)
            res["model"] = alpha.fix_model(R.z3_string_value(v))
        if r not in ("sat", "unsat"):
            r = "unknown"
    except Exception as ex:  # z3 API error: treat as unknown, fall back to the CLI solvers
        r = "unknown"
        res["z3_error"] = repr(ex)[:300]
    dt = round(time.time() - t0, 3)
    res["runs"].append(("z3-5.1(api)", r, dt))
    res["seconds"] += dt
    if r in ("sat", "unsat"):
        res["verdict"], res["solver"] = r, "z3-5.1(api)"

    def alternatives():
        if cs_strings is not None:
            # case-sensitive ContainsAny written with str.contains instead of a regex complement
            # (cvc5 decides this form in ~0.05 s where the complement form occasionally times out)
            yield "cvc5-1.0.3", "contains", lambda: R.emptiness_smt2(members, non_members[1:], not_containing=cs_strings, alpha=alpha)
        yield "cvc5-1.0.3", "in_re", lambda: R.emptiness_smt2(members, non_members, alpha=alpha)
        yield "z3-4.8.12", "inter", lambda: R.emptiness_smt2([R.mk_and(list(members) + [R.mk_not(m) for m in non_members])], alpha=alpha)

    if res["verdict"] == "unknown":
        for solver, form, mk in alternatives():
            v, model, dt = _cli(solver, mk(), budget, tag)
            res["runs"].append((solver + ":" + form, v, dt))
            res["seconds"] += dt
            if v in ("sat", "unsat"):
                res["verdict"], res["solver"] = v, solver
                res["model"] = alpha.fix_model(model) if isinstance(model, str) else model
                break
    elif res["verdict"] == "unsat" and confirm:
        cbudget = min(budget, float(os.environ.get("PYVC_CONFIRM_BUDGET", "30")))
        res["confirmed_by"] = None
        for solver, form, mk in alternatives():
            v, model, dt = _cli(solver, mk(), cbudget, tag)
            res["runs"].append((solver + ":" + form + ":confirm", v, dt))
            res["seconds"] += dt
            if v == "unsat":
                res["confirmed_by"] = solver
                break
            if v == "sat":
                model = alpha.fix_model(model) if isinstance(model, str) else model
                res["disagreement"] = {"solver": solver, "model": model}
                res["model"] = model
                break
    res["seconds"] = round(res["seconds"], 3)
    return res


def _mutants(text: str, rnd: random.Random, n: int):
    pool = "a1 .\nſsSİıiI,§Z9-"
    out = []
    for _ in range(n):
        if not text:
            out.append(rnd.choice(pool))
            continue
        k = rnd.randrange(4)
        i = rnd.randrange(len(text))
        if k == 0:
            out.append(text[:i] + text[i + 1:])
        elif k == 1:
            out.append(text[:i] + rnd.choice(pool) + text[i + 1:])
        elif k == 2:
            out.append(text[:i] + rnd.choice(pool) + text[i:])
        else:
            j = rnd.randrange(len(text))
            out.append(text[:min(i, j)] + text[max(i, j):])
    return out


def solve_spec(qid: int) -> dict:
    spec = G["specs"][qid]
    rec = G["db"]["extractors"][spec["index"]]
    T = G["T"]
    budget = G["budget"]
    out = {"qid": qid, "parts": {}, "unsupported": None}
    t0 = time.time()
    try:
        L = R.search_ir(rec["tree"], rec["final_flags"], T)
        C = R.contains_any_ir(spec["lits"], spec["ci"], T) if spec["lits"] else None
    except R.Unsupported as ex:
        out["unsupported"] = str(ex)
        return out
    out["build_s"] = round(time.time() - t0, 3)
    excl = R.excluding_chars_ir(spec["region"]) if spec["region"] else None
    cs_strings = None if spec["ci"] else list(spec["lits"])
    zcache: dict = {}
    for part in spec["parts"]:
        tag = "%d_%s" % (qid, part)
        if part == "main":
            mem = [L] + ([excl] if excl else [])
            res = _decide(mem, [C], cs_strings, budget, G["confirm"], tag, zcache)
        elif part == "inregion":
            reg = R.mk_cat([R.FULL, R.mk_set(R.ranges_of(sorted(ord(c) for c in spec["region"]))), R.FULL])
            res = _decide([L, reg], [C], None, budget, False, tag, zcache)
        elif part == "cover":
            res = _decide([L] + ([excl] if excl else []), [], None, budget, False, tag, zcache)
        elif part == "probe_ci":
            Ccs = R.contains_any_ir(spec["strings"], False, T)
            res = _decide([L] + ([excl] if excl else []), [Ccs], None, budget, False, tag, zcache)
        elif part == "canary":
            try:
                Cw = R.contains_any_ir(spec["wrong_lits"], spec["ci"], T)
            except R.Unsupported as ex:
                out["unsupported"] = str(ex)
                return out
            res = _decide([L] + ([excl] if excl else []), [Cw], None, budget, False, tag, zcache)
        else:
            raise ValueError(part)
        out["parts"][part] = res
    if spec.get("mutants") and out["parts"].get("cover", {}).get("model") is not None:
        m = out["parts"]["cover"]["model"]
        if len(m) <= 80:
            rnd = random.Random(G["seed"] * 1000003 + spec["index"])
            tm = time.time()
            out["mutants"] = [(t, R.ir_matches(L, t)) for t in [m] + _mutants(m, rnd, spec["mutants"])]
            out["mutant_s"] = round(time.time() - tm, 3)
    if spec.get("want_smt2"):
        if C is not None:
            mem = [L] + ([excl] if excl else [])
            out["smt2"] = R.emptiness_smt2(mem, [C], alpha=R.alphabet_reduction(mem + [C]))
    R.ir_deriv.cache_clear()
    R.ir_nullable.cache_clear()
    return out


def _worker(conn):
    try:
        while True:
            qid = conn.recv()
            if qid is None:
                return
            try:
                conn.send(solve_spec(qid))
            except Exception:
                conn.send({"qid": qid, "crash": traceback.format_exc(limit=6)})
    except (EOFError, KeyboardInterrupt):
        return


class Pool:
    """Forked workers, one task at a time each, with a hard per-task deadline."""

    def __init__(self, n: int):
        self.ctx = mp.get_context("fork")
        self.n = n
        self.workers = []

    def _spawn(self):
        a, b = self.ctx.Pipe()
        p = self.ctx.Process(target=_worker, args=(b,), daemon=True)
        p.start()
        b.close()
        return {"proc": p, "conn": a, "task": None, "t0": 0.0}

    def run(self, tasks, deadline_of, progress=None):
        results = {}
        todo = list(tasks)[::-1]
        self.workers = [self._spawn() for _ in range(min(self.n, max(1, len(todo))))]
        done = 0
        total = len(todo)
        while todo or any(w["task"] is not None for w in self.workers):
            for w in self.workers:
                if w["task"] is None and todo:
                    w["task"] = todo.pop()
                    w["t0"] = time.time()
                    w["conn"].send(w["task"])
            busy = [w for w in self.workers if w["task"] is not None]
            ready = mp_wait([w["conn"] for w in busy], timeout=1.0)
            for w in busy:
                if w["conn"] in ready:
                    try:
                        res = w["conn"].recv()
                    except (EOFError, OSError):
                        res = {"qid": w["task"], "crash": "worker process died"}
                        self._replace(w)
                    results[res["qid"]] = res
                    w["task"] = None
                    done += 1
                    if progress and done % 500 == 0:
                        progress(done, total)
                elif time.time() - w["t0"] > deadline_of(w["task"]):
                    results[w["task"]] = {"qid": w["task"], "killed": True}
                    self._replace(w)
                    w["task"] = None
                    done += 1
        for w in self.workers:
            try:
                w["conn"].send(None)
            except Exception:
                pass
        for w in self.workers:
            w["proc"].join(timeout=5)
            if w["proc"].is_alive():
                w["proc"].kill()
        return results

    def _replace(self, w):
        try:
            w["proc"].kill()
            w["proc"].join(timeout=5)
        except Exception:
            pass
        nw = self._spawn()
        w["proc"], w["conn"] = nw["proc"], nw["conn"]


# ----------------------------------------------------------------------------- parent side

def run_dump(tmp: str, tier: str) -> dict:
    out = os.path.join(tmp, "db.json")
    env = child_env()
    if tier == "thorough":
        env["PYVC_DUMP_FULLCHECK"] = "1"
    p = subprocess.run([VENV_PY, DUMP, out], capture_output=True, text=True, env=env, timeout=1800)
    if p.returncode != 0 or not os.path.exists(out):
        return {"error": "dump_db exit %s: %s" % (p.returncode, (p.stderr or p.stdout)[-2000:]), "rc": p.returncode}
    with open(out) as f:
        db = json.load(f)
    os.unlink(out)
    return db


def run_replay(tmp: str, items: list) -> dict:
    if not items:
        return {}
    fin, fout = os.path.join(tmp, "replay_in.json"), os.path.join(tmp, "replay_out.json")
    with open(fin, "w") as f:
        json.dump({"items": items}, f)
    p = subprocess.run([VENV_PY, REPLAY, fin, fout], capture_output=True, text=True, env=child_env(), timeout=3600)
    if p.returncode != 0 or not os.path.exists(fout):
        raise RuntimeError("replay child failed: rc=%s %s" % (p.returncode, (p.stderr or p.stdout)[-2000:]))
    with open(fout) as f:
        data = json.load(f)
    return {r["id"]: r for r in data["results"]}


def derived_region(db: dict, T: R.Tables) -> dict:
    """Characters that a case-insensitive literal of some re.I extractor matches although their
    lower() is not the literal's lower(): exactly where regex matching and the lower-casing
    filter can disagree.  Computed from the CPython tables of this run."""
    out = {}

    def walk(seq, acc):
        for n in seq:
            if n[0] == "LITERAL" and n[2] is not None:
                target = T.lower_map.get(n[1], (n[1],))
                if len(target) != 1:
                    acc.add(n[1])
                    continue
                pre = T.lower_preimage(target[0])
                for lo, hi in T.atoms[n[2]]:
                    for cp in range(lo, hi + 1):
                        if not R.in_ranges(pre, cp):
                            acc.add(cp)
            elif n[0] == "BRANCH":
                for b in n[1]:
                    walk(b, acc)
            elif n[0] == "SUBPATTERN":
                walk(n[4], acc)
            elif n[0] in ("MAX_REPEAT", "MIN_REPEAT", "POSSESSIVE_REPEAT"):
                walk(n[3], acc)
    for rec in db["extractors"]:
        if rec["flags"] & R.RE_IGNORECASE and rec["strings"]:
            acc: set = set()
            walk(rec["tree"], acc)
            out[rec["label"]] = sorted(acc)
    return out


def extra_obligations(run: report.Run) -> list:
    """The clause "for every extractor list" (DESIGN 13.12): a syntactic obligation on AhocorasickTokenizer.__post_init__ (the filters are
    built from the tokenizer's own list) and a bounded differential over random sub-lists (checks/c13_sublists.py, under /venv/bin/python)."""
    out = []
    try:
        p = subprocess.run([VENV_PY, os.path.join(report.VERIF, "checks", "c13_sublists.py"), "--seed", str(run.seed)],
                           capture_output=True, text=True, env=child_env(), timeout=900, cwd="/tmp")
        d = json.loads(p.stdout.strip().splitlines()[-1])
    except Exception as ex:
        run.notes.append("c13_sublists failed to run: %r" % (ex,))
        return out
    o = Obligation("tokenizers.AhocorasickTokenizer.__post_init__/syntactic:filters_built_from_own_extractors", [], None, {}, PROP, "post")
    o.status = "discharged" if d.get("syntactic_ok") else "refuted"
    o.solver = "ast"
    o.smt2 = o.raw = d.get("why", "")
    out.append(o)
    run.extra["bounded_sublist_differential"] = {"label": "bounded (never counted as proved)", "evaluations": d.get("evaluations"),
                                                 "bound": d.get("bound"), "violations": len(d.get("violations", []))}
    seen = set()
    for v in d.get("violations", []):
        if v.get("clause") in seen:
            continue
        seen.add(v.get("clause"))
        run.violation("standin:%s" % v.get("clause"), {"input": v, "source": "bounded sub-list differential (checks/c13_sublists.py)"}, True)
    if o.status == "refuted" and not d.get("violations"):
        run.violation(o.name, {"obligation": o.name, "why": o.raw}, False)
    return out


def main(argv=None) -> int:
    args, seed = report.tier_and_seed(argv)
    if args.replay:
        return subprocess.run([VENV_PY, REPLAY, "--replay", args.replay], env=child_env()).returncode
    tier = args.tier
    run = report.Run(PROP, tier, seed)
    jobs = int(os.environ.get("PYVC_JOBS", "10"))
    budget = float(os.environ.get("PYVC_BUDGET", 10 if tier == "quick" else 120))
    tmp = tempfile.mkdtemp(prefix="pyvc_c13_")
    try:
        return _main(run, args, seed, tier, jobs, budget, tmp)
    finally:
        shutil.rmtree(tmp, ignore_errors=True)


def _main(run, args, seed, tier, jobs, budget, tmp) -> int:
    checker_cmd = ("python3-vt /verif/checks/c13.py --tier %s  [per query: z3 5.1 Python API, "
                   "(assert (str.in_re x L_search)) (assert (not (str.in_re x ContainsAny))) (check-sat), timeout %gs; "
                   "fall-back/confirmation: /usr/bin/cvc5 --lang=smt2 --strings-exp --produce-models --tlimit=<ms> <q>.smt2, "
                   "/usr/bin/z3 -T:<s> -smt2 <q>.smt2]" % (tier, budget))
    run.trust(
        "E-AHO: ahocorasick.Automaton.iter(t) yields the stored value of key k iff k is a substring of t (at least one key added)",
        "E-RE-LANG: CPython's re matcher implements the regular language of its own parse tree (re._parser.parse); "
        "finditer yields a match iff search does",
        "E-STR: str.lower() is the per-code-point map dumped from the running CPython (U+03A3 context-dependent, "
        "its images do not occur in any literal - checked)",
        "E-DB: the installed reporters-db / eyecite working tree, dumped by a child /venv/bin/python on this run, is the quantifier's database",
        "pyvc/dump_db.py + pyvc/regex2smt.py: translation of the parse tree and code-point tables to SMT regular expressions "
        "(cross-checked on this run: every cover model validated by CPython re; differential sample IR vs re)",
        "SMT solvers: z3 5.1 (decision), cvc5 1.0.3 / z3 4.8.12 (fall-back; second opinion in thorough tier)",
    )
    run.assume(
        "DESIGN 4.3 alphabet reduction (solver characters stop at U+2FFFF), executed per query with a computed cut-off K <= U+2FFFF: "
        "every membership signature w.r.t. the query's atomic classes occurs at or below K; classes are cut at K and solver "
        "characters above K stand for the signature of U+10FFFF (pyvc/regex2smt.Alphabet); a failing query is undecided",
        "lossless step 1 (get_extractors/post over the extractor list captured in __post_init__, uses_own_extractors) is the "
        "pyvc engine's obligation (extra_obligations); this check proves step 2, lemma strings_necessary, for every extractor",
        "lossless step 3: token-stream equality follows from tokenize being a function of the multiset of candidate tokens "
        "(C12 loop + sorted) up to ties between equal (start, -end) keys (the tie caveat is C15's)",
        "known-finding regions are excluded from the claim (listed in coverage.excluded_known_findings)",
    )

    # ---------------------------------------------------------------- (a) dump
    t_dump = time.time()
    db = run_dump(tmp, tier)
    if "error" in db:
        if db.get("rc") == 2:   # unknown regex node: the tree changed shape -> undecided, not a violation
            o = Obligation(name="tokenizers.EXTRACTORS/dump:parse_trees_supported", assumptions=[], goal=None, prop=PROP, kind="lemma")
            o.status, o.solver, o.info = "undecided", "none", {"reason": db["error"]}
            run.add_obligations([o])
            run.notes.append("dump_db could not serialise a regex: " + db["error"])
            return run.finish(checker_cmd, "database dump failed; nothing proved on this run: " + db["error"][:300])
        print("c13: database dump failed:\n" + db["error"], file=sys.stderr)
        return 3
    t_dump = time.time() - t_dump
    T = R.load_tables(db)
    recs = db["extractors"]
    with_strings = [r for r in recs if r["strings"]]
    unfiltered = [r for r in recs if not r["strings"]]

    # ---------------------------------------------------------------- known findings
    known = report.load_known(PROP)
    regions = derived_region(db, T)

    def finding_for(rec):
        for f in known:
            labels = set(f.get("extractors", [])) | {w.get("extractor") for w in f.get("witnesses", [])}
            if rec["label"] in labels and _glob(f.get("obligation", "*") + "*", oname(rec)):
                return f
        return None

    # ---------------------------------------------------------------- (b) specs, deduplicated
    specs = []
    by_key = {}
    spec_of_index = {}
    for rec in recs:
        ci = bool(rec["flags"] & R.RE_IGNORECASE)
        f = finding_for(rec) if rec["strings"] else None
        key = (rec["regex"], rec["flags"], tuple(sorted(rec["strings"])), f["id"] if f else None)
        if key in by_key:
            spec_of_index[rec["index"]] = by_key[key]
            continue
        parts = ["cover"]
        if rec["strings"]:
            parts = ["main", "cover"]
            if ci:
                parts.append("probe_ci")
            if f:
                parts.append("inregion")
        spec = {"index": rec["index"], "ci": ci, "strings": rec["strings"],
                "lits": (rec["strings_lower"] if ci else rec["strings"]),
                "region": list(f["region_chars"]) if f else None, "parts": parts, "finding": f["id"] if f else None}
        by_key[key] = len(specs)
        spec_of_index[rec["index"]] = len(specs)
        specs.append(spec)
    n_distinct = len(specs)
    # (f) canaries: a deliberately wrong literal must be refuted
    canary_specs = []
    cs_first = next((r for r in with_strings if not r["flags"] & R.RE_IGNORECASE), None)
    ci_first = next((r for r in with_strings if r["flags"] & R.RE_IGNORECASE), None)
    for rec in (cs_first, ci_first):
        if rec is None:
            continue
        ci = bool(rec["flags"] & R.RE_IGNORECASE)
        f = finding_for(rec)
        base = rec["strings_lower"] if ci else rec["strings"]
        specs.append({"index": rec["index"], "ci": ci, "strings": rec["strings"], "lits": base,
                      "wrong_lits": [s + "~" for s in base], "region": list(f["region_chars"]) if f else None,
                      "parts": ["canary"], "finding": None})
        canary_specs.append(len(specs) - 1)
    # differential translation cross-check on every extractor: cover model + mutants of it
    n_mut = int(os.environ.get("PYVC_C13_XCHECK", "6" if tier == "quick" else "20"))
    for q in range(n_distinct):
        specs[q]["mutants"] = n_mut
    sample_smt2 = [q for q in (0, n_distinct // 2) if q < n_distinct] + \
                  [spec_of_index[r["index"]] for r in with_strings if r["flags"] & R.RE_IGNORECASE][:1]
    for q in sample_smt2:
        specs[q]["want_smt2"] = True
    if args.only:
        keep = [q for q, s in enumerate(specs) if args.only in oname(recs[s["index"]])]
    else:
        keep = list(range(len(specs)))

    G.update({"db": db, "T": T, "specs": specs, "budget": budget, "confirm": tier == "thorough",
              "tmp": tmp, "seed": seed})

    def deadline_of(q):
        n = len(specs[q]["parts"])
        return n * (budget * 4 + 30) + 60

    t_solve = time.time()
    pool = Pool(jobs)
    results = pool.run(keep, deadline_of,
                       progress=(lambda d, t: print("  ... %d/%d queries" % (d, t), flush=True)) if args.v else None)
    t_solve = time.time() - t_solve

    # ---------------------------------------------------------------- replay items
    items = []

    def add_item(iid, rec, text, mode="tokenizers"):
        items.append({"id": iid, "index": rec["index"], "regex": rec["regex"], "flags": rec["flags"],
                      "text": text, "mode": mode})

    for q in keep:
        res = results.get(q, {})
        rec = recs[specs[q]["index"]]
        for part, pr in res.get("parts", {}).items():
            if pr.get("model") is not None and (pr["verdict"] == "sat" or pr.get("disagreement")):
                add_item("%d:%s" % (q, part), rec, pr["model"], "regex" if part == "canary" else "tokenizers")
        for k, (text, _ir) in enumerate(res.get("mutants", [])):
            add_item("%d:mut:%d" % (q, k), rec, text, "regex")
    label_to_rec = {}
    for r in recs:
        label_to_rec.setdefault(r["label"], r)
    for f in known:
        for k, w in enumerate(f.get("witnesses", [])):
            r = label_to_rec.get(w.get("extractor"))
            if r is not None:
                add_item("known:%s:%d" % (f["id"], k), r, w["text"])
    t_replay = time.time()
    rp = run_replay(tmp, items)
    t_replay = time.time() - t_replay

    # ---------------------------------------------------------------- known findings: witnesses
    live_labels = {}      # finding id -> labels whose stored witness still fails
    for f in known:
        live = {}
        for k, w in enumerate(f.get("witnesses", [])):
            r = rp.get("known:%s:%d" % (f["id"], k))
            w["_replay"] = r
            if r and r.get("lost"):
                live.setdefault(w["extractor"], []).append(w["text"])
        live_labels[f["id"]] = live
        wn = len(f.get("witnesses", []))
        if live:
            run.known_finding("%s [id=%s; %d/%d stored witnesses still lose a token on the real code, e.g. %s: %r; region: %s]" % (
                f.get("what", ""), f["id"], sum(len(v) for v in live.values()), wn,
                next(iter(live)), next(iter(live.values()))[0], f.get("region", "")))
        else:
            run.notes.append("STALE known finding %s: none of its %d witnesses fails any more; its region is re-checked "
                             "as an ordinary obligation" % (f["id"], wn))
            print("[C13] stale known finding %s: no stored witness fails any more" % f["id"], flush=True)

    # ---------------------------------------------------------------- obligations
    obls, covers = [], []
    pending_violations = []
    stats = {"by_solver": {}, "confirmed_by": {}, "not_confirmed": [], "alphabet_failed": 0, "fallback_used": 0,
             "translation_bugs": [], "killed": 0}

    def base_obl(name, kind="lemma", expect="unsat"):
        o = Obligation(name=name, assumptions=[], goal=None, prop=PROP, kind=kind, expect=expect)
        o.status, o.solver = "undecided", "none"
        return o

    def judge(o, rec, spec, q, part, res, known_ok=False):
        """Turn a solver result for an `expect unsat` part into a status (+ violation)."""
        if res.get("killed") or res.get("crash"):
            o.info["reason"] = "worker killed at hard deadline" if res.get("killed") else "worker crash: " + res["crash"][-400:]
            stats["killed"] += 1
            return
        if res.get("unsupported"):
            o.info["reason"] = "unsupported regex construct: " + res["unsupported"]
            return
        pr = res["parts"].get(part)
        if pr is None:
            o.info["reason"] = "part not run"
            return
        o.solver, o.seconds = pr["solver"], pr["seconds"]
        o.info["solver_runs"] = pr["runs"]
        o.info["alphabet_reduction"] = pr.get("alphabet")
        if len(pr["runs"]) > 1 and not pr["runs"][0][1] in ("sat", "unsat"):
            stats["fallback_used"] += 1
        if pr.get("undecided_reason"):
            o.info["reason"] = pr["undecided_reason"]
            stats["alphabet_failed"] += 1
            return
        v = pr["verdict"]
        if v == "unsat" and not pr.get("disagreement"):
            o.status = "discharged"
            stats["by_solver"][pr["solver"]] = stats["by_solver"].get(pr["solver"], 0) + 1
            if G["confirm"]:
                cb = pr.get("confirmed_by")
                o.info["confirmed_by"] = cb
                if cb:
                    stats["confirmed_by"][cb] = stats["confirmed_by"].get(cb, 0) + 1
                else:
                    stats["not_confirmed"].append(o.name)
            return
        if v == "unknown":
            o.info["reason"] = "all solvers unknown/timeout"
            return
        # sat (or a second solver disagreeing with unsat): believe only the real code
        text = pr["model"]
        r = rp.get("%d:%s" % (q, part))
        o.values = {"text": text}
        o.info["replay"] = r
        if pr.get("disagreement"):
            o.info["disagreement"] = pr["disagreement"]
        if r is None or r.get("re_search") is None or r.get("error"):
            o.info["reason"] = "model could not be replayed: %r" % (r,)
            return
        if not r["re_search"]:
            msg = ("TRANSLATION BUG (checker side): solver model %r for %s is not matched by CPython re; "
                   "obligation reported undecided, NOT a violation" % (text, o.name))
            print("[C13] !!! " + msg, flush=True)
            run.notes.append(msg)
            stats["translation_bugs"].append(o.name)
            o.info["reason"] = msg
            return
        if pr.get("disagreement") and not r.get("lost"):
            o.info["reason"] = "solvers disagree and the sat model does not reproduce"
            return
        o.status = "refuted"
        o.solver = pr["solver"] if v == "sat" else pr["disagreement"]["solver"]
        if known_ok:
            return
        pending_violations.append((o, rec, spec, text, r))

    for rec in recs:
        q = spec_of_index[rec["index"]]
        if q not in results:
            continue
        spec, res = specs[q], results[q]
        first = specs[q]["index"] == rec["index"]
        name = oname(rec)
        if rec["strings"]:
            f = finding_for(rec)
            live = bool(f and rec["label"] in live_labels.get(f["id"], {}))
            if f:
                o1 = base_obl(name + "[outside-known-region]")
                o1.info.update({"known_finding": f["id"], "region_excluded": f["region_chars"],
                                "regex": rec["regex"], "strings": rec["strings"]})
                judge(o1, rec, spec, q, "main", res)
                o2 = base_obl(name + "[known-region]")
                o2.info.update({"known_finding": f["id"], "region": f.get("region"),
                                "stored_witnesses": [{"text": w["text"], "replay": w.get("_replay")}
                                                     for w in f.get("witnesses", []) if w.get("extractor") == rec["label"]]})
                if live:
                    # the stored witness still fails on the real code: known, excluded from the claim
                    judge(o2, rec, spec, q, "inregion", res, known_ok=True)
                    o2.info["solver_verdict_in_region"] = res.get("parts", {}).get("inregion", {}).get("verdict")
                    if o2.status == "discharged":
                        msg = ("INCONSISTENT: stored witness of %s still fails natively but the solver finds the "
                               "region empty for %s" % (f["id"], name))
                        run.notes.append(msg)
                        print("[C13] !!! " + msg, flush=True)
                        o2.status = "undecided"
                    else:
                        o2.status = "refuted"
                        o2.info["known"] = True
                else:
                    judge(o2, rec, spec, q, "inregion", res)
                obls += [o1, o2]
            else:
                o = base_obl(name)
                if first and q in sample_smt2:
                    o.smt2 = res.get("smt2") or ""
                judge(o, rec, spec, q, "main", res)
                obls.append(o)
            if not first:
                for o in obls[-2:] if f else obls[-1:]:
                    o.info["shared_query_with_index"] = spec["index"]
                    o.seconds = 0.0
        # cover guard (also for unfiltered extractors)
        c = base_obl(oname(rec, "cover:search_language_nonempty"), kind="cover", expect="sat")
        pr = res.get("parts", {}).get("cover")
        if res.get("unsupported"):
            c.info["reason"] = "unsupported: " + res["unsupported"]
        elif pr:
            c.solver, c.seconds = pr["solver"], (pr["seconds"] if first else 0.0)
            if pr["verdict"] == "unsat":
                c.status = "discharged"      # L_search is empty: the lemma would be vacuous
            elif pr["verdict"] == "sat":
                r = rp.get("%d:cover" % q)
                c.values = {"text": pr["model"]}
                if r and r.get("re_search"):
                    c.status = "refuted"     # = non-vacuous, and the model really matches under CPython
                else:
                    c.info["reason"] = "cover model %r not matched by CPython re: %r" % (pr["model"], r)
                    run.notes.append("TRANSLATION BUG (checker side): " + c.info["reason"])
                    stats["translation_bugs"].append(c.name)
        covers.append(c)

    # canaries
    canaries = []
    for q in canary_specs:
        if q not in results:
            continue
        rec = recs[specs[q]["index"]]
        c = base_obl(oname(rec, "canary:wrong_literal_%s_is_refuted" % ("ci" if specs[q]["ci"] else "cs")), kind="canary", expect="sat")
        pr = results[q].get("parts", {}).get("canary")
        if pr:
            c.solver, c.seconds = pr["solver"], pr["seconds"]
            c.info["wrong_literals"] = specs[q]["wrong_lits"]
            if pr["verdict"] == "sat":
                r = rp.get("%d:canary" % q)
                c.values = {"text": pr["model"]}
                low = pr["model"].lower() if specs[q]["ci"] else pr["model"]
                if r and r.get("re_search") and not any(w in low for w in specs[q]["wrong_lits"]):
                    c.status = "refuted"
                else:
                    c.info["reason"] = "canary model does not validate natively: %r" % (r,)
            elif pr["verdict"] == "unsat":
                c.status = "discharged"
        canaries.append(c)

    # ---------------------------------------------------------------- bounded side checks
    # (1) filter-model probes: cover / probe_ci models are texts with a match, outside every known
    #     region; by the lemma they contain a literal, so the real filter must deliver the extractor.
    probes = {"replayed": 0, "lost": 0, "case_variant_probes": 0}
    failed_probes = []
    for q in keep:
        res = results.get(q, {})
        rec = recs[specs[q]["index"]]
        for part in ("cover", "probe_ci"):
            pr = res.get("parts", {}).get(part)
            r = rp.get("%d:%s" % (q, part))
            if not pr or pr["verdict"] != "sat" or not r or "lost" not in r:
                continue
            probes["replayed"] += 1
            probes["case_variant_probes"] += part == "probe_ci"
            if r["lost"]:
                probes["lost"] += 1
                if any(rc["index"] == rec["index"] for _o, rc, *_rest in pending_violations):
                    continue     # this extractor's lemma (or an earlier probe) is already reported
                o = base_obl(oname(rec, "probe:filter_delivers_extractor[%s]" % part), kind="probe")
                o.status, o.values, o.info["replay"] = "refuted", {"text": pr["model"]}, r
                o.info["note"] = ("bounded probe, reproduced on the real code: the text matches the extractor's regex and "
                                  "(by the lemma) contains one of its strings, yet get_extractors(text) omits the extractor")
                failed_probes.append(o)
                pending_violations.append((o, rec, specs[q], pr["model"], r))
    run.bounded["filter_model_probes"] = dict(probes, note=(
        "bounded, not proof: one solver-chosen matching text per extractor (plus, for re.I extractors, one that "
        "contains no literal in its original case) replayed through the real AhocorasickTokenizer.get_extractors"))
    # (2) translation cross-check IR vs CPython re
    xc = {"strings": 0, "extractors": 0, "disagree_unsound": [], "disagree_imprecise": []}
    for q in keep:
        res = results.get(q, {})
        if not res.get("mutants"):
            continue
        xc["extractors"] += 1
        for k, (text, ir_says) in enumerate(res["mutants"]):
            r = rp.get("%d:mut:%d" % (q, k))
            if not r or r.get("re_search") is None:
                continue
            xc["strings"] += 1
            if r["re_search"] and not ir_says:
                xc["disagree_unsound"].append({"index": specs[q]["index"], "text": text})
            elif ir_says and not r["re_search"]:
                xc["disagree_imprecise"].append({"index": specs[q]["index"], "text": text})
    run.bounded["translation_crosscheck"] = dict(xc, note=(
        "bounded: cover model and mutants of it, membership in L_search by the IR's own derivative matcher vs "
        "re.compile(regex, flags).search under /venv/bin/python"))
    xguard = base_obl("pyvc.regex2smt/canary:translation_agrees_with_cpython_on_sample", kind="canary", expect="sat")
    xguard.info.update({"strings": xc["strings"], "unsound": xc["disagree_unsound"][:5], "imprecise": xc["disagree_imprecise"][:5]})
    if xc["disagree_unsound"]:
        # CPython matches a text that the translated language rejects: proofs of this run cannot be trusted
        xguard.status = "discharged"      # = guard failed (report.py), exit 3
        print("[C13] !!! TRANSLATION BUG (checker side): CPython re matches texts outside the translated L_search: %r"
              % xc["disagree_unsound"][:3], flush=True)
    elif xc["disagree_imprecise"] or xc["strings"] == 0:
        xguard.status = "undecided"
        if xc["disagree_imprecise"]:
            run.notes.append("translation is imprecise (over-approximates CPython; sound for inclusion proofs) on: %r"
                             % xc["disagree_imprecise"][:3])
    else:
        xguard.status = "refuted"
    canaries.append(xguard)

    # ---------------------------------------------------------------- violations
    pending_violations.sort(key=lambda t: t[1]["index"])
    for n, (o, rec, spec, text, r) in enumerate(pending_violations):
        payload = {
            "extractor_index": rec["index"], "extractor_label": rec["label"], "constructor": rec["constructor"],
            "regex": rec["regex"], "flags": rec["flags"], "strings": rec["strings"],
            "text": text, "text_codepoints": ["U+%04X" % ord(c) for c in text],
            "what": ("the text contains a match of the extractor's regex; " + (
                "it passes the modelled filter, yet " if o.kind == "probe" else
                "it contains none of the extractor's `strings`" + (" (after lower-casing both)" if spec["ci"] else "") + ": ")
                + "Tokenizer(extractors=[e]) yields a token, AhocorasickTokenizer().get_extractors(text) omits e"),
            "replay_result": r, "solver": o.solver,
            "rerun": "EYECITE_REPO=%s %s %s --replay <this file>" % (report.REPO, VENV_PY, REPLAY),
        }
        if n < MAX_VIOLATION_FILES:
            run.violation(o.name, payload, bool(r.get("lost")))
        elif n == MAX_VIOLATION_FILES:
            rest = pending_violations[MAX_VIOLATION_FILES:]
            run.violation("tokenizers.EXTRACTORS[+%d more]/%s" % (len(rest), LEMMA), {
                "more": [{"obligation": oo.name, "text": tt, "lost": rr.get("lost"), "regex": rc["regex"], "strings": rc["strings"]}
                         for oo, rc, _s, tt, rr in rest]}, any(rr.get("lost") for *_x, rr in rest))
    # a failed probe is a concrete loss on the real code: it is listed as a refuted obligation so that the
    # evidence level of this run is downgraded (passing probes are bounded side checks and are not counted)
    for o in failed_probes:
        run.notes.append("probe failed (reproduced on real code): " + o.name)

    run.add_obligations(obls)
    run.add_obligations(failed_probes)
    run.add_obligations(covers)
    run.add_obligations(canaries)
    extra = extra_obligations(run) or []
    run.add_obligations(extra)

    # ---------------------------------------------------------------- evidence
    dreg = sorted({cp for v in regions.values() for cp in v})
    listed = sorted({ord(c) for f in known for c in f.get("region_chars", [])})
    if known and dreg != listed:
        run.notes.append("derived disagreement region %s differs from the listed region %s" % (
            ["U+%04X" % c for c in dreg], ["U+%04X" % c for c in listed]))
    n_copies = len([r for r in with_strings if specs[spec_of_index[r["index"]]]["index"] != r["index"]])
    run.extra.update({
        "extractors_total": len(recs),
        "extractors_with_strings": len(with_strings),
        "unfiltered_extractors_always_run": [{"index": r["index"], "label": r["label"], "regex": r["regex"][:120]} for r in unfiltered],
        "distinct_queries": n_distinct,
        "extractors_sharing_a_query": n_copies,
        "decided_unsat_by": stats["by_solver"],
        "fallback_solver_used": stats["fallback_used"],
        "second_opinion": ({"confirmed_by": stats["confirmed_by"], "not_confirmed_count": len(stats["not_confirmed"]),
                            "not_confirmed": stats["not_confirmed"][:50]} if G["confirm"] else "quick tier: not run"),
        "alphabet_reduction": {"executed_per_query": True, "failed": stats["alphabet_failed"]},
        "translation_bugs": stats["translation_bugs"],
        "derived_ci_disagreement_region": {k: ["U+%04X" % c for c in v] for k, v in regions.items()},
        "known_findings": [{"id": f["id"], "region_chars": ["U+%04X" % ord(c) for c in f.get("region_chars", [])],
                            "witnesses": [{"extractor": w["extractor"], "text": w["text"],
                                           "still_fails": bool(w.get("_replay") and w["_replay"].get("lost"))}
                                          for w in f.get("witnesses", [])]} for f in known],
        "timing_s": {"dump": round(t_dump, 1), "solve_pool": round(t_solve, 1), "replay": round(t_replay, 1), "jobs": jobs},
        "database": {"repo": db.get("repo"), "eyecite_file": db.get("eyecite_file"),
                     "reporters_db_file": db.get("reporters_db_file"), "python": db.get("python"),
                     "atoms": len(db["atoms"]), "atom_method": db.get("atom_method"),
                     "lower_info": db.get("lower_info")},
    })
    samples = []
    for o in obls:
        if o.smt2:
            samples.append({"obligation": o.name, "status": o.status, "solver": o.solver, "seconds": o.seconds,
                            "regex": recs[int(o.name.split("[")[1].split(":")[0])]["regex"][:400],
                            "strings": recs[int(o.name.split("[")[1].split(":")[0])]["strings"],
                            "smt2_head": o.smt2[:1200], "smt2_tail": o.smt2[-300:]})
    for o in obls:
        if o.info.get("known_finding") and len(samples) < 6:
            samples.append({"obligation": o.name, "status": o.status, "solver": o.solver, "info": {
                k: v for k, v in o.info.items() if k in ("known", "known_finding", "region", "region_excluded", "stored_witnesses")},
                "model": o.values})
    if not samples:
        samples = [{"obligation": o.name, "status": o.status, "solver": o.solver} for o in obls[:3]]
    for o in obls:
        o.smt2 = ""
    proof = [o for o in obls]
    ok = all(o.status == "discharged" or (o.status == "refuted" and o.info.get("known")) for o in proof) and proof
    explanation = (
        "%d extractors (%d with strings -> %d lemma obligations incl. region splits, %d distinct queries; %d unfiltered, always run). "
        "Each lemma: L_search(regex, flags) /\\ not ContainsAny(strings) = empty, for all texts, by SMT regex emptiness. %s" % (
            len(recs), len(with_strings), len(obls), n_distinct, len(unfiltered),
            "All discharged except the listed known-finding regions." if ok else
            "NOT all discharged on this run: see undecided / refuted."))
    return run.finish(checker_cmd, explanation, samples)


if __name__ == "__main__":
    try:
        rc = main()
    except SystemExit:
        raise
    except BaseException:
        traceback.print_exc()
        rc = 3
    sys.exit(rc)
