"""Regenerates /verif/MANIFEST.json from the tables below (keep not_applicable current)."""
import json, os
V = os.path.dirname(os.path.dirname(os.path.abspath(__file__)))
TECH = "contract-based deductive verification: pyvc VC generation from the real AST + sidecar contracts, z3/cvc5 portfolio"
TRUST = ("home-made VC generator (Python subset semantics of DESIGN section 2), assumed external contracts listed in the evidence "
         "file's trusted_base, solver soundness; see evidence.assumptions")
CLAIMED = {
    "C04": ("proof", "Safety obligations (None dereference, missing attribute for the dynamic class, index/key out of range, int() on an unparsable or over-long string, "
            "unpacking, pop on empty, callee raise-sets) generated for every operation of every function under a no-raise contract -- the extraction helpers and constructors of "
            "find.py/helpers.py/models.py, all of resolve.py, filter_citations, annotate_citations and SpanUpdater -- and discharged for all inputs satisfying the stated class "
            "invariants. The collecting loop of get_citations and the tokenizer bodies are bounded (stand-in over three tokenizers x modes) only.", "6/C04"),
    "C19": ("proof", "Pin-cited reference citations: loop invariant of extract_pincited_reference_citations (every reference starts at or after the end of the full citation's "
            "span; its span/full-span/token offsets are equal and valid in the plain text), discharged for all texts; non-interference as a frame argument: syntactic read-set "
            "obligations on the real AST (markup flows only into Document and the reference extractors, which construct only references) plus filter_citations' "
            "keeps-non-references / nothing-invented postconditions; markup-derived references: find_reference_citations_from_markup under contract (offsets valid and ordered in the "
            "cleaned text by SpanUpdater's in-range and monotone contracts; placement after the full citation under the ASSUMED consistency of the two diffs, ROUNDTRIP). "
            "Name containment and ROUNDTRIP itself are bounded (stand-in) only.", "6/C19"),
    "C17": ("proof", "Ghost-provenance clauses at every store site of textual metadata (pin cite, extra, year, parenthetical, plaintiff, defendant, antecedent, "
            "publisher, month, day): the stored value is a substring of the window text[a:b] it was matched in and a, b lie inside the citation's full span; the "
            "extracted plaintiff sits exactly at the full-span start; parties/year are copied from a preceding citation only when both full spans start at the same "
            "defined place. String steps are closed lemmas discharged separately.", "6/C17"),
    "C16": ("proof", "Equality/hash clauses derived from the real __hash__ bodies (dict displays evaluated symbolically, A-HASH): case citations are equal exactly when "
            "volume, page and normalised reporter agree and neither page is a placeholder; placeholder, id. and unknown citations equal only themselves; citations of "
            "different kinds are never equal; resources are equal exactly when their citations are; __eq__ is hash equality; the case hash reads only groups, edition guess "
            "and class. Database-variation and re-parse clauses are bounded (stand-in) only.", "6/C16"),
    "C20": ("proof", "clean_text: loop invariant text == fold(steps[:k], text0), sequential postcondition and the ValueError clause discharged by SMT for all step lists; the "
            "three regex cleaners are classified (AST + CPython's regex parser, every run) into the family collapse(p, n, r) whose idempotence / no-remaining-run / "
            "content-preservation are kernel-checked Lean theorems; the link re.sub == collapse is an assumption (bounded cross-check). html cleaner not covered.", "6/C20"),
    "C09": ("proof", "annotate_citations' loop invariant: the document text emitted so far (everything but the inserted before/after strings) equals the target "
            "text up to last_end, hence the whole target at exit -- no character dropped, duplicated or reordered -- discharged for all texts, annotation lists, "
            "modes and both diff engines (under E-DIFF), together with SpanUpdater's class invariant and maybe_balance_style_tags' slice contract.", "6/C09"),
    "C10": ("proof", "SpanUpdater.__init__ establishes the range invariant UPD from any diff satisfying E-DIFF; update() stays within the source for both bisect "
            "variants; in 'unchecked' mode without a source every non-overlapping non-empty span is emitted exactly once as before+text[start:end]+after in "
            "span order (two-state step clause); monotonicity of the translation is proved as closed lemmas over the functional contract of update() (exact-value "
            "postcondition + global order clauses of the class invariant). Clause C (forced alignment) is bounded (stand-in) only.", "6/C10"),
    "C11": ("proof", "Guards of the tag-handling modes as two-state step clauses of the annotate loop: 'skip' emits only spans that passed the balance test (also "
            "after the style-tag repair), 'wrap' omits an annotation only when fully covered; text content unchanged (C09's invariant). The step from these to "
            "'the output parses' is the assumed lemma L-XML; the parse itself is bounded (stand-in, lxml as judge).", "6/C11"),
    "C03": ("proof", "filter_citations' postconditions -- nothing invented (every result is an input object), pairwise distinct spans, results ordered by span, "
            "every non-reference citation kept (unless a later NON-reference element has the identical span) -- are discharged for all citation lists via a loop invariant "
            "with ghost index maps over the pre-sorted, de-duplicated, sorted list; ordered_by_span and distinct_spans are also postconditions of get_citations "
            "itself (carried through remove_ambiguous); overlapping_citations equals its interval-intersection specification. "
            "Disjointness of spans and idempotence are bounded (stand-in) only.", "6/C03, 13.6"),
    "C12": ("proof", "Tokenizer.tokenize's loop invariant (the emitted tokens are a prefix partition of the text at cumulative offsets; the index list names exactly "
            "the special tokens, in increasing order) and postcondition PART are discharged for all texts and all candidate-token lists satisfying CAND, "
            "including the nominative-reporter pop branch; Tokenizer.append_text is verified against its contract (SLICES invariant over the pieces of "
            "text.split(' ')); no bound on text or token count.", "6/C12, 13.9"),
    "C02": ("proof", "The class invariant SPANS (0 <= full start <= span start <= span end <= full end <= len(text), span starts at and covers the "
            "matched token, pin-cite offsets inside the text, pin-cite text inside the pin-cite span) is a discharged postcondition of every function that "
            "constructs or extends a citation's offsets (match_on_tokens window contract WIN, extract_pin_cite, add_post_citation, add_defendant, "
            "add_pre_citation, add_law/journal_metadata, the add_metadata chain, _extract_full/shortform/supra/id_citation, both reference extractors), and is carried by the "
            "loop invariant of get_citations itself to EVERY returned citation (postcondition `spans`, plain and markup mode), under the assumed contracts of "
            "Document(...) and Document.tokenize (PART as proved for Tokenizer.tokenize).", "6/C02, 13.6"),
    "C06": ("proof", "All obligations of the ten resolve.py functions (quantified loop invariant with ghost res/pos/src/fidx on resolve_citations, "
            "uniqueness contracts of the five resolvers) are discharged for all citation lists of any length; no bound. 'Equal' is tied to the statement's "
            "(normalised volume, reporter, page; placeholder pages identical only to themselves) by the hash-term model of C16 and the contract of corrected_reporter().", "6/C06"),
    "C07": ("proof", "Uniqueness ('never guesses') postconditions of the resolvers written from the statement, the pin-cite window of "
            "_has_invalid_pin_cite, and the last_is_prev loop invariant, discharged for all inputs; iteration order of sets is unspecified in the model.", "6/C07"),
    "C08": ("proof", "Online-ness reduced to one-run obligations on the resolver loop: two-state step clauses (append-only, at most the current "
            "citation appended, resolved_full_cites is a prefix) and the causal postcondition, discharged for all lists.", "6/C08"),
    "C18": ("proof", "get_year range/value clauses, Edition.includes_year, guess_edition (member / single / several-unique) and the "
            "filter specification of disambiguate_reporters, discharged for all inputs; year soundness of every returned full case citation is a "
            "postcondition of get_citations (clause `years`).", "6/C18, 13.6"),
}
NA = {
    "C01": "oracle is a generator of legal prose over ~6,800 database-derived regexes; no function contract can state 'this text contains exactly these written citations' without restating the implementation (DESIGN 6/C01)",
    "C05": "intended antecedent exists only in a scenario generator; the resolver half is proved as C06+C07+C08 (DESIGN 6/C05)",
    "C14": "all clauses are about the Hyperscan C library (what scan reports, what loadb raises); no Python body to put under contract (DESIGN 6/C14)",
    "C15": "quantifies over hash seeds, thread schedules and process histories, which a function contract cannot observe (DESIGN 6/C15)",
}
CMD = {"C13": "python3-vt /verif/checks/c13.py --tier {tier}"}
CLAIMED["C13"] = ("proof", "For every one of the ~6,826 extractors with filter strings built from the installed reporters-db: the regular language of texts that "
    "contain a match of the extractor's pattern (translated from CPython's own parse tree) minus the language of texts containing one of its filter "
    "strings is empty -- one SMT regular-language query per extractor, for all texts over the full alphabet (alphabet reduction executed per query). "
    "The three re.I extractors are split at the known case-folding region (U+017F, U+0130, U+0131).", "6/C13")
ids = [f"C{i:02d}" for i in range(1, 21)]
checks = []
for i in ids:
    if i in CLAIMED:
        lvl, text, ref = CLAIMED[i]
        checks.append({
            "property_id": i,
            "quick_cmd": CMD.get(i, "python3-vt -m pyvc.check {id} --tier {tier}").format(id=i, tier="quick"),
            "thorough_cmd": CMD.get(i, "python3-vt -m pyvc.check {id} --tier {tier}").format(id=i, tier="thorough"),
            "evidence_file": f"/verif/evidence/{i}.json",
            "replay_cmd_template": f"python3-vt -m pyvc.check {i} --replay {{path}}",
            "engine": "pyvc",
            "level_claimed": {"category": lvl, "text": text, "design_ref": ref},
            "level_note": TRUST,
            "technique": TECH,
        })
m = {
    "version": 1,
    "setup_cmd": "bash /verif/checks/setup.sh",
    "hooks": {"guard": "EYECITE_VERIF", "enable": "no hooks: contracts are sidecars in /verif/contracts; nothing in /repo is instrumented",
              "baseline_off_cmd": "cd /repo && /venv/bin/python -m pytest -ra -q -p no:cacheprovider --timeout=900 --continue-on-collection-errors",
              "source_commits": [], "add_only": True},
    "engines": [{"name": "pyvc", "path": "/verif/pyvc", "serves_properties": sorted(CLAIMED),
                 "kind_free_text": "home-made verification-condition generator: ast of /repo/eyecite/*.py + sidecar contracts -> SMT obligations, z3/cvc5 portfolio"}],
    "checks": checks,
    "not_applicable": [{"property_id": i, "reason": NA.get(i, "check not completed yet (build in progress; see DESIGN.md section 12)")}
                       for i in ids if i not in CLAIMED],
    "notes": "fix: commits in /repo are listed in /verif/known_findings.json; baseline/<ID>.json (committed) lists the obligations discharged on the unchanged tree "
             "(DESIGN 13.10); seeded/ holds 48 confirmed property-breaking changes and checks/seed_all.py replays them on scratch copies (seeded/RESULTS.json)",
}
json.dump(m, open(os.path.join(V, "MANIFEST.json"), "w"), indent=1)
print("claimed:", sorted(CLAIMED))
