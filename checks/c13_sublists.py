#!/venv/bin/python
"""C13, clause "for every extractor list": the Aho-Corasick tokenizer must filter over ITS OWN extractor list.

Run under /venv/bin/python with PYTHONPATH=<repo>:

  (a) syntactic obligation on the real AST of AhocorasickTokenizer.__post_init__: every comprehension that ranges over
      extractors ranges over `self.extractors` (not over a module-level list) -- decided, not sampled;
  (b) BOUNDED differential (never counted as proved): random sub-lists L of the installed extractors (sizes 1..500, with and
      without the case-insensitive id/supra/stop-word extractors) x probe texts: AhocorasickTokenizer(extractors=L).tokenize(t)
      must equal Tokenizer(extractors=L).tokenize(t) and must not raise.

Prints one JSON object: {"syntactic_ok", "why", "evaluations", "violations": [...], "bound"}.  Exit status is always 0.
"""
import ast
import json
import os
import random
import sys

REPO = os.environ.get("EYECITE_REPO", "/repo")

PROBES = [
    "See 410 U.S. 113, 120 (1973); id. at 5. 1 F.2d 1, supra.",
    "Foo v. Bar, 1 U.S. 1 (1999). Id. at 2. 42 U.S.C. § 1983. 1 Minn. L. Rev. 1.",
    "12 La.App. 1 Cir. 345 (1990); 2020 CO 15; 3 Tenn. (Cooke) 345 (1813); 12 T.C. at 345; Foo, supra, at 5; ibid.",
    "aff'd, 2 F.3d 2; rev'd; cert. denied, 3 S. Ct. 3; see also 4 Cal. 4th 4; § 5.",
    "no citations here at all",
    "",
]


def syntactic():
    path = os.path.join(REPO, "eyecite", "tokenizers.py")
    tree = ast.parse(open(path, encoding="utf8").read())
    for cls in ast.walk(tree):
        if isinstance(cls, ast.ClassDef) and cls.name == "AhocorasickTokenizer":
            for fn in cls.body:
                if isinstance(fn, ast.FunctionDef) and fn.name == "__post_init__":
                    iters = []
                    for n in ast.walk(fn):
                        if isinstance(n, ast.comprehension):
                            src = ast.unparse(n.iter)
                            if isinstance(n.target, ast.Name) and n.target.id == "e":
                                iters.append(src)
                    bad = [s for s in iters if s != "self.extractors"]
                    ok = bool(iters) and not bad
                    return ok, f"comprehensions over extractors in AhocorasickTokenizer.__post_init__ range over: {sorted(set(iters))}"
    return False, "AhocorasickTokenizer.__post_init__ not found"


def stream(res):
    words, cts = res
    return [(type(w).__name__, str(w), getattr(w, "start", None), getattr(w, "end", None)) for w in words], [i for i, _ in cts]


def main():
    seed = int(sys.argv[sys.argv.index("--seed") + 1]) if "--seed" in sys.argv else 0
    n = int(sys.argv[sys.argv.index("--n") + 1]) if "--n" in sys.argv else 40
    ok, why = syntactic()
    out = {"syntactic_ok": ok, "why": why, "evaluations": 0, "violations": []}
    try:
        from eyecite.tokenizers import EXTRACTORS, AhocorasickTokenizer, Tokenizer
    except Exception as ex:
        out["error"] = f"{type(ex).__name__}: {ex}"
        print(json.dumps(out))
        return 0
    rng = random.Random(f"c13-sublists-{seed}")
    ci = [e for e in EXTRACTORS if e.flags & 2]          # re.I extractors (id, supra, stop words, ...)
    cs = [e for e in EXTRACTORS if not (e.flags & 2)]
    lists = [list(cs[:1]), list(ci[:1]), [e for e in EXTRACTORS if "U.S." in e.strings][:3]]
    for _ in range(n):
        k = rng.choice([1, 2, 5, 20, 100, 500])
        pool = rng.choice([cs, EXTRACTORS, EXTRACTORS])
        lists.append(rng.sample(list(pool), min(k, len(pool))))
    for L in lists:
        for t in PROBES:
            out["evaluations"] += 1
            try:
                a = stream(AhocorasickTokenizer(extractors=list(L)).tokenize(t))
                b = stream(Tokenizer(extractors=list(L)).tokenize(t))
            except Exception as ex:
                out["violations"].append({"clause": "sublist_no_raise", "text": t, "list_size": len(L), "error": f"{type(ex).__name__}: {ex}"[:200]})
                continue
            if a != b:
                out["violations"].append({"clause": "sublist_same_stream", "text": t, "list_size": len(L),
                                          "first_strings": [sorted(e.strings)[:2] for e in L[:3]],
                                          "filtered": [w[1] for w in a[0] if w[0] != "str"][:8], "reference": [w[1] for w in b[0] if w[0] != "str"][:8]})
        if len(out["violations"]) >= 5:
            break
    out["bound"] = (f"{len(lists)} extractor sub-lists (3 fixed + {n} sampled, sizes 1..500, case-sensitive only or mixed) x {len(PROBES)} probe texts; "
                    "token streams (class, text, offsets, index list) compared with the reference tokenizer over the same list")
    print(json.dumps(out))
    return 0


if __name__ == "__main__":
    sys.exit(main())
