#!/bin/bash
# Offline setup: nothing to build except a sanity check of the tools the checks need.
set -e
cd /verif
python3-vt -c "import z3; assert z3.get_version_string().startswith('5.')"
/venv/bin/python -c "import eyecite"
z3-new -version >/dev/null; /usr/bin/z3 -version >/dev/null; /usr/bin/cvc5 --version >/dev/null
bash /verif/lean/check.sh >/dev/null
echo setup-ok
