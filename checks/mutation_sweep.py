#!/usr/bin/env python3
"""Operator-mutation sweep over the functions under contract (engine self-test, DESIGN 1.7 ii / 13.11).  Not a registered check.

Samples single-token mutants (comparison / arithmetic / boolean operators, small integer constants, `not` removal) inside the
bodies of eyecite functions that have a verified (non-assumed) contract, keeps those the existing test suite does NOT notice,
and runs the quick check of one property that lists the function against a scratch copy.  Writes seeded/MUTATION_SWEEP.json.
A surviving mutant that no check reports is *not* automatically a miss: it may be equivalent or irrelevant to the listed
properties -- the report is for triage.

usage: python3-vt checks/mutation_sweep.py [--n 20] [--seed 0]
"""
import argparse, ast, json, os, random, re, shutil, subprocess, sys, tempfile, time

VERIF = os.path.dirname(os.path.dirname(os.path.abspath(__file__)))
sys.path.insert(0, VERIF)
sys.path.insert(0, os.path.join(VERIF, "checks"))
REPO = "/repo"

SWAPS = {ast.Lt: "<=", ast.LtE: "<", ast.Gt: ">=", ast.GtE: ">", ast.Eq: "!=", ast.NotEq: "==", ast.Add: "-", ast.Sub: "+", ast.And: "or", ast.Or: "and",
         ast.Is: "is not", ast.IsNot: "is"}
TOK = {ast.Lt: "<", ast.LtE: "<=", ast.Gt: ">", ast.GtE: ">=", ast.Eq: "==", ast.NotEq: "!=", ast.Add: "+", ast.Sub: "-", ast.And: "and", ast.Or: "or",
       ast.Is: "is", ast.IsNot: "is not"}


def candidates(path, funcs):
    src = open(path, encoding="utf8").read()
    lines = src.split("\n")
    tree = ast.parse(src)
    out = []
    for node in ast.walk(tree):
        if not isinstance(node, (ast.FunctionDef,)) or node.name not in funcs:
            continue
        for n in ast.walk(node):
            ops = []
            if isinstance(n, ast.Compare) and len(n.ops) == 1:
                ops = [(n.ops[0], n.left.end_lineno, n.left.end_col_offset, n.comparators[0].lineno, n.comparators[0].col_offset)]
            elif isinstance(n, ast.BinOp) and type(n.op) in (ast.Add, ast.Sub):
                ops = [(n.op, n.left.end_lineno, n.left.end_col_offset, n.right.lineno, n.right.col_offset)]
            elif isinstance(n, ast.BoolOp) and len(n.values) == 2:
                ops = [(n.op, n.values[0].end_lineno, n.values[0].end_col_offset, n.values[1].lineno, n.values[1].col_offset)]
            for op, l1, c1, l2, c2 in ops:
                if l1 != l2 or type(op) not in SWAPS:
                    continue
                seg = lines[l1 - 1][c1:c2]
                tok = TOK[type(op)]
                if seg.strip() != tok:
                    continue
                new = lines[l1 - 1][:c1] + seg.replace(tok, SWAPS[type(op)], 1) + lines[l1 - 1][c2:]
                out.append({"func": node.name, "line": l1, "old": lines[l1 - 1], "new": new, "kind": f"{tok} -> {SWAPS[type(op)]}"})
            if isinstance(n, ast.Constant) and isinstance(n.value, int) and not isinstance(n.value, bool) and 0 <= n.value <= 2 and n.lineno == n.end_lineno:
                old = lines[n.lineno - 1]
                new = old[:n.col_offset] + str(n.value + 1) + old[n.end_col_offset:]
                out.append({"func": node.name, "line": n.lineno, "old": old, "new": new, "kind": f"{n.value} -> {n.value + 1}"})
            if isinstance(n, ast.UnaryOp) and isinstance(n.op, ast.Not) and n.lineno == n.operand.lineno:
                old = lines[n.lineno - 1]
                new = old[:n.col_offset] + old[n.operand.col_offset:]
                out.append({"func": node.name, "line": n.lineno, "old": old, "new": new, "kind": "not removed"})
    return out


def main():
    ap = argparse.ArgumentParser()
    ap.add_argument("--n", type=int, default=20)
    ap.add_argument("--seed", type=int, default=0)
    ns = ap.parse_args()
    import table
    from pyvc.contracts import Registry
    from pyvc import stdspecs
    reg = Registry(); stdspecs.install(reg)
    reg.load_dir(os.path.join(VERIF, "contracts"))
    verified = {q for q, c in reg.contracts.items() if not c.assumed}
    prop_of = {}
    for pid, e in table.PROPS.items():
        fl = e["functions"]
        if fl == "ALL_NORAISE":
            continue
        for q in fl:
            prop_of.setdefault(q, pid)
    by_file = {}
    for q in sorted(verified & set(prop_of)):
        mod = q.split(".")[0]
        by_file.setdefault(mod, set()).add(q.split(".")[-1])
    cands = []
    for mod, names in sorted(by_file.items()):
        path = os.path.join(REPO, "eyecite", mod + ".py")
        for c in candidates(path, names):
            qn = [q for q in verified if q.startswith(mod + ".") and q.endswith("." + c["func"])]
            if qn and qn[0] in prop_of:
                c.update(file=f"eyecite/{mod}.py", qname=qn[0], prop=prop_of[qn[0]])
                cands.append(c)
    rng = random.Random(ns.seed)
    rng.shuffle(cands)
    results = []
    tried = 0
    for c in cands:
        if len(results) >= ns.n:
            break
        tried += 1
        d = tempfile.mkdtemp(prefix="pyvc_mut_")
        try:
            shutil.copytree(os.path.join(REPO, "eyecite"), os.path.join(d, "eyecite"))
            shutil.copytree(os.path.join(REPO, "tests"), os.path.join(d, "tests"))
            p = os.path.join(d, c["file"])
            lines = open(p, encoding="utf8").read().split("\n")
            if lines[c["line"] - 1] != c["old"]:
                continue
            lines[c["line"] - 1] = c["new"]
            open(p, "w", encoding="utf8").write("\n".join(lines))
            t = subprocess.run(["/venv/bin/python", "-m", "pytest", "-x", "-q", "-p", "no:cacheprovider"], cwd=d, capture_output=True, text=True, timeout=600)
            if t.returncode != 0:
                continue                      # the test suite notices: not a realistic survivor
            env = dict(os.environ, EYECITE_REPO=d, PYTHONPATH=d, PYVC_EVIDENCE_DIR=os.path.join(d, "ev"), PYVC_REPLAY_DIR=os.path.join(d, "rp"))
            t0 = time.time()
            r = subprocess.run(["python3-vt", "-m", "pyvc.check", c["prop"], "--tier", "quick"], cwd=VERIF, capture_output=True, text=True, env=env)
            out = r.stdout + r.stderr
            viol = [re.sub(r"replay=\S*/", "replay=", l)[:160] for l in out.splitlines() if l.startswith("VIOLATION")]
            summ = [l for l in out.splitlines() if re.match(r"^\[C\d\d\] tier=", l)]
            res = dict(c, exit=r.returncode, reported=bool(viol) and r.returncode == 1, violations=viol[:4], summary=(summ[-1] if summ else out[-200:]), wall_s=round(time.time() - t0, 1))
            results.append(res)
            print(f"{c['qname']}:{c['line']} [{c['kind']}] prop={c['prop']} -> {'REPORTED' if res['reported'] else 'quiet'} {viol[0] if viol else ''}", flush=True)
            json.dump({"tried": tried, "results": results}, open(os.path.join(VERIF, "seeded", "MUTATION_SWEEP.json"), "w"), indent=1)
        finally:
            shutil.rmtree(d, ignore_errors=True)
    print(f"{len(results)} test-suite survivors out of {tried} mutants tried; reported: {sum(1 for r in results if r['reported'])}")


if __name__ == "__main__":
    main()
