"""Front end: re-reads /repo/eyecite/*.py with `ast` on every run.

Nothing is imported or executed.  Provides the function table (qualified name ->
FunctionDef + source hash), the class table (bases, MRO, dataclass fields in
declaration order with their annotation and default, methods, class-level
literal attributes) and module-level literal constants.
"""
from __future__ import annotations

import ast
import hashlib
import os
from dataclasses import dataclass, field
from typing import Dict, List, Optional, Tuple

MODULES = ["annotate", "clean", "find", "helpers", "models", "regexes", "resolve", "tokenizers", "utils"]


@dataclass
class FieldInfo:
    name: str
    ann: Optional[ast.AST]
    default: Optional[ast.AST]
    owner: str


@dataclass
class ClassInfo:
    name: str            # e.g. "FullCaseCitation" or "FullCaseCitation.Metadata"
    module: str
    node: ast.ClassDef
    bases: List[str]
    fields: List[FieldInfo] = field(default_factory=list)     # own fields only
    methods: Dict[str, ast.FunctionDef] = field(default_factory=dict)
    attrs: Dict[str, ast.AST] = field(default_factory=dict)   # class-level plain assignments
    is_dataclass: bool = False
    cid: int = 0


@dataclass
class FuncInfo:
    qname: str           # "helpers.get_year", "models.CitationBase.span"
    module: str
    cls: Optional[str]
    node: ast.FunctionDef
    source: str
    sha256: str
    kind: str = "function"   # function | method | staticmethod | classmethod | property


class Repo:
    def __init__(self, root: str = "/repo"):
        self.root = root
        self.trees: Dict[str, ast.Module] = {}
        self.sources: Dict[str, str] = {}
        self.funcs: Dict[str, FuncInfo] = {}
        self.classes: Dict[str, ClassInfo] = {}
        self.consts: Dict[str, Dict[str, ast.AST]] = {}
        self.imports: Dict[str, Dict[str, str]] = {}     # module -> local name -> "module.name"
        for m in MODULES:
            p = os.path.join(root, "eyecite", m + ".py")
            if not os.path.exists(p):
                continue
            src = open(p, encoding="utf8").read()
            self.sources[m] = src
            self.trees[m] = ast.parse(src)
        for m, tree in self.trees.items():
            self._scan_module(m, tree)
        # class ids: stable by sorted name; 0 = str (plain python str objects), 1.. classes
        for i, name in enumerate(sorted(self.classes), start=10):
            self.classes[name].cid = i

    # ------------------------------------------------------------------ scan
    def _scan_module(self, m: str, tree: ast.Module):
        self.consts[m] = {}
        self.imports[m] = {}
        for node in tree.body:
            if isinstance(node, ast.FunctionDef):
                self._add_func(m, None, node)
            elif isinstance(node, ast.ClassDef):
                self._scan_class(m, None, node)
            elif isinstance(node, ast.Assign) and len(node.targets) == 1 and isinstance(node.targets[0], ast.Name):
                self.consts[m][node.targets[0].id] = node.value
            elif isinstance(node, ast.AnnAssign) and isinstance(node.target, ast.Name) and node.value is not None:
                self.consts[m][node.target.id] = node.value
            elif isinstance(node, ast.ImportFrom) and node.module and node.module.startswith("eyecite"):
                mod = node.module.split(".")[-1] if "." in node.module else ""
                for a in node.names:
                    self.imports[m][a.asname or a.name] = f"{mod}.{a.name}" if mod else a.name

    def _add_func(self, m: str, cls: Optional[str], node: ast.FunctionDef):
        q = f"{m}.{cls}.{node.name}" if cls else f"{m}.{node.name}"
        src = ast.get_source_segment(self.sources[m], node) or ""
        kind = "method" if cls else "function"
        for d in node.decorator_list:
            dn = d.id if isinstance(d, ast.Name) else (d.attr if isinstance(d, ast.Attribute) else "")
            if dn in ("staticmethod", "classmethod", "property"):
                kind = dn
        self.funcs[q] = FuncInfo(q, m, cls, node, src, hashlib.sha256(src.encode()).hexdigest(), kind)

    def _scan_class(self, m: str, outer: Optional[str], node: ast.ClassDef):
        name = f"{outer}.{node.name}" if outer else node.name
        bases = []
        for b in node.bases:
            if isinstance(b, ast.Name):
                bases.append(b.id)
            elif isinstance(b, ast.Attribute):
                bases.append(ast.unparse(b))
        ci = ClassInfo(name, m, node, bases)
        for d in node.decorator_list:
            dn = d.func if isinstance(d, ast.Call) else d
            if isinstance(dn, ast.Name) and dn.id == "dataclass":
                ci.is_dataclass = True
        for st in node.body:
            if isinstance(st, ast.AnnAssign) and isinstance(st.target, ast.Name):
                ci.fields.append(FieldInfo(st.target.id, st.annotation, st.value, name))
            elif isinstance(st, ast.FunctionDef):
                ci.methods[st.name] = st
                self._add_func(m, name, st)
            elif isinstance(st, ast.ClassDef):
                self._scan_class(m, name, st)
            elif isinstance(st, ast.Assign) and len(st.targets) == 1 and isinstance(st.targets[0], ast.Name):
                ci.attrs[st.targets[0].id] = st.value
        self.classes[name] = ci

    # ------------------------------------------------------------------ queries
    def resolve_base(self, cls: str, base: str) -> Optional[str]:
        """Resolve a base-class expression as written in class `cls`."""
        if base in self.classes:
            return base
        # nested: "CitationBase.Metadata"
        if base in self.classes:
            return base
        return None

    def mro(self, cls: str) -> List[str]:
        # C3 linearisation over the classes we know; unknown bases (UserString, Hashable) are dropped
        def resolve(owner, b):
            if b in self.classes:
                return b
            if "." in b:      # nested class reached through inheritance, e.g. FullCitation.Metadata
                outer, inner = b.rsplit(".", 1)
                if outer in self.classes:
                    for oc in self.mro(outer):
                        if f"{oc}.{inner}" in self.classes:
                            return f"{oc}.{inner}"
            return None

        def lin(c):
            ci = self.classes[c]
            bs = [resolve(c, b) for b in ci.bases]
            bs = [b for b in bs if b]
            seqs = [lin(b) for b in bs] + [list(bs)]
            res = [c]
            while True:
                seqs = [s for s in seqs if s]
                if not seqs:
                    return res
                for s in seqs:
                    cand = s[0]
                    if not any(cand in t[1:] for t in seqs):
                        break
                else:
                    raise ValueError("inconsistent MRO for " + c)
                res.append(cand)
                for s in seqs:
                    if s and s[0] == cand:
                        del s[0]
        return lin(cls)

    def subclasses(self, cls: str) -> List[str]:
        return [c for c in self.classes if cls in self.mro(c)]

    def all_fields(self, cls: str) -> List[FieldInfo]:
        """Dataclass fields in __init__ order (base classes first, overriding keeps position)."""
        out: Dict[str, FieldInfo] = {}
        for c in reversed(self.mro(cls)):
            for f in self.classes[c].fields:
                out[f.name] = f
        return list(out.values())

    def field_owner(self, cls: str, fname: str) -> Optional[str]:
        """Base-most class in the MRO of `cls` that declares field `fname`."""
        owner = None
        for c in self.mro(cls):
            for f in self.classes[c].fields:
                if f.name == fname:
                    owner = c
        return owner

    def find_method(self, cls: str, name: str) -> Optional[str]:
        for c in self.mro(cls):
            if name in self.classes[c].methods:
                return f"{self.classes[c].module}.{c}.{name}"
        return None

    def owners_of_field(self, fname: str) -> List[str]:
        """All base-most owners of a field name across the class table."""
        owners = set()
        for c in self.classes:
            o = self.field_owner(c, fname)
            if o:
                owners.add(o)
        return sorted(owners)

    def metadata_class(self, cls: str) -> Optional[str]:
        """The nested Metadata class that `self.Metadata` resolves to for class `cls`."""
        for c in self.mro(cls):
            if f"{c}.Metadata" in self.classes:
                return f"{c}.Metadata"
        return None

    def const(self, module: str, name: str) -> Optional[ast.AST]:
        if name in self.consts.get(module, {}):
            return self.consts[module][name]
        tgt = self.imports.get(module, {}).get(name)
        if tgt and "." in tgt:
            mod, n = tgt.split(".", 1)
            return self.consts.get(mod, {}).get(n)
        return None

    def loops(self, fn: ast.FunctionDef) -> List[ast.AST]:
        """for/while loops of a function in source order (nested defs excluded)."""
        out = []

        def walk(n):
            for ch in ast.iter_child_nodes(n):
                if isinstance(ch, (ast.FunctionDef, ast.Lambda, ast.ClassDef)):
                    continue
                if isinstance(ch, (ast.For, ast.While)):
                    out.append(ch)
                walk(ch)
        walk(fn)
        return out
