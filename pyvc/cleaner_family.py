"""C20 glue: is each regex text cleaner of eyecite/clean.py in the family that
lean/Collapse.lean covers?

`classify_cleaners(repo="/repo", path=None)` re-reads `<repo>/eyecite/clean.py`
(or `path`) with `ast` on every call and, for each of

    inline_whitespace      all_whitespace      underscores

decides

  1. SHAPE (ast): the function has one parameter, no decorators, and its body is
     (an optional docstring and) the single statement
     `return re.sub(<str literal P>, <str literal R>, <that parameter>)` --
     three positional arguments, no keywords (so no flags / count); `re` is the
     module imported by a top-level `import re` and nothing rebinds `re` or the
     function name.

  2. FAMILY (CPython's own regex parser, in a `/venv/bin/python` child -- the
     interpreter eyecite runs in): `re._parser.parse(P)` has no groups, no
     inline flags, and is  A^k . MAX_REPEAT(m, MAXREPEAT, [A])  for ONE
     single-character atom A (LITERAL / NOT_LITERAL / IN / ANY); it is
     normalised to C{n,} with n = k + m (so `__+` is {_}{2,}).  R has no
     backslash (then re.sub's template expansion is the identity).  Then
        ws-collapse  : n == 1, len(R) == 1, re.fullmatch(P, R)     (R in C)
        delete-runs  : n == 2, R == ""
     are exactly the two instance shapes for which Collapse.lean proves T1-T3
     (collapse_idem_ws / collapse_ws_noAdj / collapse_ws_p_eq /
     collapse_ws_filter, resp. collapse_idem_del / collapse_del_noAdj /
     collapse_del_filter / collapse_del_sublist).  Anything else is
     `in_family: False` with a reason -> the caller falls back to the stand-in.

  3. SPEC side of the property (the class the docstring / property talks about):
     C, computed as the set {c : re.fullmatch(P, c*n)} over ALL 0x110000 code
     points, must be exactly {' ', '\\t'} (inline_whitespace), exactly CPython's
     `\\s` for str patterns = str.isspace = the 29 code points of
     Collapse.pySpaceP (all_whitespace), exactly {'_'} (underscores); and the
     instance must be the one the property names (collapse to ONE SPACE, resp.
     delete runs of two or more).

What stays assumed (E-RE-SUB): that `re.sub` on such (P, R) is the function
`Collapse.collapse C n R` (leftmost, greedy, non-overlapping maximal runs).
checks/c20_standin.py cross-checks that on a bounded domain.

Pure stdlib; runs under python3-vt (parent) and /venv/bin/python (child: this
same file with `--child`, JSON on stdin/stdout).
"""
from __future__ import annotations

import ast
import hashlib
import json
import os
import subprocess
import sys
from typing import Any, Dict, List, Optional, Tuple

VENV_PY = "/venv/bin/python"
CLEANERS = ("inline_whitespace", "all_whitespace", "underscores")

# CPython `\s` for str patterns (== str.isspace); also hard-wired in Collapse.pySpaceP.
PY_SPACE_RANGES: List[Tuple[int, int]] = [
    (0x09, 0x0D), (0x1C, 0x20), (0x85, 0x85), (0xA0, 0xA0), (0x1680, 0x1680),
    (0x2000, 0x200A), (0x2028, 0x2029), (0x202F, 0x202F), (0x205F, 0x205F),
    (0x3000, 0x3000),
]

# What the PROPERTY says each cleaner is about.
SPEC = {
    "inline_whitespace": {"instance": "ws-collapse", "replacement": " ",
                          "class_ranges": [(0x09, 0x09), (0x20, 0x20)],
                          "class_words": "exactly {' ', '\\t'}"},
    "all_whitespace": {"instance": "ws-collapse", "replacement": " ",
                       "class_ranges": "PY_SPACE",
                       "class_words": "exactly CPython's \\s for str patterns (= str.isspace, 29 code points)"},
    "underscores": {"instance": "delete-runs", "replacement": "",
                    "class_ranges": [(0x5F, 0x5F)],
                    "class_words": "exactly {'_'}"},
}

LEAN_THEOREMS = {
    "ws-collapse": ["Collapse.collapse_idem_ws", "Collapse.collapse_ws_noAdj",
                    "Collapse.collapse_ws_no_adjacent", "Collapse.collapse_ws_p_eq",
                    "Collapse.collapse_ws_filter", "Collapse.collapse_ws_fixed_iff"],
    "delete-runs": ["Collapse.collapse_idem_del", "Collapse.collapse_del_noAdj",
                    "Collapse.collapse_del_no_adjacent", "Collapse.collapse_del_filter",
                    "Collapse.collapse_del_sublist", "Collapse.collapse_del_fixed_iff"],
}


# --------------------------------------------------------------------------------------------
# child side (runs under /venv/bin/python): CPython's regex parser and tables
# --------------------------------------------------------------------------------------------

def _ranges(cps: List[int]) -> List[List[int]]:
    out: List[List[int]] = []
    for c in cps:
        if out and out[-1][1] == c - 1:
            out[-1][1] = c
        else:
            out.append([c, c])
    return out


def _ser(node: Any) -> Any:
    """sre parse tree -> JSON-able (opcode objects become their names)."""
    if isinstance(node, (list, tuple)) or type(node).__name__ == "SubPattern":
        return [_ser(x) for x in node]
    if isinstance(node, (int, str)) and type(node) in (int, str):
        return node
    if node is None:
        return None
    return str(node)          # _NamedIntConstant: MAX_REPEAT, MAXREPEAT, LITERAL, ...


def _child_one(pattern: str, replacement: str) -> Dict[str, Any]:
    import re
    try:
        import re._parser as sre_parse          # 3.11+
        import re._constants as sre_c
    except ImportError:                             # pragma: no cover
        import sre_parse                            # type: ignore
        import sre_constants as sre_c               # type: ignore
    res: Dict[str, Any] = {"pattern": pattern, "replacement": replacement, "in_shape": False,
                           "reason": None, "n": None, "atom": None, "tree": None}
    try:
        parsed = sre_parse.parse(pattern)
    except Exception as e:                          # re.error, RecursionError, ...
        res["reason"] = f"pattern does not parse: {type(e).__name__}: {e}"
        return res
    tree = _ser(parsed.data)
    res["tree"] = tree
    res["flags"] = int(parsed.state.flags)
    res["groups"] = int(parsed.state.groups)
    if int(parsed.state.flags) & ~int(sre_c.SRE_FLAG_UNICODE):
        res["reason"] = f"inline flags in pattern (state.flags={int(parsed.state.flags)})"
        return res
    if int(parsed.state.groups) != 1:
        res["reason"] = "pattern contains capture groups"
        return res
    single = ("LITERAL", "NOT_LITERAL", "IN", "ANY")
    items = tree
    if not items:
        res["reason"] = "empty pattern"
        return res
    *prefix, last = items
    if not (isinstance(last, list) and len(last) == 2 and last[0] == "MAX_REPEAT"):
        op = last[0] if isinstance(last, list) and last else last
        res["reason"] = (f"last item is {op}, not a greedy MAX_REPEAT "
                         "(lazy, possessive and unrepeated patterns are outside the family)")
        return res
    lo, hi, body = last[1]
    if hi != "MAXREPEAT":
        res["reason"] = f"repeat has a finite upper bound {hi}"
        return res
    if not (isinstance(body, list) and len(body) == 1 and body[0][0] in single):
        res["reason"] = "repeated sub-pattern is not one single-character atom"
        return res
    atom = body[0]
    for it in prefix:
        if it != atom:
            res["reason"] = f"prefix item {it} differs from the repeated atom {atom}"
            return res
    n = len(prefix) + int(lo)
    res.update(in_shape=True, n=n, atom=atom)
    if n == 0:
        res["reason"] = "n == 0 (pattern matches the empty string)"
        res["in_shape"] = False
        return res
    # the class, semantically: c in C  <=>  P fullmatches c*n   (P == C{n,} by the shape above)
    fm = re.compile(pattern).fullmatch
    cps = [c for c in range(0x110000) if fm(chr(c) * n)]
    res["class_ranges"] = _ranges(cps)
    res["class_size"] = len(cps)
    res["replacement_has_backslash"] = "\\" in replacement
    # side condition `p c = true` of the ws-collapse instance, decided by the regex engine itself
    res["replacement_in_class"] = bool(len(replacement) == 1 and fm(replacement * n) is not None)
    return res


def _child_main() -> int:
    import re
    req = json.load(sys.stdin)
    out: Dict[str, Any] = {"python": sys.version.split()[0], "executable": sys.executable,
                           "results": [_child_one(q["pattern"], q["replacement"]) for q in req["queries"]]}
    sfm = re.compile(r"\s").fullmatch
    space = [c for c in range(0x110000) if sfm(chr(c))]
    out["re_space_ranges"] = _ranges(space)
    out["isspace_ranges"] = _ranges([c for c in range(0x110000) if chr(c).isspace()])
    json.dump(out, sys.stdout)
    return 0


# --------------------------------------------------------------------------------------------
# parent side: ast shape check + decision
# --------------------------------------------------------------------------------------------

def _describe(ranges: List[List[int]], size: int) -> str:
    def one(c: int) -> str:
        ch = chr(c)
        return f"U+{c:04X} {ch!r}" if (ch.isprintable() or ch in " \t\n\r\f\v") else f"U+{c:04X}"
    if size <= 4:
        return "{" + ", ".join(one(c) for a, b in ranges for c in range(a, b + 1)) + "}"
    parts = [f"U+{a:04X}" if a == b else f"U+{a:04X}-{b:04X}" for a, b in ranges[:12]]
    more = "" if len(ranges) <= 12 else f", ... ({len(ranges)} ranges)"
    return f"{size} code points: " + ", ".join(parts) + more


def _norm(r: Any) -> List[List[int]]:
    return [[int(a), int(b)] for a, b in r]


def _shape(tree: ast.Module, name: str) -> Tuple[Optional[Tuple[str, str]], Optional[str]]:
    """-> ((P, R), None) or (None, reason)."""
    defs = [n for n in tree.body if isinstance(n, (ast.FunctionDef, ast.AsyncFunctionDef)) and n.name == name]
    if len(defs) != 1 or not isinstance(defs[0], ast.FunctionDef):
        return None, f"expected exactly one top-level `def {name}`, found {len(defs)}"
    fn = defs[0]
    # nothing else at any level may bind the function name or `re`
    imports_re = 0
    for node in ast.walk(tree):
        if isinstance(node, ast.Import):
            for a in node.names:
                bound = a.asname or a.name.split(".")[0]
                if bound == "re":
                    if a.name == "re" and a.asname in (None, "re") and node in tree.body:
                        imports_re += 1
                    else:
                        return None, f"`re` is bound by `import {a.name} as {a.asname}`"
                if bound == name:
                    return None, f"`{name}` is rebound by an import"
        elif isinstance(node, ast.ImportFrom):
            for a in node.names:
                if (a.asname or a.name) in ("re", name) or a.name == "*":
                    return None, f"`from {node.module} import {a.name}` may rebind `re`/`{name}`"
        elif isinstance(node, ast.Name) and isinstance(node.ctx, (ast.Store, ast.Del)) and node.id in ("re", name):
            return None, f"`{node.id}` is assigned/deleted at line {node.lineno}"
        elif isinstance(node, ast.arg) and node.arg == "re":
            return None, f"`re` is a parameter name at line {node.lineno}"
        elif isinstance(node, (ast.FunctionDef, ast.AsyncFunctionDef, ast.ClassDef)) and node is not fn \
                and node.name in ("re", name):
            return None, f"`{node.name}` is redefined at line {node.lineno}"
        elif isinstance(node, (ast.Global, ast.Nonlocal)) and ("re" in node.names or name in node.names):
            return None, f"global/nonlocal declaration of `re`/`{name}`"
        elif isinstance(node, ast.Attribute) and isinstance(node.ctx, (ast.Store, ast.Del)) \
                and isinstance(node.value, ast.Name) and node.value.id == "re":
            return None, f"attribute of `re` is assigned at line {node.lineno} (monkey-patch)"
    if imports_re != 1:
        return None, f"expected exactly one top-level `import re`, found {imports_re}"
    if fn.decorator_list:
        return None, "function has decorators"
    a = fn.args
    if a.posonlyargs or a.kwonlyargs or a.vararg or a.kwarg or a.defaults or len(a.args) != 1:
        return None, "function must have exactly one plain positional parameter"
    param = a.args[0].arg
    body = list(fn.body)
    if body and isinstance(body[0], ast.Expr) and isinstance(body[0].value, ast.Constant) \
            and isinstance(body[0].value.value, str):
        body = body[1:]
    if len(body) != 1 or not isinstance(body[0], ast.Return) or body[0].value is None:
        return None, "body is not a single `return <expr>` (after the docstring)"
    call = body[0].value
    if not (isinstance(call, ast.Call) and isinstance(call.func, ast.Attribute) and call.func.attr == "sub"
            and isinstance(call.func.value, ast.Name) and call.func.value.id == "re"):
        return None, "returned expression is not a call `re.sub(...)`"
    if call.keywords:
        return None, "re.sub call has keyword arguments (" + ", ".join(str(k.arg) for k in call.keywords) + ")"
    if len(call.args) != 3:
        return None, f"re.sub call has {len(call.args)} positional arguments (count/flags given?)"
    p, r, t = call.args
    if any(isinstance(x, ast.Starred) for x in call.args):
        return None, "starred argument in re.sub call"
    if not (isinstance(p, ast.Constant) and type(p.value) is str):
        return None, "pattern is not a str literal"
    if not (isinstance(r, ast.Constant) and type(r.value) is str):
        return None, "replacement is not a str literal"
    if not (isinstance(t, ast.Name) and t.id == param):
        return None, f"third argument is not the function's own parameter `{param}`"
    return (p.value, r.value), None


def _run_child(queries: List[Dict[str, str]], python: str) -> Dict[str, Any]:
    proc = subprocess.run([python, "-I", os.path.abspath(__file__), "--child"],
                          input=json.dumps({"queries": queries}), capture_output=True, text=True, timeout=120)
    if proc.returncode != 0:
        raise RuntimeError(f"regex child failed ({proc.returncode}): {proc.stderr[-2000:]}")
    return json.loads(proc.stdout)


def classify_cleaners(repo: str = "/repo", path: Optional[str] = None,
                      python: str = VENV_PY) -> Dict[str, Dict[str, Any]]:
    """-> {cleaner name: record}.  Re-reads the source on every call."""
    src_path = path or os.path.join(repo, "eyecite", "clean.py")
    with open(src_path, "rb") as fh:
        raw = fh.read()
    sha = hashlib.sha256(raw).hexdigest()
    out: Dict[str, Dict[str, Any]] = {}

    def blank(name: str) -> Dict[str, Any]:
        return {"name": name, "pattern": None, "replacement": None, "in_family": False, "instance": None,
                "n": None, "class_description": None, "class_ranges": None, "class_matches_property": False,
                "instance_matches_property": False, "ok": False, "reason_if_not": None,
                "property_class": SPEC[name]["class_words"], "lean_theorems": [],
                "source_path": src_path, "source_sha256": sha, "regex_python": None}

    try:
        tree = ast.parse(raw.decode("utf-8"), filename=src_path)
    except (SyntaxError, UnicodeDecodeError) as e:
        for name in CLEANERS:
            rec = blank(name)
            rec["reason_if_not"] = f"source does not parse: {e}"
            out[name] = rec
        return out

    queries: List[Dict[str, str]] = []
    for name in CLEANERS:
        rec = blank(name)
        pr, why = _shape(tree, name)
        if pr is None:
            rec["reason_if_not"] = "shape: " + str(why)
        else:
            rec["pattern"], rec["replacement"] = pr
            queries.append({"name": name, "pattern": pr[0], "replacement": pr[1]})
        out[name] = rec
    if not queries:
        return out

    child = _run_child(queries, python)
    re_space = _norm(child["re_space_ranges"])
    space_tables_agree = (re_space == _norm(child["isspace_ranges"]) == _norm(PY_SPACE_RANGES))
    for q, res in zip(queries, child["results"]):
        rec = out[q["name"]]
        spec = SPEC[q["name"]]
        rec["regex_python"] = child["python"]
        rec["n"] = res.get("n")
        rec["parse_tree"] = res.get("tree")
        if not res["in_shape"]:
            rec["reason_if_not"] = "family: " + str(res["reason"])
            continue
        ranges = _norm(res["class_ranges"])
        rec["class_ranges"] = ranges
        rec["class_description"] = _describe(ranges, res["class_size"])
        want = re_space if spec["class_ranges"] == "PY_SPACE" else _norm(spec["class_ranges"])
        rec["class_matches_property"] = bool(ranges == want and
                                             (spec["class_ranges"] != "PY_SPACE" or space_tables_agree))
        R, n = q["replacement"], res["n"]
        if res["replacement_has_backslash"]:
            rec["reason_if_not"] = "family: replacement contains a backslash (template escapes / group references)"
        elif n == 1 and len(R) == 1 and res["replacement_in_class"]:
            rec["instance"] = "ws-collapse"
        elif n == 2 and R == "":
            rec["instance"] = "delete-runs"
        elif n == 1 and len(R) == 1:
            rec["reason_if_not"] = f"family: n == 1 but the replacement {R!r} is not in the class (side condition p c fails)"
        elif n == 1:
            rec["reason_if_not"] = f"family: n == 1 needs a one-character replacement from the class, got {R!r}"
        elif R == "":
            rec["reason_if_not"] = f"family: n == {n} with empty replacement; T2 is proved for n == 2 only"
        else:
            rec["reason_if_not"] = (f"family: n == {n} with replacement {R!r}; covered shapes are "
                                    "(n = 1, R one class character) and (n = 2, R = '')")
        if rec["instance"]:
            rec["in_family"] = True
            rec["lean_theorems"] = LEAN_THEOREMS[rec["instance"]]
            rec["instance_matches_property"] = (rec["instance"] == spec["instance"] and R == spec["replacement"])
            notes = []
            if not rec["class_matches_property"]:
                notes.append(f"spec: class is {rec['class_description']}, the property needs {spec['class_words']}")
            if not rec["instance_matches_property"]:
                notes.append(f"spec: instance {rec['instance']} with replacement {R!r}, the property needs "
                             f"{spec['instance']} with replacement {spec['replacement']!r}")
            rec["reason_if_not"] = "; ".join(notes) or None
        rec["ok"] = bool(rec["in_family"] and rec["class_matches_property"] and rec["instance_matches_property"])
    return out


def main(argv: List[str]) -> int:
    if "--child" in argv:
        return _child_main()
    import argparse
    ap = argparse.ArgumentParser(description=__doc__.split("\n\n")[0])
    ap.add_argument("--repo", default="/repo")
    ap.add_argument("--path", default=None, help="clean.py to classify instead of <repo>/eyecite/clean.py")
    ap.add_argument("--full", action="store_true", help="include parse trees and code-point ranges")
    ns = ap.parse_args(argv)
    res = classify_cleaners(ns.repo, ns.path)
    if not ns.full:
        for rec in res.values():
            rec.pop("parse_tree", None)
            rec.pop("class_ranges", None)
            rec.pop("lean_theorems", None)
    json.dump(res, sys.stdout, indent=1, ensure_ascii=True)
    print()
    return 0 if all(r["ok"] for r in res.values()) else 1


if __name__ == "__main__":
    sys.exit(main(sys.argv[1:]))
