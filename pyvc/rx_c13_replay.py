"""C13 replay on the real code (DESIGN 1.6).  Runs under /venv/bin/python.

  /venv/bin/python /verif/pyvc/rx_c13_replay.py <in.json> <out.json>     batch mode
  /venv/bin/python /verif/pyvc/rx_c13_replay.py --replay <replay.json>   one stored counterexample

eyecite is imported from $EYECITE_REPO (default /repo).

Batch input: {"items": [{"id":..., "index": int|null, "regex": str, "flags": int, "text": str,
                         "mode": "tokenizers" | "regex"}]}
Per item the output holds
  re_search        does CPython's re find a match of (regex, flags) in text
  mode "tokenizers" additionally:
  ref_tokens       tokens produced by Tokenizer(extractors=[e]).tokenize(text)  (the reference)
  in_filter        e in AhocorasickTokenizer().get_extractors(text)
  lost             ref_tokens non-empty and not in_filter: the pre-filter loses a token
"""
import json
import os
import re
import sys
import traceback

REPO = os.environ.get("EYECITE_REPO", "/repo")
sys.path.insert(0, REPO)


def load():
    import eyecite.tokenizers as tk
    return tk


_AHO = {}


def find_extractor(tk, item):
    idx = item.get("index")
    ex = tk.EXTRACTORS
    if idx is not None and 0 <= idx < len(ex) and ex[idx].regex == item["regex"] and int(ex[idx].flags) == item["flags"]:
        return ex[idx]
    for e in ex:
        if e.regex == item["regex"] and int(e.flags) == item["flags"]:
            return e
    return None


def run_item(tk, item):
    out = {"id": item.get("id")}
    text = item["text"]
    try:
        out["re_search"] = re.compile(item["regex"], item["flags"]).search(text) is not None
    except Exception as ex:  # pragma: no cover
        out["re_search"] = None
        out["error"] = "re: %r" % (ex,)
    if item.get("mode", "tokenizers") != "tokenizers":
        return out
    e = find_extractor(tk, item)
    if e is None:
        out["error"] = "extractor not found in EXTRACTORS"
        return out
    try:
        _all, cites = tk.Tokenizer(extractors=[e]).tokenize(text)
        out["ref_tokens"] = [repr(t) for _i, t in cites][:5]
        out["ref_token_count"] = len(cites)
    except Exception:
        out["error"] = "reference tokenizer raised: " + traceback.format_exc(limit=3)
        return out
    try:
        if "aho" not in _AHO:
            _AHO["aho"] = tk.AhocorasickTokenizer()
        got = _AHO["aho"].get_extractors(text)
        out["in_filter"] = e in got
        out["filter_size"] = len(got)
    except Exception:
        out["in_filter"] = False
        out["filter_exception"] = traceback.format_exc(limit=3)
    out["lost"] = bool(out["ref_token_count"] > 0 and not out["in_filter"])
    return out


def main(argv):
    if len(argv) == 3 and argv[1] == "--replay":
        payload = json.load(open(argv[2]))
        tk = load()
        res = run_item(tk, {"id": "replay", "index": payload.get("extractor_index"), "regex": payload["regex"],
                            "flags": payload["flags"], "text": payload["text"], "mode": "tokenizers"})
        print(json.dumps(res, indent=1, ensure_ascii=False))
        print("REPRODUCED" if res.get("lost") else "not reproduced")
        return 1 if res.get("lost") else 0
    if len(argv) != 3:
        print(__doc__)
        return 2
    data = json.load(open(argv[1]))
    tk = load()
    res = [run_item(tk, it) for it in data["items"]]
    with open(argv[2], "w") as f:
        json.dump({"results": res, "extractors": len(tk.EXTRACTORS), "repo": REPO,
                   "eyecite_file": tk.__file__}, f)
    return 0


if __name__ == "__main__":
    sys.exit(main(sys.argv))
