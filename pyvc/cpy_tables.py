"""Code-point tables taken from the CPython that runs eyecite (/venv/bin/python), once per run."""
from __future__ import annotations

import json
import os
import subprocess
import tempfile

import z3

_CACHE = {}
VENV_PY = "/venv/bin/python"
SOLVER_MAX_CP = 0x2FFFF      # z3 / cvc5 characters stop here (DESIGN 4.3)

_CODE = r'''
import re, json, sys
def ranges(pred):
    out=[]; start=None
    for cp in range(0x110000):
        ok = pred(chr(cp))
        if ok and start is None: start=cp
        if not ok and start is not None: out.append([start,cp-1]); start=None
    if start is not None: out.append([start,0x10FFFF])
    return out
d=re.compile(r"\d"); w=re.compile(r"\s")
print(json.dumps({"re_d": ranges(lambda c: d.fullmatch(c) is not None),
                  "isdigit": ranges(lambda c: c.isdigit()),
                  "re_s": ranges(lambda c: w.fullmatch(c) is not None),
                  "int_digit": ranges(lambda c: (lambda: int(c) >= 0)() if c.isdecimal() else False),
                  "max_str_digits": sys.get_int_max_str_digits()}))
'''


def tables() -> dict:
    if "t" not in _CACHE:
        out = subprocess.run([VENV_PY, "-c", _CODE], capture_output=True, text=True, check=True).stdout
        _CACHE["t"] = json.loads(out)
    return _CACHE["t"]


def char_class(name: str):
    """z3 regex for one character of the named class, restricted to the solver alphabet."""
    key = "re:" + name
    if key not in _CACHE:
        rs = []
        for lo, hi in tables()[name]:
            if lo > SOLVER_MAX_CP:
                continue
            hi = min(hi, SOLVER_MAX_CP)
            rs.append(z3.Range(z3.Unit(z3.CharFromBv(z3.BitVecVal(lo, 18))) if False else _ch(lo), _ch(hi)))
        _CACHE[key] = z3.Union(*rs) if len(rs) > 1 else rs[0]
    return _CACHE[key]


def _ch(cp: int):
    return z3.StringVal(chr(cp))
