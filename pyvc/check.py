"""Generic property check driver:  python3-vt -m pyvc.check <ID> --tier quick|thorough

For property <ID> (table in /verif/checks/table.py): load the sidecar contracts, re-read the
real source of every function under contract from /repo's working tree, generate the
obligations, discharge them with the solver portfolio, replay refutations on the real code,
write /verif/evidence/<ID>.json.  Exit 0 held / 1 violation / 3 checker error.
"""
from __future__ import annotations

import importlib.util
import json
import os
import re
import subprocess
import sys
import time
import traceback

sys.path.insert(0, os.path.dirname(os.path.dirname(os.path.abspath(__file__))))

from pyvc import report, solve, stdspecs  # noqa: E402
from pyvc.contracts import Registry  # noqa: E402
from pyvc.engine import Engine  # noqa: E402
from pyvc.front import Repo  # noqa: E402
from pyvc.verify import verify_function  # noqa: E402

VENV_PY = "/venv/bin/python"


def load_table():
    p = os.path.join(report.VERIF, "checks", "table.py")
    spec = importlib.util.spec_from_file_location("checks_table", p)
    mod = importlib.util.module_from_spec(spec)
    spec.loader.exec_module(mod)
    return mod


def replay(prop: str, obligation, tier: str, seed: int):
    """Run the concrete replay/stand-in harness under the interpreter that has eyecite's dependencies.
    Returns (reproduced: bool, payload: dict)."""
    payload = {"obligation": obligation.name, "solver": obligation.solver, "solver_values": obligation.values,
               "solver_output": obligation.raw[:3000], "trace": obligation.info.get("trace", [])[-40:]}
    harness = os.path.join(report.VERIF, "props", "replay.py")
    if not os.path.exists(harness):
        return False, payload
    req = {"property": prop, "obligation": obligation.name, "values": obligation.values, "seed": seed, "tier": tier}
    try:
        env = dict(os.environ)
        env["PYTHONPATH"] = report.REPO + os.pathsep + env.get("PYTHONPATH", "")
        p = subprocess.run([VENV_PY, harness], input=json.dumps(req, default=str), capture_output=True, text=True,
                           timeout=600 if tier == "thorough" else 180, env=env)
        out = json.loads(p.stdout.strip().splitlines()[-1]) if p.stdout.strip() else {}
    except Exception as ex:  # a broken harness never turns into a violation by itself
        payload["replay_error"] = repr(ex)
        return False, payload
    payload["replay"] = out
    return bool(out.get("reproduced")), payload


def main(argv=None):
    argv = list(sys.argv[1:] if argv is None else argv)
    prop = argv.pop(0)
    args, seed = report.tier_and_seed(argv)
    run = report.Run(prop, args.tier, seed)
    try:
        table = load_table()
        entry = table.PROPS[prop]
        repo = Repo(report.REPO)
        reg = Registry()
        stdspecs.install(reg)
        reg.load_dir(os.path.join(report.VERIF, "contracts"), only=entry["contracts"])
        e = Engine(repo, reg, prop=prop)
        errors = []
        fn_list = entry["functions"]
        if fn_list == "ALL_NORAISE":
            fn_list = [q for q, c in reg.contracts.items() if c.noraise and not c.assumed and q in repo.funcs]
        for q in fn_list:
            if args.only and args.only not in q:
                continue
            r = verify_function(e, q)
            run.functions[q] = {"source_sha256": r.sha256, "paths": r.paths}
            if r.error:
                errors.append((q, r.error))
                run.functions[q]["error"] = r.error
            obls = [o for o in r.obligations if o.prop in ("", prop, "DBG") or o.kind in ("cover", "canary")]
            run.add_obligations(obls)
        # assumed contracts / engine models of eyecite functions are valid for the reviewed source text only
        try:
            pins = json.load(open(os.path.join(report.VERIF, "contracts", "ASSUMED_PINS.json")))["pins"]
        except Exception:
            pins = {}
        for q in entry.get("pins", []):
            fi = repo.funcs.get(q)
            cur = fi.sha256 if fi else None
            if cur != pins.get(q):
                errors.append((q, "assumed-contract-source-changed: the source of this function differs from the text its assumed contract was "
                                  f"reviewed for (pinned {str(pins.get(q))[:12]}, now {str(cur)[:12]}); the assumption is re-opened"))
            else:
                run.trust(f"pinned source of assumed function {q} (sha256 {cur[:12]})")
        for fn in entry.get("extra", []):
            try:
                run.add_obligations(fn(e, run, args.tier))
            except Exception as ex:     # the code changed into a shape the side analysis cannot read: undecided (stand-in decides), never a crash
                errors.append((getattr(fn, "__name__", "extra").lstrip("_"), f"unsupported-construct: {type(ex).__name__}: {str(ex)[:200]}"))
        from pyvc.verify import lemma_obligations
        run.add_obligations(lemma_obligations(e))
        run.trust(*e.trusted)
        for c in reg.contracts.values():
            if c.assumed and c.qname in getattr(e, "used_assumed", set()):
                run.trust(f"assumed: {c.qname}")
        run.assume(*entry.get("assumptions", []))
        run.not_covered.extend(entry.get("not_covered", []))
        solve.discharge(run.obligations, args.tier)
        known = report.load_known(prop)
        # engine could not bind a contract: proof not re-established -> the bounded stand-in decides
        standin_needed = bool(errors)
        for q, err in errors:
            print(f"[{prop}] {q}: {err}")
            run.notes.append(f"{q}: {err}")
            o = solve.Obligation(f"{q}/binding", [], None, kind="post", prop=prop)
            o.status = "undecided"
            o.smt2 = "(binding error: no obligations could be generated)"
            run.obligations.append(o)
        for o in run.obligations:
            if o.kind in ("cover", "canary"):
                continue
            if o.status == "refuted":
                k = match_known(known, o)
                if k is not None:
                    o.info["known"] = True
                    continue
                reproduced, payload = replay(prop, o, args.tier, seed)
                run.violation(o.name, payload, reproduced)
            elif o.status == "undecided":
                standin_needed = True
        # an obligation that was discharged on the unchanged tree (committed baseline) and fails now, in a function whose source changed:
        # the proof of the property no longer goes through for the changed code -- reported, without a failing input (DESIGN 13.10)
        regress_report(run, prop, repo)
        # known findings: replay the stored witness; print the line while it still fails
        for k in known:
            handle_known(run, prop, k, args.tier, seed)
        if standin_needed or args.tier == "thorough":
            standin(run, prop, args.tier, seed)
        if args.v:
            for o in run.obligations:
                print(f"  {o.status:10s} {o.solver:10s} {o.seconds:6.2f}s {o.name}")
        if getattr(args, "write_baseline", False):
            write_baseline(run, prop, repo)
        code = run.finish(solve.checker_cmd_text())
        return code
    except Exception:
        traceback.print_exc()
        print(f"[{prop}] checker crash (exit 3; not a violation)")
        return 3


BASELINE_DIR = os.path.join(report.VERIF, "baseline")
_SEMANTIC = re.compile(r"/(post:|loop\d+:inv:|loop\d+:step:|call:[^/]*:pre:|safety:|frame:|raises:)")


def _obl_base(name: str) -> str:
    return re.sub(r"@path\d+$", "", name)


def _obl_func(name: str) -> str:
    return re.sub(r"\[[^\]]*\]$", "", name.split("/", 1)[0])


def regress_report(run, prop, repo):
    path = os.path.join(BASELINE_DIR, f"{prop}.json")
    if not os.path.exists(path):
        return
    try:
        base = json.load(open(path))
    except Exception:
        return
    discharged = set(base.get("discharged", []))
    shas = base.get("functions", {})
    already = {v["obligation"] for v in run.violations}
    reported = 0
    for o in run.obligations:
        if o.kind in ("cover", "canary") or o.status != "undecided" or not _SEMANTIC.search(o.name):
            continue
        fq = _obl_func(o.name)
        fi = repo.funcs.get(fq)
        if fi is None or fq not in shas or shas[fq] == fi.sha256:
            continue                    # same source text as the baseline: a solver budget effect, not a change of the code
        if _obl_base(o.name) not in discharged or o.name in already:
            continue
        if reported >= 6:
            break
        run.violation(o.name, {"obligation": o.name, "why": "this obligation is discharged for the baseline source of the function "
                               f"(sha256 {shas[fq][:12]}) and is not discharged for the current source (sha256 {fi.sha256[:12]})",
                               "solver": o.solver or "none", "solver_output": (o.raw or "")[:2000], "seconds": o.seconds,
                               "smt2_head": (o.smt2 or "")[:1500]}, False)
        reported += 1


def write_baseline(run, prop, repo):
    os.makedirs(BASELINE_DIR, exist_ok=True)
    names = sorted({_obl_base(o.name) for o in run.obligations if o.kind not in ("cover", "canary") and o.status == "discharged" and _SEMANTIC.search(o.name)})
    funcs = {}
    for n in names:
        fq = _obl_func(n)
        fi = repo.funcs.get(fq)
        if fi is not None:
            funcs[fq] = fi.sha256
    json.dump({"property": prop, "functions": funcs, "discharged": names}, open(os.path.join(BASELINE_DIR, f"{prop}.json"), "w"), indent=0, sort_keys=True)
    print(f"[{prop}] baseline written: {len(names)} obligations over {len(funcs)} functions")


def match_known(known, o):
    for k in known:
        pat = k.get("obligation", "")
        if pat and (o.name == pat or o.name.startswith(pat + "@")):
            return k
    return None


def handle_known(run, prop, k, tier, seed):
    harness = os.path.join(report.VERIF, "props", "replay.py")
    req = {"property": prop, "known_finding": k, "seed": seed, "tier": tier}
    still = None
    try:
        env = dict(os.environ)
        env["PYTHONPATH"] = report.REPO + os.pathsep + env.get("PYTHONPATH", "")
        p = subprocess.run([VENV_PY, harness], input=json.dumps(req), capture_output=True, text=True, timeout=120, env=env)
        out = json.loads(p.stdout.strip().splitlines()[-1])
        still = bool(out.get("reproduced"))
    except Exception as ex:
        run.notes.append(f"known finding {k.get('id')}: witness replay failed to run: {ex!r}")
    if still is False:
        run.notes.append(f"known finding {k.get('id')} is stale: its witness no longer fails")
        print(f"[{prop}] note: known finding {k.get('id')} no longer reproduces (stale entry)")
    else:
        run.known_finding(k.get("what", k.get("id", "")))


def standin(run, prop, tier, seed):
    """Bounded stand-in (never counted as proved): executable property clauses on generated inputs."""
    harness = os.path.join(report.VERIF, "props", "run.py")
    if not os.path.exists(harness):
        return
    # generator focus: the functions whose obligations are open (the stand-in's template families are indexed by function name);
    # one focused run per function (at most two) and one run with the default mix
    foci = []
    for o in run.obligations:
        if o.kind in ("cover", "canary") or o.status not in ("undecided", "refuted") or o.info.get("known"):
            continue
        fq = re.sub(r"\[[^\]]*\]$", "", o.name.split("/", 1)[0])
        if fq not in foci and "." in fq:
            foci.append(fq)
    try:
        env = dict(os.environ)
        env["PYTHONPATH"] = report.REPO + os.pathsep + env.get("PYTHONPATH", "")
        n = 300 if tier == "quick" else 3000
        out = None
        for focus in foci[:2] + [None]:
            cmd = [VENV_PY, harness, prop, "--seed", str(seed), "--n", str(n)] + (["--focus", focus] if focus else [])
            p = subprocess.run(cmd, capture_output=True, text=True, timeout=900, env=env)
            o1 = json.loads(p.stdout.strip().splitlines()[-1])
            if out is None:
                out = o1
            else:
                out["violations"] = list(out.get("violations", [])) + list(o1.get("violations", []))
                out["evaluations"] = (out.get("evaluations") or 0) + (o1.get("evaluations") or 0)
                out["bound"] = str(out.get("bound")) + " || " + str(o1.get("bound"))
    except Exception as ex:
        run.notes.append(f"stand-in failed to run: {ex!r}")
        return
    run.bounded = {"label": "bounded stand-in (never counted as proved)", "evaluations": out.get("evaluations"),
                   "bound": out.get("bound"), "violations": len(out.get("violations", []))}
    known = report.load_known(prop)
    seen_clauses = set()
    for v in out.get("violations", [])[:10]:
        if v.get("clause") in seen_clauses:
            continue
        if any(v.get("clause") in kf.get("clauses", [kf.get("clause")]) and kf.get("standin_region", "") and kf["standin_region"] in json.dumps(v) for kf in known):
            continue
        seen_clauses.add(v.get("clause"))
        run.violation(f"standin:{v.get('clause')}", {"input": v.get("input"), "detail": v, "source": "bounded stand-in"}, True)


if __name__ == "__main__":
    sys.exit(main())
