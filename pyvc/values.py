"""Symbolic values: types, struct-of-arrays flattening, heap."""
from __future__ import annotations

import itertools
from dataclasses import dataclass
from typing import Any, Dict, List, Optional, Tuple

import z3

Obj = z3.DeclareSort("Obj")
class_of = z3.Function("class_of", Obj, z3.IntSort())
strval = z3.Function("strval", Obj, z3.StringSort())        # text of a plain str object / Token.data
obj_id = z3.Function("obj_id", Obj, z3.IntSort())             # id(o), injective (axiom added where used)

STR_CID = 0          # class id of plain python str objects stored in object-typed containers
_counter = itertools.count()


def fresh_name(base: str) -> str:
    return f"{base}!{next(_counter)}"


FALSE = z3.BoolVal(False)
TRUE = z3.BoolVal(True)


@dataclass(frozen=True)
class Ty:
    kind: str                       # int bool str none obj tuple seq dict set func any
    cls: Optional[str] = None       # obj: static class
    elts: Tuple["Ty", ...] = ()     # tuple: element types; seq/set: (elt,), dict: (key, val)

    def __repr__(self):
        if self.kind == "obj":
            return f"obj<{self.cls}>"
        if self.elts:
            return f"{self.kind}[{', '.join(map(repr, self.elts))}]"
        return self.kind


INT = Ty("int")
BOOL = Ty("bool")
STR = Ty("str")
NONE = Ty("none")
ANYOBJ = Ty("obj")


def OBJ(cls=None):
    return Ty("obj", cls)


def TUP(*ts):
    return Ty("tuple", None, tuple(ts))


def SEQ(t):
    return Ty("seq", None, (t,))


def DICT(k, v):
    return Ty("dict", None, (k, v))


def SETOF(t):
    return Ty("set", None, (t,))


def parse_type(s: str) -> Ty:
    """Tiny type language for contracts: int, str, bool, obj, obj<Class>, seq[T], tuple[T,U], dict[K,V], set[T]."""
    s = s.strip()
    if s.startswith("opt "):
        return parse_type(s[4:])
    if s in ("int", "bool", "str", "none"):
        return Ty(s)
    if s == "obj":
        return ANYOBJ
    if s.startswith("obj<") and s.endswith(">"):
        return OBJ(s[4:-1])
    for k in ("seq", "tuple", "dict", "set"):
        if s.startswith(k + "[") and s.endswith("]"):
            inner = s[len(k) + 1:-1]
            parts, depth, cur = [], 0, ""
            for ch in inner:
                if ch in "[<":
                    depth += 1
                if ch in "]>":
                    depth -= 1
                if ch == "," and depth == 0:
                    parts.append(cur)
                    cur = ""
                else:
                    cur += ch
            parts.append(cur)
            return Ty(k, None, tuple(parse_type(p) for p in parts))
    if s.startswith("defaultdict[") and s.endswith("]"):
        t = parse_type("dict" + s[len("defaultdict"):])
        return Ty("dict", "defaultdict", t.elts)
    raise ValueError("bad type " + s)


def sort_of_leaf(kind: str):
    return {"int": z3.IntSort(), "bool": z3.BoolSort(), "str": z3.StringSort(), "obj": Obj}[kind]


def flat_sorts(ty: Ty) -> List[Any]:
    """Flattened component sorts of a type (struct-of-arrays layout)."""
    k = ty.kind
    if k in ("int", "bool", "str", "obj"):
        return [sort_of_leaf(k), z3.BoolSort()]
    if k == "none":
        return []
    if k == "tuple":
        out = [z3.BoolSort()]
        for t in ty.elts:
            out += flat_sorts(t)
        return out
    if k == "seq":
        return [z3.BoolSort(), z3.IntSort()] + [z3.ArraySort(z3.IntSort(), s) for s in flat_sorts(ty.elts[0])]
    if k == "dict":
        ks = _key_sort(ty.elts[0])
        return [z3.BoolSort(), z3.ArraySort(ks, z3.BoolSort())] + [z3.ArraySort(ks, s) for s in flat_sorts(ty.elts[1])]
    if k == "set":
        ks = _key_sort(ty.elts[0])
        return [z3.BoolSort(), z3.ArraySort(ks, z3.BoolSort())]
    raise ValueError(f"cannot flatten {ty}")


def _key_sort(t: Ty):
    if t.kind == "str":
        return z3.StringSort()
    if t.kind in ("int", "obj"):
        return z3.IntSort()     # object keys are abstracted to their equality key (an Int)
    raise ValueError(f"unsupported key type {t}")


class SV:
    """A symbolic value: type + payload + none flag."""
    __slots__ = ("ty", "v", "none", "tag")

    def __init__(self, ty: Ty, v: Any, none: Any = FALSE, tag: Any = None):
        self.ty = ty
        self.v = v
        self.none = none
        self.tag = tag          # meta information (e.g. python callable name, regex literal)

    def __repr__(self):
        return f"SV({self.ty}, {self.v}, none={self.none})"


class SeqV:
    """Payload of a seq: length + one array per flattened element component."""
    __slots__ = ("len", "arrs")

    def __init__(self, length, arrs):
        self.len = length
        self.arrs = list(arrs)


class MapV:
    """Payload of a dict/set: has-array + value arrays (+ insertion info is not modelled)."""
    __slots__ = ("has", "arrs")

    def __init__(self, has, arrs):
        self.has = has
        self.arrs = list(arrs)


def none_sv() -> SV:
    return SV(NONE, None, TRUE)


def to_flat(sv: SV, ty: Optional[Ty] = None) -> List[Any]:
    ty = ty or sv.ty
    k = ty.kind
    if k == "none":
        return []
    if sv.ty.kind == "none":
        # a None literal stored into a typed slot
        return default_flat(ty, none=True)
    if k in ("int", "bool", "str", "obj"):
        return [sv.v, sv.none]
    if k == "tuple":
        out = [sv.none]
        for t, e in zip(ty.elts, sv.v):
            out += to_flat(e, t)
        return out
    if k == "seq":
        return [sv.none, sv.v.len] + list(sv.v.arrs)
    if k in ("dict", "set"):
        return [sv.none, sv.v.has] + list(sv.v.arrs)
    raise ValueError(k)


def from_flat(ty: Ty, comps: List[Any]) -> SV:
    sv, rest = _from_flat(ty, list(comps))
    assert not rest, (ty, rest)
    return sv


def _from_flat(ty: Ty, comps: List[Any]):
    k = ty.kind
    if k == "none":
        return none_sv(), comps
    if k in ("int", "bool", "str", "obj"):
        return SV(ty, comps[0], comps[1]), comps[2:]
    if k == "tuple":
        none = comps[0]
        comps = comps[1:]
        items = []
        for t in ty.elts:
            it, comps = _from_flat(t, comps)
            items.append(it)
        return SV(ty, items, none), comps
    if k == "seq":
        n = len(flat_sorts(ty.elts[0]))
        return SV(ty, SeqV(comps[1], comps[2:2 + n]), comps[0]), comps[2 + n:]
    if k == "dict":
        n = len(flat_sorts(ty.elts[1]))
        return SV(ty, MapV(comps[1], comps[2:2 + n]), comps[0]), comps[2 + n:]
    if k == "set":
        return SV(ty, MapV(comps[1], []), comps[0]), comps[2:]
    raise ValueError(k)


def default_flat(ty: Ty, none: bool) -> List[Any]:
    out = []
    for s in flat_sorts(ty):
        out.append(_default_of_sort(s))
    if out and ty.kind in ("int", "bool", "str", "obj"):
        out[1] = z3.BoolVal(none)
    elif out:
        out[0] = z3.BoolVal(none)
    return out


def _default_of_sort(s):
    if s == z3.IntSort():
        return z3.IntVal(0)
    if s == z3.BoolSort():
        return FALSE
    if s == z3.StringSort():
        return z3.StringVal("")
    if s == Obj:
        return z3.Const("null_obj", Obj)
    if isinstance(s, z3.ArraySortRef):
        if s.range() == Obj:
            # cvc5 only accepts *values* in constant arrays; the contents of an empty sequence are irrelevant
            return z3.Const(fresh_name("emptyarr"), s)
        return z3.K(s.domain(), _default_of_sort(s.range()))
    raise ValueError(s)


def fresh_sv(ty: Ty, base: str, optional: bool = True) -> SV:
    comps = []
    sorts = flat_sorts(ty)
    for i, s in enumerate(sorts):
        comps.append(z3.Const(fresh_name(f"{base}.{i}"), s))
    sv = from_flat(ty, comps) if sorts else none_sv()
    if not optional:
        sv.none = FALSE
    return sv


def ite_sv(c, a: SV, b: SV) -> SV:
    """if c then a else b, component-wise; types must agree up to none."""
    if a.ty.kind == "none" and b.ty.kind == "none":
        return none_sv()
    if a.ty.kind == "none":
        return SV(b.ty, b.v, z3.If(c, TRUE, b.none), b.tag)
    if b.ty.kind == "none":
        return SV(a.ty, a.v, z3.If(c, a.none, TRUE), a.tag)
    ty = unify(a.ty, b.ty)
    fa, fb = to_flat(a, ty), to_flat(b, ty)
    return from_flat(ty, [z3.If(c, x, y) for x, y in zip(fa, fb)])


CLASS_LCA = None


def unify(a: Ty, b: Ty) -> Ty:
    if a == b:
        return a
    if a.kind == "none":
        return b
    if b.kind == "none":
        return a
    if a.kind == b.kind == "obj":
        if a.cls == b.cls:
            return a
        # nearest common ancestor in the class hierarchy of the repository (set by the engine); None = no static class
        return OBJ(CLASS_LCA(a.cls, b.cls) if CLASS_LCA is not None and a.cls and b.cls else None)
    if a.kind == b.kind and len(a.elts) == len(b.elts):
        return Ty(a.kind, a.cls if a.cls == b.cls else (a.cls or b.cls), tuple(unify(x, y) for x, y in zip(a.elts, b.elts)))
    raise TypeError(f"cannot unify {a} and {b}")


def simplify_bool(b):
    return z3.simplify(b) if z3.is_expr(b) else z3.BoolVal(bool(b))


def is_false(b) -> bool:
    return z3.is_false(z3.simplify(b))


def is_true(b) -> bool:
    return z3.is_true(z3.simplify(b))


def ForAllP(vs, body, patterns=None, **kw):
    """z3.ForAll that drops explicit patterns when z3 rejects them (patterns must not contain boolean structure)."""
    if patterns:
        try:
            return z3.ForAll(vs, body, patterns=patterns, **kw)
        except z3.Z3Exception:
            pass
    return z3.ForAll(vs, body, **kw)
