"""Function-level verification driver: entry state, requires, body, ensures, frame, guards."""
from __future__ import annotations

import ast
import traceback
from typing import Dict, List, Optional

import os
import z3

from .contracts import Contract, Registry
from .engine import And, BindingError, Engine, I, Implies, Not, Or, Outcome, State, Unsupported
from .front import Repo
from .solve import Obligation
from .values import (BOOL, FALSE, INT, NONE, OBJ, SEQ, STR, TRUE, SV, Ty, Obj, flat_sorts, fresh_name, fresh_sv,
                     is_false, is_true, none_sv, parse_type, to_flat)


class FunctionResult:
    def __init__(self, qname):
        self.qname = qname
        self.obligations: List[Obligation] = []
        self.error: Optional[str] = None
        self.paths = 0
        self.sha256 = ""


def param_type(e: Engine, fi, c: Contract, name: str, ann) -> Optional[Ty]:
    if name in c.types:
        return parse_type(c.types[name])
    if name == "self" and fi.cls:
        return OBJ(fi.cls)
    t = e.ann_type(ann, fi.module)
    return t


def interest_of(name: str, sv: SV, out: Dict[str, object]):
    k = sv.ty.kind
    if k in ("int", "str", "bool"):
        out[name] = sv.v
        if not is_false(sv.none):
            out[name + "?none"] = sv.none
    elif k == "tuple":
        for i, x in enumerate(sv.v):
            interest_of(f"{name}[{i}]", x, out)
    elif k == "seq":
        out[f"len({name})"] = sv.v.len
    elif k == "obj":
        if not is_false(sv.none):
            out[name + "?none"] = sv.none


def verify_function(e: Engine, qname: str) -> FunctionResult:
    c0 = e.reg.contracts.get(qname)
    if c0 is not None and c0.func_params and not getattr(e, "_func_choice", None):
        # one verification per binding of the function-valued parameters
        import itertools
        total = FunctionResult(qname)
        names = list(c0.func_params)
        for combo in itertools.product(*[c0.func_params[n] for n in names]):
            e._func_choice = dict(zip(names, combo))
            try:
                r = verify_function(e, qname)
            finally:
                e._func_choice = None
            suffix = "[" + ",".join(f"{k}={v}" for k, v in zip(names, combo)) + "]"
            for o in r.obligations:
                o.name = o.name.replace(qname + "/", qname + suffix + "/", 1)
            total.obligations += r.obligations
            total.paths += r.paths
            total.sha256 = r.sha256
            total.error = total.error or r.error
        return total
    res = FunctionResult(qname)
    # background axioms (regex lemmas, RK injectivity, str_box, ...) are added on first use and scoped to ONE function: carrying the
    # quantified regex-lemma block into every later obligation made unrelated resolve.py obligations unstable in the large C04 run
    e.axioms = []
    e._axioms_done = set()
    e._box_axiom = None
    fi = e.repo.funcs.get(qname)
    c = e.reg.contracts.get(qname)
    if fi is None:
        res.error = f"contract-binding-error: function {qname} not found in /repo"
        return res
    if c is None:
        res.error = f"no contract for {qname}"
        return res
    res.sha256 = fi.sha256
    e.fn = fi
    e.contract = c
    e.counters = {}
    e.call_counts = {}
    e.nested_defs = {}
    e.local_imports = {}
    e.extra_fields = {k: parse_type(v) for k, v in e.reg.extra_fields.items()}
    e.interest = {}
    # stable statement labels for ghost anchors: <StmtType>#<ordinal in source order>
    e.stmt_labels = {}
    e.stmt_alias = {}        # name-based anchors, robust against unrelated statements being added: assign:<target>#k, call:<recv>.<method>#k
    counts = {}

    def number(node):
        for ch in ast.iter_child_nodes(node):
            if isinstance(ch, ast.stmt):
                tn = type(ch).__name__
                counts[tn] = counts.get(tn, 0) + 1
                e.stmt_labels[id(ch)] = f"{tn}#{counts[tn]}"
                key = None
                if isinstance(ch, ast.Assign) and len(ch.targets) == 1 and isinstance(ch.targets[0], ast.Name):
                    key = f"assign:{ch.targets[0].id}"
                elif isinstance(ch, ast.Expr) and isinstance(ch.value, ast.Call) and isinstance(ch.value.func, ast.Attribute) \
                        and isinstance(ch.value.func.value, ast.Name):
                    key = f"call:{ch.value.func.value.id}.{ch.value.func.attr}"
                if key:
                    counts[key] = counts.get(key, 0) + 1
                    e.stmt_alias[id(ch)] = f"{key}#{counts[key]}"
            if not isinstance(ch, (ast.FunctionDef, ast.Lambda, ast.ClassDef)) or ch is fi.node:
                number(ch)
    number(fi.node)
    start = len(e.obls)
    try:
        st = State()
        st.alive = z3.Const("alive0", z3.ArraySort(Obj, z3.BoolSort()))
        e.entry = None
        a = fi.node.args
        params = [x for x in a.posonlyargs + a.args + a.kwonlyargs]
        pos = a.posonlyargs + a.args
        defaults = {}
        for p, d in zip(pos[len(pos) - len(a.defaults):], a.defaults):
            defaults[p.arg] = d
        for p, d in zip(a.kwonlyargs, a.kw_defaults):
            if d is not None:
                defaults[p.arg] = d
        for p in params:
            name = p.arg
            if fi.kind == "classmethod" and name == "cls":
                st.store[name] = SV(Ty("func"), None, tag=("class", fi.cls))
                continue
            if getattr(e, "_func_choice", None) and name in e._func_choice:
                st.store[name] = SV(Ty("func"), None, tag=("builtin", e._func_choice[name]))
                continue
            ty = param_type(e, fi, c, name, p.annotation)
            if ty is None and name in defaults and isinstance(defaults[name], ast.Name):
                # function-valued parameter bound to its default (e.g. the default resolvers)
                dn = defaults[name].id
                q = f"{fi.module}.{dn}"
                if q in e.repo.funcs:
                    st.store[name] = SV(Ty("func"), None, tag=("func", q))
                    continue
            if ty is None:
                raise BindingError(f"no type for parameter {name} of {qname}")
            sv = fresh_sv(ty, f"arg_{name}")
            if ty.kind in ("seq", "dict", "set", "tuple"):
                sv.none = FALSE
            st.store[name] = sv
            if ty.kind == "obj":
                e.assume_alive(st, sv)
                # the declared class of a parameter is a precondition (asserted at every call site)
                if ty.cls in e.repo.classes or ty.cls in ("TokenOrStr", "str"):
                    st.assume(Or(sv.none, e.class_in(sv.v, ty.cls)))
            e.wf(st, sv)
            interest_of(name, sv, e.interest)
        for g, ts in c.ghost.items():
            gv = fresh_sv(parse_type(ts), f"ghost_{g}")
            st.store["ghost." + g] = gv
            e.wf(st, gv)
            interest_of("ghost." + g, gv, e.interest)
        entry = st.fork()
        e.entry = entry
        # preconditions
        for name, expr in list(c.requires.items()) + list(c.ghost_init.items()):
            st.assume(e.eval_spec(expr, st, {}, None, entry, c))
        for fn in e.reg.axioms:
            fn(e, st)
        # share lazily-created heap arrays between entry and current
        entry.heap = {k: list(v) for k, v in st.heap.items()}
        # cover: the precondition is satisfiable
        cov = Obligation(f"{qname}/cover:requires", list(e.axioms) + list(st.pc), FALSE, dict(e.interest), "", "cover",
                         expect="sat")
        e.obls.append(cov)
        outs = e.exec_block(fi.node.body, st)
        res.paths = len(outs)
        canary_done = 0
        for o in outs:
            if o.kind in ("normal", "return"):
                val = o.val if o.kind == "return" else none_sv()
                check_post(e, c, o.st, val, entry)
                if canary_done < 4:
                    # vacuity canaries: at least one exit path must be reachable (grouped per function in the report)
                    can = Obligation(f"{qname}/canary:exit-reachable@{canary_done + 1}", list(e.axioms) + list(o.st.pc), FALSE, {}, "",
                                     "canary", expect="sat")
                    e.obls.append(can)
                    canary_done += 1
            elif o.kind == "raise":
                if o.exc in c.raises_ensures:
                    for name, expr in c.raises_ensures[o.exc].items():
                        g = e.eval_spec(expr, o.st, {}, None, entry, c)
                        e.emit(f"raises:{o.exc}:{name}", g, o.st, kind="post")
                elif c.noraise:
                    e.emit(f"safety:{o.exc}:{o.label}", FALSE, o.st, kind="safety")
            else:
                raise Unsupported(f"{o.kind} outside loop")
    except (Unsupported, BindingError) as ex:
        if os.environ.get("PYVC_RAISE"):
            raise
        kind = "contract-binding-error" if isinstance(ex, BindingError) else "unsupported-construct"
        res.error = f"{kind}: {ex}"
        del e.obls[start:]
        return res
    except Exception as ex:      # the code changed into a shape the engine mis-handles: undecided, never a crash or a violation
        res.error = f"unsupported-construct: engine error {type(ex).__name__}: {ex}"
        del e.obls[start:]
        return res
    res.obligations = e.obls[start:]
    return res


def check_post(e: Engine, c: Contract, st: State, val: SV, entry: State):
    rty = parse_type(c.returns) if c.returns else None
    if rty is not None and rty.kind != "none":
        try:
            val = e.coerce(val, rty)
        except Unsupported:
            pass
    # in postconditions a parameter name denotes the ARGUMENT (its entry value), also when the body rebinds the name
    bound = {pn: entry.store[pn] for pn in st.rebound if pn in entry.store and not pn.startswith("ghost.") and pn not in c.modifies}
    # ghost lemma steps that need the returned value
    from . import loops
    if any(g.anchor == "at:return" for g in e.reg.ghost.get(e.fn.qname, [])):
        st.store["result"] = val
        try:
            loops.run_ghost(e, st, "at:return")
        finally:
            st.store.pop("result", None)
    for name, expr in c.ensures.items():
        g = e.eval_spec(expr, st, bound, val, entry, c)
        e.emit(f"post:{name}", g, st, kind="post")
    if c.fresh_result and val.ty.kind == "obj":
        # the declared freshness of the result (assumed at call sites) is an obligation of the body
        e.emit("post:fresh_result", And(Not(val.none), Not(z3.Select(entry.alive, val.v))), st, kind="post")
    for path in c.fresh_paths:
        v = val
        sm = e.spec_mode
        e.spec_mode = True
        try:
            for f in path.split(".")[1:]:
                v = e.load_field(st, v, f)
        finally:
            e.spec_mode = sm
        e.emit(f"post:fresh:{path}", And(Not(v.none), Not(z3.Select(entry.alive, v.v)), z3.Select(st.alive, v.v)), st, kind="post")
    if c.pure_result is not None:
        want = e.eval_spec_value(c.pure_result, st, bound, c, val, entry)
        e.emit("post:pure_result", e.equal(st, val, want), st, kind="post")
    if c.frame_check:
        check_frame(e, c, st, entry)


def check_frame(e: Engine, c: Contract, st: State, entry: State):
    """Nothing outside the declared frame changed: for every heap array that differs from the entry
    heap, every object alive at entry and not named by a modifies path keeps its value."""
    allowed: Dict[str, List[object]] = {}
    for path in c.modifies:
        parts = path.split(".")
        if len(parts) == 1:
            continue
        if parts[0] not in entry.store:
            raise BindingError(f"modifies path {path}")
        cur = entry.store[parts[0]]
        sm, pr = e.spec_mode, e.pending_raises
        e.spec_mode = True
        try:
            for p in parts[1:-1]:
                cur = e.load_field(entry, cur, p)
            owner, _ = e.resolve_field(entry, cur, parts[-1])
        finally:
            e.spec_mode, e.pending_raises = sm, pr
        if owner.endswith(".Metadata"):
            owner = "Metadata*"
        allowed.setdefault(f"{owner}.{parts[-1]}", []).append(cur.v)
    # mutable parameters outside the frame keep their value
    for pname, pv in entry.store.items():
        if pv.ty.kind in ("seq", "dict", "set") and pname not in c.modifies and pname in st.store and not pname.startswith("ghost.") and pname not in st.rebound:
            fa, fb = to_flat(st.store[pname], pv.ty), to_flat(pv, pv.ty)
            if all(x.eq(y) for x, y in zip(fa, fb)):
                continue
            e.emit(f"frame:param:{pname}", And(*[x == y for x, y in zip(fa, fb)]), st, kind="post")
    o = z3.Const(fresh_name("fo"), Obj)
    for key, arrs in st.heap.items():
        init = entry.heap.get(key)
        if init is None:
            init = [z3.Const(f"H0.{key}.{i}", a.sort()) for i, a in enumerate(arrs)]
        if all(a.eq(b) for a, b in zip(arrs, init)):
            continue
        excl = [o != x for x in allowed.get(key, [])]
        same = And(*[z3.Select(a, o) == z3.Select(b, o) for a, b in zip(arrs, init)])
        g = z3.ForAll([o], Implies(And(z3.Select(entry.alive, o), *excl), same))
        e.emit(f"frame:{key}", g, st, kind="post")


def lemma_obligations(e: Engine) -> List[Obligation]:
    """Stand-alone obligations for the closed lemmas that were instantiated with use_lemma()."""
    out = []
    for lem in e.reg.lemmas:
        if lem["name"] not in getattr(e, "lemmas_used", set()) and not lem.get("always"):
            continue
        e.axioms = []
        e._axioms_done = set()
        e._box_axiom = None
        st = State()
        st.alive = z3.Const("alive0", z3.ArraySort(Obj, z3.BoolSort()))
        env = {}
        for pdecl in lem["params"]:
            pn, pt = pdecl.split(":")
            sv = fresh_sv(parse_type(pt), f"lem_{pn}", optional=False)
            sv.none = FALSE
            env[pn] = sv
        saved = (e.spec_mode, e.pending_raises, e.guards, e.lambda_env)
        e.spec_mode, e.pending_raises, e.guards, e.lambda_env = True, [], [], [env]
        try:
            g = e.truthy(st, e.ev(ast.parse(lem["statement"].strip(), mode="eval").body, st))
        finally:
            e.spec_mode, e.pending_raises, e.guards, e.lambda_env = saved
        o = Obligation(f"lemma/{lem['name']}", list(e.axioms) + list(st.pc), g, {}, "", "lemma")
        out.append(o)
        # vacuity guard: the premise of an implication lemma must be satisfiable
        node = ast.parse(lem["statement"].strip(), mode="eval").body
        if isinstance(node, ast.Call) and isinstance(node.func, ast.Name) and node.func.id == "implies":
            saved = (e.spec_mode, e.pending_raises, e.guards, e.lambda_env)
            e.spec_mode, e.pending_raises, e.guards, e.lambda_env = True, [], [], [env]
            try:
                prem = e.truthy(st, e.ev(node.args[0], st))
            finally:
                e.spec_mode, e.pending_raises, e.guards, e.lambda_env = saved
            out.append(Obligation(f"lemma/{lem['name']}/cover:premise", list(e.axioms) + list(st.pc) + [prem], FALSE, {}, "", "cover", expect="sat"))
    return out
