"""Loops: cut by invariant (no unrolling), or exact unrolling over AST literals."""
from __future__ import annotations

import ast
from typing import Dict, List, Optional, Set

import z3

from .engine import And, BindingError, Engine, I, Implies, Not, Or, Outcome, State, Unsupported
from .values import (BOOL, FALSE, INT, SEQ, STR, TRUE, TUP, SV, Ty, fresh_name, fresh_sv, from_flat, flat_sorts,
                     is_false, is_true, none_sv)


def loop_ordinal(e: Engine, node: ast.AST) -> int:
    loops = e.repo.loops(e.fn.node)
    for i, l in enumerate(loops, start=1):
        if l is node:
            return i
    # nested def loops are not numbered
    raise BindingError("loop not found in function")


def assigned_names(body: List[ast.stmt]) -> Set[str]:
    out: Set[str] = set()

    def tgt(t):
        if isinstance(t, ast.Name):
            out.add(t.id)
        elif isinstance(t, (ast.Tuple, ast.List)):
            for x in t.elts:
                tgt(x)
        elif isinstance(t, ast.Subscript):
            tgt(t.value)
        elif isinstance(t, ast.Starred):
            tgt(t.value)

    for st in body:
        for n in ast.walk(st):
            if isinstance(n, ast.Assign):
                for t in n.targets:
                    tgt(t)
            elif isinstance(n, (ast.AugAssign, ast.AnnAssign)):
                tgt(n.target)
            elif isinstance(n, ast.For):
                tgt(n.target)
            elif isinstance(n, ast.NamedExpr):
                tgt(n.target)
            elif isinstance(n, ast.Call) and isinstance(n.func, ast.Attribute) and n.func.attr in ("append", "extend", "pop", "add", "update"):
                if isinstance(n.func.value, ast.Name):
                    out.add("?" + n.func.value.id)      # in-place mutation only if the receiver is a container (decided at havoc time)
                else:
                    tgt(n.func.value)
    return out


def stored_fields(e: Engine, body: List[ast.stmt]) -> Set[str]:
    """Field names that may be written in the body: attribute stores and the modifies-frames of callees."""
    out: Set[str] = set()
    for st in body:
        for n in ast.walk(st):
            targets = []
            if isinstance(n, ast.Assign):
                targets = n.targets
            elif isinstance(n, (ast.AugAssign, ast.AnnAssign)):
                targets = [n.target]
            for t in targets:
                for x in ast.walk(t):
                    if isinstance(x, ast.Attribute) and isinstance(x.ctx, ast.Store):
                        out.add(x.attr)
            if isinstance(n, ast.Call):
                name = n.func.id if isinstance(n.func, ast.Name) else (n.func.attr if isinstance(n.func, ast.Attribute) else None)
                if name:
                    for q, c in e.reg.contracts.items():
                        if q.split(".")[-1] == name:
                            for p in c.modifies:
                                if "." in p:
                                    out.add(p.split(".")[-1])
    return out


def mutated_args(e: Engine, body: List[ast.stmt]) -> Set[str]:
    out: Set[str] = set()
    for st in body:
        for n in ast.walk(st):
            if isinstance(n, ast.Call):
                name = n.func.id if isinstance(n.func, ast.Name) else (n.func.attr if isinstance(n.func, ast.Attribute) else None)
                if not name:
                    continue
                for q, c in e.reg.contracts.items():
                    if q.split(".")[-1] != name:
                        continue
                    try:
                        params, _ = e.signature(q)
                    except Exception:
                        continue
                    if q in e.repo.funcs and e.repo.funcs[q].kind == "method" and isinstance(n.func, ast.Attribute):
                        params = params[1:]
                    for p in c.modifies:
                        if "." not in p and p in params:
                            i = params.index(p)
                            if i < len(n.args) and isinstance(n.args[i], ast.Name):
                                out.add(n.args[i].id)
    return out


class IterSpace:
    def __init__(self, n, item, seq: Optional[SV] = None):
        self.n = n
        self.item = item
        self.seq = seq


def iter_space(e: Engine, st: State, it: SV) -> IterSpace:
    k = it.ty.kind
    if k == "seq":
        return IterSpace(it.v.len, lambda i: e.seq_get(it, i), it)
    if k == "range":
        lo, n, step = it.v
        return IterSpace(n, lambda i: SV(INT, lo + step * i))
    if k == "enum":
        xs = it.v
        return IterSpace(xs.v.len, lambda i: SV(TUP(INT, xs.ty.elts[0]), [SV(INT, i), e.seq_get(xs, i)]), xs)
    if k == "tuple":
        xs = e.seq_from_items(list(it.v))
        return IterSpace(xs.v.len, lambda i: e.seq_get(xs, i), xs)
    raise Unsupported(f"iteration over {it.ty}")


def exec_for(e: Engine, s: ast.For, st: State) -> List[Outcome]:
    if s.orelse:
        raise Unsupported("for/else")
    it = e.ev(s.iter, st)
    outs = e.flush_raises(st)
    try:
        ordn = loop_ordinal(e, s)
    except BindingError:
        ordn = None
    spec = e.reg.loops.get((e.fn.qname, ordn)) if ordn else None
    # exact unrolling over literal tuples/lists (AST literals: the iteration count is a constant of the source)
    if it.ty.kind == "tuple" and (spec is None or spec.unroll_literal):
        return outs + unroll(e, s, st, list(it.v))
    if it.ty.kind == "seq" and it.tag and it.tag[0] == "items" and (spec is None or spec.unroll_literal):
        return outs + unroll(e, s, st, list(it.tag[1]))
    if spec is None:
        raise Unsupported(f"loop #{ordn} of {e.fn.qname} has no invariant")
    space = iter_space(e, st, it)
    tag = f"loop{ordn}"
    # 1. invariants on entry (k = 0)
    pre_loop = st.fork()
    check_invariants(e, spec, st, I(0), space, pre_loop, tag, "entry")
    # 2. havoc
    names = assigned_names(s.body) | mutated_args(e, s.body)
    st.rebound |= {x for x in assigned_names(s.body) if not x.startswith("?")}      # plainly assigned in the body: rebinding, not mutation
    for nm in [x for x in names if x.startswith("?")]:
        names.discard(nm)
        cur = st.store.get(nm[1:])
        if cur is None or cur.ty.kind in ("seq", "dict", "set", "small", "none"):
            names.add(nm[1:])
    inner_labels = set()
    for bst in s.body:
        for x in ast.walk(bst):
            lab = getattr(e, "stmt_labels", {}).get(id(x))
            if lab:
                inner_labels.add("after:" + lab)
            al = getattr(e, "stmt_alias", {}).get(id(x))
            if al:
                inner_labels.add("after:" + al)
    for g in e.reg.ghost.get(e.fn.qname, []):
        if g.anchor.startswith(tag + ":") or g.anchor in inner_labels:
            for gn in ast.walk(ast.parse(g.code)):
                if isinstance(gn, ast.Assign):
                    for t in gn.targets:
                        if isinstance(t, ast.Attribute) and isinstance(t.value, ast.Name) and t.value.id == "ghost":
                            names.add("ghost." + t.attr)
    for t in ast.walk(s.target):
        if isinstance(t, ast.Name):
            names.add(t.id)
    fields = stored_fields(e, s.body)
    hst = st.fork()
    cells = invariant_store_cells(e, st, s.body, names, fields)
    havoc(e, hst, names, fields, spec, cells)
    k = z3.Int(fresh_name("k"))
    # 3. arbitrary iteration
    body_st = hst.fork()
    body_st.assume(And(k >= 0, k < space.n))
    assume_invariants(e, spec, body_st, k, space, pre_loop)
    env: Dict[str, SV] = {}
    e.bind_target(s.target, space.item(k), env, body_st)
    if isinstance(s.target, ast.Name) and it.tag and it.tag[0] in ("items", "litseq"):
        lits = [x.tag[1] for x in (it.tag[1] if it.tag[0] == "items" else it.v) if isinstance(x, SV) and x.tag and x.tag[0] == "lit"]
        n_items = len(it.tag[1]) if it.tag[0] == "items" else len(it.v)
        if lits and len(lits) == n_items and all(isinstance(x, str) for x in lits):
            v0 = env[s.target.id]
            env[s.target.id] = SV(v0.ty, v0.v, v0.none, tag=("oneof", tuple(lits)))
            body_st.assume(Or(*[v0.v == z3.StringVal(x) for x in lits]))
    body_st.store.update(env)
    for v in env.values():
        if v.ty.kind == "obj":
            e.assume_alive(body_st, v)
    e.loop_stack.append({"k": k, "space": space, "spec": spec, "tag": tag})
    run_ghost(e, body_st, f"{tag}:body_start", k)
    body_start = body_st.fork()
    body_outs = e.exec_block(s.body, body_st)
    e.loop_stack.pop()
    res = list(outs)
    for o in body_outs:
        if o.kind in ("normal", "continue"):
            e._ghost_it = getattr(space, "seq", None)
            try:
                run_ghost(e, o.st, f"{tag}:body_end", k)
            finally:
                e._ghost_it = None
            check_invariants(e, spec, o.st, k + 1, space, pre_loop, tag, "preserved")
            check_steps(e, spec, o.st, k, space, pre_loop, body_start, tag)
        elif o.kind == "break":
            res.append(Outcome("normal", o.st))
        else:
            res.append(o)
    # 4. after the loop
    exit_st = hst.fork()
    assume_invariants(e, spec, exit_st, space.n, space, pre_loop)
    exit_st.assume(space.n >= 0)
    res.append(Outcome("normal", exit_st))
    return res


def run_ghost(e: Engine, st: State, anchor: str, k=None):
    for g in e.reg.ghost.get(e.fn.qname, []):
        if g.anchor == anchor:
            run_ghost_code(e, st, g.code, k)


def run_ghost_code(e: Engine, st: State, code: str, k=None):
    tree = ast.parse(code)
    saved = (e.spec_mode, e.pending_raises, e.guards)
    old_saved = getattr(e, "_old_state", None)
    e._old_state = e.entry
    defs_saved = getattr(e, "_extra_defs", {})
    env_defs = {}
    for dn, dsrc in list((e.contract.defs if e.contract else {}).items()):
        env_defs[dn] = SV(Ty("func"), None, tag=("deflambda", dn, ast.parse(dsrc.strip(), mode="eval").body))
    store_saved = st.store
    st.store = dict(st.store)
    st.store.update(env_defs)
    e.spec_mode = True
    e.pending_raises = []
    e.guards = []
    if k is not None:
        st.store["k"] = SV(INT, k)
    it_seq = getattr(e, "_ghost_it", None)
    if it_seq is None and e.loop_stack and getattr(e.loop_stack[-1].get("space"), "seq", None) is not None:
        it_seq = e.loop_stack[-1]["space"].seq
    if it_seq is not None:
        st.store["it"] = it_seq          # the sequence the innermost loop iterates over (as in invariants)
    try:
        for stmt in tree.body:
            # lemma steps mentioning a local that is not bound on this path are skipped (they only add lemma instances)
            bound_params = {a.arg for x in ast.walk(stmt) if isinstance(x, ast.Lambda) for a in x.args.args}
            names = {x.id for x in ast.walk(stmt) if isinstance(x, ast.Name)} - bound_params
            defs_known = set(st.store) | set(e.contract.defs if e.contract else {}) | set(e.reg.specs) | {"ghost", "G", "k", "it", "True", "False", "None"}
            if any(nm not in defs_known and nm not in ("implies", "forall", "exists", "old", "ite", "iff", "prev", "loop_entry", "use_lemma", "len", "min", "max", "str", "isinstance", "typed", "is_none", "int") and nm not in e.repo.classes for nm in names):
                continue
            if isinstance(stmt, ast.Assert):
                # ghost assertion: an intermediate lemma -- proved here, then available to later obligations
                g = e.truthy(st, e.ev(stmt.test, st))
                nm = stmt.msg.value if isinstance(stmt.msg, ast.Constant) else "lemma"
                e.emit(f"ghost:assert:{nm}", g, st, kind="lemma")
                st.assume(g)
            elif isinstance(stmt, ast.Expr):
                e.ev(stmt.value, st)
            elif isinstance(stmt, ast.Assign) and len(stmt.targets) == 1:
                val = e.ev(stmt.value, st)
                t = stmt.targets[0]
                if isinstance(t, ast.Attribute) and isinstance(t.value, ast.Name) and t.value.id == "ghost":
                    cur = st.store.get("ghost." + t.attr)
                    if cur is not None and val.ty.kind != "none":
                        val = e.coerce(val, cur.ty)
                    st.store["ghost." + t.attr] = val
                elif isinstance(t, ast.Attribute):
                    e.assign(t, val, st)        # ghost field of an object (never read by the code)
                else:
                    raise Unsupported("ghost code may only assign ghost.<name> or a ghost field")
            else:
                raise Unsupported("ghost statement")
    finally:
        e.spec_mode, e.pending_raises, e.guards = saved
        e._old_state = old_saved
        new_ghost = {k2: v for k2, v in st.store.items() if k2.startswith("ghost.")}
        st.store = store_saved
        st.store.update(new_ghost)
        st.store.pop("k", None)


def invariant_store_cells(e: Engine, st: State, body, names: Set[str], fields: Set[str]):
    """For attribute stores `R.f = ...` whose receiver expression R is loop-invariant (mentions no name assigned
    in the loop and no field written in the loop), only the cell (R, f) is havocked instead of the whole array.
    Returns {field: [receiver SV, ...]} or None for a field that must be havocked entirely."""
    cells = {}
    callee_fields = set()
    for stn in body:
        for n in ast.walk(stn):
            if isinstance(n, ast.Call):
                nm = n.func.id if isinstance(n.func, ast.Name) else (n.func.attr if isinstance(n.func, ast.Attribute) else None)
                for q, c in e.reg.contracts.items():
                    if nm and q.split(".")[-1] == nm:
                        for p in c.modifies:
                            if "." in p:
                                callee_fields.add(p.split(".")[-1])
    for stn in body:
        for n in ast.walk(stn):
            targets = n.targets if isinstance(n, ast.Assign) else ([n.target] if isinstance(n, (ast.AugAssign, ast.AnnAssign)) else [])
            for t in targets:
                for x in ast.walk(t):
                    if isinstance(x, ast.Attribute) and isinstance(x.ctx, ast.Store):
                        f = x.attr
                        if f in callee_fields:
                            cells[f] = None
                            continue
                        free = {y.id for y in ast.walk(x.value) if isinstance(y, ast.Name)}
                        chain = {y.attr for y in ast.walk(x.value) if isinstance(y, ast.Attribute)}
                        if free & names or chain & fields:
                            cells[f] = None
                            continue
                        if cells.get(f, []) is None:
                            continue
                        saved = (e.spec_mode, e.pending_raises)
                        e.spec_mode = True
                        try:
                            recv = e.ev(x.value, st)
                        except Unsupported:
                            cells[f] = None
                            continue
                        finally:
                            e.spec_mode, e.pending_raises = saved
                        cells.setdefault(f, []).append(recv)
    for f in callee_fields:
        cells[f] = None
    return cells


def havoc(e: Engine, st: State, names: Set[str], fields: Set[str], spec, cells=None):
    for nme in sorted(names):
        if nme in st.store:
            cur = st.store[nme]
            if cur.ty.kind in ("func", "none", "small", "range", "enum", "dictview"):
                if cur.ty.kind == "none":
                    lt = e.contract.locals_types.get(nme) if e.contract else None
                    if lt is None:
                        raise BindingError(f"loop-modified local '{nme}' is None before the loop: declare its type in locals_types")
                    from .values import parse_type
                    st.store[nme] = fresh_sv(parse_type(lt), f"hv_{nme}")
                continue
            st.store[nme] = fresh_sv(cur.ty, f"hv_{nme}", optional=True)
            e.wf(st, st.store[nme])
            if cur.ty.kind == "obj":
                e.assume_alive(st, st.store[nme])
        # names first assigned inside the loop need no havoc
    # aliases (`self.offsets = offsets = []`): the linked heap cells follow the havocked local
    for grp in st.links:
        src = next((g for g in grp if g[0] == "name" and g[1] in names and g[1] in st.store), None)
        if src is not None:
            for g in grp:
                if g[0] == "attr":
                    saved_pr = e.pending_raises
                    e.pending_raises = []
                    e.store_field(st, g[1], g[2], st.store[src[1]])
                    e.pending_raises = saved_pr
    cells = cells or {}
    whole = set()
    for fname in fields:
        recvs = cells.get(fname)
        if recvs:
            # havoc single cells
            for recv in recvs:
                owner, ty = e.resolve_field(st, recv, fname)
                if owner.endswith(".Metadata"):
                    owner = "Metadata*"
                key = f"{owner}.{fname}"
                arrs = e.heap_get(st, key, ty)
                fresh = fresh_sv(ty, f"hv_{fname}")
                e.wf(st, fresh)
                from .values import to_flat
                st.heap[key] = [z3.Store(a, recv.v, c) for a, c in zip(arrs, to_flat(fresh, ty))]
        else:
            whole.add(fname)
    for key in list(st.heap.keys()):
        fname = key.split(".")[-1]
        if fname in whole:
            st.heap[key] = [z3.Const(fresh_name(f"H.{key}.{i}"), a.sort()) for i, a in enumerate(st.heap[key])]
    # fields written in the body but never read before: materialise lazily (heap_get creates H0 arrays,
    # which would wrongly equal the entry heap) -> record that these keys are havocked
    st.havocked_fields = set(st.havocked_fields) | set(whole)
    # ghost variables named in the spec
    for g in getattr(spec, "modifies", []) or []:
        if g.startswith("ghost."):
            cur = st.store.get(g)
            if cur is not None:
                st.store[g] = fresh_sv(cur.ty, f"hv_{g}")
                e.wf(st, st.store[g])


def spec_env(e: Engine, st: State, k, space: IterSpace, pre_loop: State) -> Dict[str, SV]:
    env = {"k": SV(INT, k)}
    if space.seq is not None:
        env["it"] = space.seq
    env["n_iter"] = SV(INT, space.n)
    return env


def check_invariants(e: Engine, spec, st: State, k, space, pre_loop, tag, when):
    for name, expr in spec.invariant.items():
        env = spec_env(e, st, k, space, pre_loop)
        e._loop_entry_state = pre_loop
        e._extra_defs = spec.defs
        try:
            g = e.eval_spec(expr, st, env, None, e.entry, e.contract)
        finally:
            e._extra_defs = {}
        e.emit(f"{tag}:inv:{name}:{when}", g, st, kind="inv", prop=spec.props.get(name, ""))


def check_steps(e: Engine, spec, st: State, k, space, pre_loop, body_start, tag):
    for name, expr in spec.step.items():
        env = spec_env(e, st, k, space, pre_loop)
        e._loop_entry_state = pre_loop
        e._prev_state = body_start
        e._extra_defs = spec.defs
        try:
            g = e.eval_spec(expr, st, env, None, e.entry, e.contract)
        finally:
            e._extra_defs = {}
        e.emit(f"{tag}:step:{name}", g, st, kind="inv", prop=spec.props.get(name, ""))


def assume_invariants(e: Engine, spec, st: State, k, space, pre_loop):
    for name, expr in spec.invariant.items():
        env = spec_env(e, st, k, space, pre_loop)
        e._loop_entry_state = pre_loop
        e._extra_defs = spec.defs
        try:
            g = e.eval_spec(expr, st, env, None, e.entry, e.contract)
        finally:
            e._extra_defs = {}
        st.assume(g)


def unroll(e: Engine, s: ast.For, st: State, items: List[SV]) -> List[Outcome]:
    res: List[Outcome] = []
    states = [st]
    for it in items:
        nxt = []
        for cur in states:
            env: Dict[str, SV] = {}
            e.bind_target(s.target, it, env, cur)
            cur.store.update(env)
            for o in e.exec_block(s.body, cur):
                if o.kind in ("normal", "continue"):
                    nxt.append(o.st)
                elif o.kind == "break":
                    res.append(Outcome("normal", o.st))
                else:
                    res.append(o)
        states = nxt
    res.extend(Outcome("normal", x) for x in states)
    return res
