"""Regular-expression back end (DESIGN section 4).

Input: the JSON parse trees and code-point tables written by pyvc/dump_db.py
(CPython's own `re._parser.parse` output and CPython's own per-code-point
behaviour).  Output: regular-language terms, as

  * a small hashable intermediate representation (IR, nested tuples) that can be
    pickled to worker processes, matched concretely (`ir_matches`, Brzozowski
    derivatives - used to cross-check the translation against CPython), and
    printed as SMT-LIB 2.6 text (`ir_to_smtlib`) for the command-line solvers;
  * z3 terms (`ir_to_z3`, and the convenience wrappers `to_re`, `search_language`,
    `contains_any`, `group_language` that return z3 terms directly).

IR:  ("empty",) ("eps",) ("any",)=one char ("full",)=all strings
     ("set", ((lo,hi),...))  over code points 0..0x10FFFF
     ("lit", "text")  ("cat", (..)) ("alt", (..)) ("star", x)
     ("loop", x, lo, hi|None) ("and", (..)) ("not", x)

Anchors (DESIGN 4.1, "positional" treatment).  A pattern is translated relative
to a *context*: s in {S0: nothing precedes the match in the text, S1: something
does} and e in {E0: nothing follows, EN: exactly "\\n" follows, E1: something
else follows}.  `^` is eps in S0 and empty in S1 (and only while nothing has
been consumed since the start of the match, which the concatenation rule tracks
by restricting the left factor to eps / non-eps); `$` is eps in E0 and EN and
empty in E1, with the symmetric restriction on the right factor.  Then

  L_search = U_s U_e  P_s . L[s][e] . W_e      P_S0 = eps, P_S1 = any+;
                                               W_E0 = eps, W_EN = "\\n", W_E1 = the rest

A pattern whose anchors all sit in a leading `(?:^|X)` / trailing `(?:X|$)`
wrapper yields the product form (eps | any* X) body (X any* | eps | "\\n") of the
design without duplicating `body`.

Unsupported (raise `Unsupported`, the caller reports the query as undecided):
look-arounds, back-references, conditional groups, atomic groups / possessive
repeats, \\b \\B, MULTILINE anchors, unbounded repeats of a sub-pattern that
contains an anchor, LOCALE.

Alphabet (DESIGN 4.3): the solvers' characters stop at U+2FFFF.  `alphabet_reduction`
computes the membership signature of every code point w.r.t. the atomic classes of a
query and checks that each signature occurring above the cut-off also occurs at or below
it.  The cut-off K is computed per query (the least one that works); it must be <= U+2FFFF,
otherwise the query is undecided.  With K small (typically U+0669 for the citation
patterns) the Unicode classes \\d \\s \\w shrink to a few ranges, which makes z3 ~10x faster;
see class Alphabet for the argument.  The z3-level convenience functions at the end
(`to_re`, `search_language`, ...) only clip classes at U+2FFFF; a caller that uses them in
an emptiness query must run `alphabet_reduction` on the IRs (or use `ir_to_z3(ir, cache,
alphabet_reduction([...]))`, as checks/c13.py does).
"""
from __future__ import annotations

import bisect
import json
from functools import lru_cache
from typing import Any, Dict, Iterable, List, Optional, Sequence, Tuple

MAXCP = 0x10FFFF
SOLVER_MAXCP = 0x2FFFF

RE_IGNORECASE = 2
RE_MULTILINE = 8
RE_DOTALL = 16

EMPTY = ("empty",)
EPS = ("eps",)
ANY = ("any",)
FULL = ("full",)


class Unsupported(Exception):
    """The construct has no translation; the query must be reported undecided."""


# --------------------------------------------------------------------------- tables

class Tables:
    def __init__(self, data: dict):
        self.atoms: Dict[str, Tuple[Tuple[int, int], ...]] = {
            k: tuple((lo, hi) for lo, hi in v["ranges"]) for k, v in data["atoms"].items()}
        self.atom_src = {k: (v["src"], v["flags"]) for k, v in data["atoms"].items()}
        self.lower_map: Dict[int, Tuple[int, ...]] = {cp: tuple(t) for cp, t in data["lower"]}
        self.lower_info = data.get("lower_info", {})
        self.context_dependent_lower = {d["cp"]: tuple(d["results"])
                                        for d in self.lower_info.get("context_dependent", [])}
        # inverse: single target code point -> code points whose lower() is exactly that
        inv: Dict[int, List[int]] = {}
        self.multi: Dict[int, Tuple[int, ...]] = {}
        for cp, t in self.lower_map.items():
            if len(t) == 1:
                inv.setdefault(t[0], []).append(cp)
            else:
                self.multi[cp] = t
        self._inv = inv

    def lower_preimage(self, target: int) -> Tuple[Tuple[int, int], ...]:
        """Code points c with chr(c).lower() == chr(target) (single-character lowerings)."""
        cps = list(self._inv.get(target, []))
        if target not in self.lower_map:   # lower() leaves it alone
            cps.append(target)
        return ranges_of(sorted(set(cps)))


def load_tables(data_or_path) -> Tables:
    """Accepts the parsed dump (dict), a path to it, or a Tables object."""
    if isinstance(data_or_path, Tables):
        return data_or_path
    if isinstance(data_or_path, str):
        with open(data_or_path) as f:
            data_or_path = json.load(f)
    return Tables(data_or_path)


def ranges_of(cps: Sequence[int]) -> Tuple[Tuple[int, int], ...]:
    out: List[List[int]] = []
    for cp in cps:
        if out and out[-1][1] == cp - 1:
            out[-1][1] = cp
        else:
            out.append([cp, cp])
    return tuple((a, b) for a, b in out)


def ranges_minus(rs: Sequence[Tuple[int, int]], cps: Iterable[int]) -> Tuple[Tuple[int, int], ...]:
    out = list(rs)
    for c in sorted(set(cps)):
        nxt = []
        for lo, hi in out:
            if lo <= c <= hi:
                if lo <= c - 1:
                    nxt.append((lo, c - 1))
                if c + 1 <= hi:
                    nxt.append((c + 1, hi))
            else:
                nxt.append((lo, hi))
        out = nxt
    return tuple(out)


def ranges_complement(rs: Sequence[Tuple[int, int]], maxcp: int = MAXCP) -> Tuple[Tuple[int, int], ...]:
    out = []
    prev = 0
    for lo, hi in rs:
        if lo > prev:
            out.append((prev, lo - 1))
        prev = hi + 1
    if prev <= maxcp:
        out.append((prev, maxcp))
    return tuple(out)


def ranges_clip(rs, maxcp):
    return tuple((lo, min(hi, maxcp)) for lo, hi in rs if lo <= maxcp)


def in_ranges(rs: Sequence[Tuple[int, int]], cp: int) -> bool:
    j = bisect.bisect_right(rs, (cp, MAXCP + 1)) - 1
    return j >= 0 and rs[j][0] <= cp <= rs[j][1]


ALL_RANGES = ((0, MAXCP),)
NOT_NL = ((0, 9), (11, MAXCP))


# --------------------------------------------------------------------------- IR constructors

def mk_set(rs) -> tuple:
    rs = tuple(rs)
    if not rs:
        return EMPTY
    if rs == ALL_RANGES:
        return ANY
    return ("set", rs)


def mk_lit(s: str) -> tuple:
    return ("lit", s) if s else EPS


def mk_cat(parts: Iterable[tuple]) -> tuple:
    out: List[tuple] = []
    for p in parts:
        if p == EMPTY:
            return EMPTY
        if p == EPS:
            continue
        if p[0] == "cat":
            items = p[1]
        else:
            items = (p,)
        for q in items:
            if out and q[0] == "lit" and out[-1][0] == "lit":
                out[-1] = ("lit", out[-1][1] + q[1])
            elif out and q == FULL and out[-1] == FULL:
                continue
            else:
                out.append(q)
    if not out:
        return EPS
    if len(out) == 1:
        return out[0]
    return ("cat", tuple(out))


def mk_alt(parts: Iterable[tuple]) -> tuple:
    out: List[tuple] = []
    seen = set()
    for p in parts:
        items = p[1] if p[0] == "alt" else (p,)
        for q in items:
            if q == EMPTY or q in seen:
                continue
            if q == FULL:
                return FULL
            seen.add(q)
            out.append(q)
    if not out:
        return EMPTY
    if len(out) == 1:
        return out[0]
    return ("alt", tuple(out))


def mk_star(x: tuple) -> tuple:
    if x in (EMPTY, EPS):
        return EPS
    if x == ANY or x == FULL:
        return FULL
    if x[0] == "star":
        return x
    return ("star", x)


def mk_plus(x: tuple) -> tuple:
    return mk_cat([x, mk_star(x)])


def mk_loop(x: tuple, lo: int, hi: Optional[int]) -> tuple:
    if hi is not None and hi < lo:
        return EMPTY
    if x == EMPTY:
        return EPS if lo == 0 else EMPTY
    if x == EPS:
        return EPS
    if hi is None:
        if lo == 0:
            return mk_star(x)
        if lo == 1:
            return mk_plus(x)
        return mk_cat([("loop", x, lo, lo), mk_star(x)])
    if hi == 0:
        return EPS
    if lo == 1 and hi == 1:
        return x
    if lo == 0 and hi == 1:
        return mk_alt([EPS, x])
    return ("loop", x, lo, hi)


def mk_and(parts: Iterable[tuple]) -> tuple:
    out: List[tuple] = []
    for p in parts:
        items = p[1] if p[0] == "and" else (p,)
        for q in items:
            if q == EMPTY:
                return EMPTY
            if q == FULL or q in out:
                continue
            out.append(q)
    if not out:
        return FULL
    if len(out) == 1:
        return out[0]
    return ("and", tuple(out))


def mk_not(x: tuple) -> tuple:
    if x == EMPTY:
        return FULL
    if x == FULL:
        return EMPTY
    if x[0] == "not":
        return x[1]
    return ("not", x)


NONEPS_LANG = ("cat", (ANY, FULL))
OTHER_LANG = ("alt", (("cat", (("set", NOT_NL), FULL)), ("cat", (("lit", "\n"), ANY, FULL))))


@lru_cache(maxsize=200000)
def ir_nullable(x: tuple) -> bool:
    k = x[0]
    if k in ("eps", "full", "star"):
        return True
    if k in ("empty", "any", "set"):
        return False
    if k == "lit":
        return x[1] == ""
    if k == "cat" or k == "and":
        return all(ir_nullable(p) for p in x[1])
    if k == "alt":
        return any(ir_nullable(p) for p in x[1])
    if k == "loop":
        return x[2] == 0 or ir_nullable(x[1])
    if k == "not":
        return not ir_nullable(x[1])
    raise ValueError(k)


def _set_has(x: tuple, cp: int) -> bool:
    return in_ranges(x[1], cp)


@lru_cache(maxsize=200000)
def ir_deriv(x: tuple, cp: int) -> tuple:
    """Brzozowski derivative of the IR w.r.t. one code point."""
    k = x[0]
    if k in ("empty", "eps"):
        return EMPTY
    if k == "any":
        return EPS
    if k == "full":
        return FULL
    if k == "set":
        return EPS if _set_has(x, cp) else EMPTY
    if k == "lit":
        return mk_lit(x[1][1:]) if x[1] and ord(x[1][0]) == cp else EMPTY
    if k == "cat":
        head, rest = x[1][0], mk_cat(x[1][1:])
        first = mk_cat([ir_deriv(head, cp), rest])
        if ir_nullable(head):
            return mk_alt([first, ir_deriv(rest, cp)])
        return first
    if k == "alt":
        return mk_alt([ir_deriv(p, cp) for p in x[1]])
    if k == "and":
        return mk_and([ir_deriv(p, cp) for p in x[1]])
    if k == "not":
        return mk_not(ir_deriv(x[1], cp))
    if k == "star":
        return mk_cat([ir_deriv(x[1], cp), x])
    if k == "loop":
        _, body, lo, hi = x
        return mk_cat([ir_deriv(body, cp), mk_loop(body, max(lo - 1, 0), None if hi is None else hi - 1)])
    raise ValueError(k)


def ir_matches(x: tuple, text: str) -> bool:
    """Concrete membership test on the IR (independent of any solver)."""
    for ch in text:
        x = ir_deriv(x, ord(ch))
        if x == EMPTY:
            return False
    return ir_nullable(x)


# restrictions used by the anchor treatment
R_NONE, R_EPS, R_NONEPS, R_NL, R_OTHER = "none", "eps", "noneps", "nl", "other"


def restrict(x: tuple, r: str) -> tuple:
    if r == R_NONE or x == EMPTY:
        return x
    if r == R_EPS:
        return EPS if ir_nullable(x) else EMPTY
    if r == R_NL:
        return mk_lit("\n") if ir_matches(x, "\n") else EMPTY
    k = x[0]
    if r == R_NONEPS:
        if not ir_nullable(x):
            return x
        if k == "eps":
            return EMPTY
        if k == "alt":
            return mk_alt([restrict(p, r) for p in x[1]])
        if k == "star":
            return mk_cat([restrict(x[1], r), x])
        if k == "cat":
            head, rest = x[1][0], mk_cat(x[1][1:])
            # head is nullable here (the whole cat is)
            return mk_alt([mk_cat([restrict(head, r), rest]), restrict(rest, r)])
        return mk_and([x, NONEPS_LANG])
    if r == R_OTHER:
        if k == "eps":
            return EMPTY
        if k == "any":
            return mk_set(NOT_NL)
        if k == "set":
            return mk_set(ranges_minus(x[1], [10]))
        if k == "alt":
            return mk_alt([restrict(p, r) for p in x[1]])
        if k == "lit":
            return EMPTY if x[1] in ("", "\n") else x
        return mk_and([x, OTHER_LANG])
    raise ValueError(r)


# --------------------------------------------------------------------------- contextual languages

S0, S1 = 0, 1
E0, EN, E1 = 0, 1, 2
_S_ALL = (S0, S1)
_E_ALL = (E0, EN, E1)
# allowed transitions and the restriction they put on the factor in between
_S_TRANS = {S0: ((S0, R_EPS), (S1, R_NONEPS)), S1: ((S1, R_NONE),)}
_E_TRANS = {E0: ((E0, R_EPS), (EN, R_NL), (E1, R_OTHER)), EN: ((EN, R_EPS), (E1, R_NONEPS)), E1: ((E1, R_NONE),)}


class Lang:
    """Language of a sub-pattern as a function of the context (s, e)."""

    __slots__ = ("dep_s", "dep_e", "tab")

    def __init__(self, dep_s: bool, dep_e: bool, tab: Dict[Tuple[Optional[int], Optional[int]], tuple]):
        self.dep_s, self.dep_e, self.tab = dep_s, dep_e, tab

    @staticmethod
    def pure(ir: tuple) -> "Lang":
        return Lang(False, False, {(None, None): ir})

    @property
    def is_pure(self) -> bool:
        return not (self.dep_s or self.dep_e)

    def get(self, s: int, e: int) -> tuple:
        return self.tab[(s if self.dep_s else None, e if self.dep_e else None)]

    def keys(self):
        return [(s, e) for s in (_S_ALL if self.dep_s else (None,)) for e in (_E_ALL if self.dep_e else (None,))]

    def ir(self) -> tuple:
        if not self.is_pure:
            raise Unsupported("anchor inside a construct that needs a context-free language")
        return self.tab[(None, None)]

    def union_all(self) -> tuple:
        return mk_alt(list(self.tab.values()))


def lang_alt(ls: Sequence[Lang]) -> Lang:
    ds = any(l.dep_s for l in ls)
    de = any(l.dep_e for l in ls)
    out = Lang(ds, de, {})
    for s, e in out.keys():
        out.tab[(s, e)] = mk_alt([l.get(s, e) for l in ls])
    return out


def lang_cat2(a: Lang, b: Lang) -> Lang:
    ds = a.dep_s or b.dep_s
    de = a.dep_e or b.dep_e
    out = Lang(ds, de, {})
    for s, e in out.keys():
        s_opts = _S_TRANS[s] if b.dep_s else ((s, R_NONE),)
        e_opts = _E_TRANS[e] if a.dep_e else ((e, R_NONE),)
        terms = []
        for s2, r1 in s_opts:
            for e1, r2 in e_opts:
                left = restrict(a.get(s, e1), r1)
                if left == EMPTY:
                    continue
                right = restrict(b.get(s2, e), r2)
                terms.append(mk_cat([left, right]))
        out.tab[(s, e)] = mk_alt(terms)
    return out


def lang_cat(ls: Sequence[Lang]) -> Lang:
    # merge runs of pure languages first
    merged: List[Lang] = []
    for l in ls:
        if merged and merged[-1].is_pure and l.is_pure:
            merged[-1] = Lang.pure(mk_cat([merged[-1].ir(), l.ir()]))
        else:
            merged.append(l)
    if not merged:
        return Lang.pure(EPS)
    acc = merged[0]
    for l in merged[1:]:
        acc = lang_cat2(acc, l)
    return acc


# --------------------------------------------------------------------------- tree -> Lang

class Translator:
    def __init__(self, tables: Tables, flags: int = 0):
        self.t = tables
        self.flags = flags
        self.group_langs: Dict[int, Lang] = {}

    def atom(self, key: str) -> tuple:
        try:
            return mk_set(self.t.atoms[key])
        except KeyError:
            raise Unsupported("no code-point table for atom %r" % key)

    def seq(self, nodes: list) -> Lang:
        # split so that (prefix: no dependence on e) . (suffix: no dependence on s) whenever possible:
        # then no restriction is ever needed and sub-terms are not duplicated.
        langs = [self.node(n) for n in nodes]
        return lang_cat(langs)

    def node(self, n: list) -> Lang:
        op = n[0]
        if op == "LITERAL":
            if n[2] is None:
                return Lang.pure(mk_lit(chr(n[1])))
            return Lang.pure(self.atom(n[2]))
        if op == "NOT_LITERAL":
            return Lang.pure(self.atom(n[2]))
        if op == "ANY":
            return Lang.pure(self.atom(n[1]))
        if op == "IN":
            return Lang.pure(self.atom(n[2]))
        if op == "BRANCH":
            return lang_alt([self.seq(b) for b in n[1]])
        if op == "SUBPATTERN":
            inner = self.seq(n[4])
            if n[1] is not None:
                self.group_langs[n[1]] = inner
            return inner
        if op in ("MAX_REPEAT", "MIN_REPEAT"):
            lo, hi, body = n[1], n[2], self.seq(n[3])
            hi = None if hi == "INF" else hi
            if body.is_pure:
                return Lang.pure(mk_loop(body.ir(), lo, hi))
            if hi is None or hi > 4:
                raise Unsupported("repeat {%s,%s} of a sub-pattern containing an anchor" % (lo, hi))
            opt = lang_alt([Lang.pure(EPS), body])
            return lang_cat([body] * lo + [opt] * (hi - lo))
        if op == "AT":
            if self.flags & RE_MULTILINE and n[1] in ("AT_BEGINNING", "AT_END"):
                raise Unsupported("MULTILINE anchor")
            if n[1] in ("AT_BEGINNING", "AT_BEGINNING_STRING"):
                return Lang(True, False, {(S0, None): EPS, (S1, None): EMPTY})
            if n[1] == "AT_END":
                return Lang(False, True, {(None, E0): EPS, (None, EN): EPS, (None, E1): EMPTY})
            if n[1] == "AT_END_STRING":
                return Lang(False, True, {(None, E0): EPS, (None, EN): EMPTY, (None, E1): EMPTY})
            raise Unsupported("anchor %s" % n[1])
        raise Unsupported("regex node %s" % op)


def _seq_product(tr: Translator, tree: list) -> Optional[Tuple[Lang, tuple, Lang]]:
    """Split the top-level sequence into  left . mid . right  with left independent of e, mid
    context-free and right independent of s (None if the anchors are not laid out like that)."""
    langs = [tr.node(n) for n in tree]
    last_s = max([i for i, l in enumerate(langs) if l.dep_s], default=-1)
    first_e = min([i for i, l in enumerate(langs) if l.dep_e], default=len(langs))
    if last_s >= first_e:
        return None
    mid = mk_cat([l.ir() for l in langs[last_s + 1:first_e]])
    return lang_cat(langs[:last_s + 1]), mid, lang_cat(langs[first_e:])


_PRE = {S0: EPS, S1: ("cat", (ANY, FULL))}
_POST = {E0: EPS, EN: ("lit", "\n"), E1: OTHER_LANG}


def search_ir(tree: list, flags: int, tables: Tables) -> tuple:
    """IR of L_search(pattern, flags): all texts in which re.search finds a match."""
    tr = Translator(tables, flags)
    split = _seq_product(tr, tree)
    if split is None:
        # general table form
        whole = tr.seq(tree)
        terms = []
        for s in _S_ALL:
            for e in _E_ALL:
                terms.append(mk_cat([_PRE[s], whole.get(s, e), _POST[e]]))
        return mk_alt(terms)
    left, mid, right = split
    if left.dep_s:
        lpart = mk_alt([mk_cat([_PRE[s], left.get(s, E0)]) for s in _S_ALL])
    else:
        lpart = mk_cat([FULL, left.get(S0, E0)])
    if right.dep_e:
        rpart = mk_alt([mk_cat([right.get(S0, e), _POST[e]]) for e in _E_ALL])
    else:
        rpart = mk_cat([right.get(S0, E0), FULL])
    return mk_cat([lpart, mid, rpart])


def fullmatch_ir(tree: list, flags: int, tables: Tables) -> tuple:
    """IR of the language of re.fullmatch(pattern, .) (context: nothing before, nothing after)."""
    tr = Translator(tables, flags)
    return tr.seq(tree).get(S0, E0)


def group_ir(tree: list, group, flags: int, tables: Tables, groupdict: Optional[dict] = None) -> tuple:
    """IR of (a superset of) the strings a capture group can hold.

    Exact for a group whose content has no anchors (the language of the group's own
    sub-pattern; the surrounding pattern can only restrict it further, so lemmas of the
    form L(group) <= X proved with it are sound)."""
    if isinstance(group, str):
        if not groupdict or group not in groupdict:
            raise KeyError("no group named %r" % group)
        group = groupdict[group]
    tr = Translator(tables, flags)
    tr.seq(tree)
    if group == 0:
        return tr.seq(tree).union_all()
    if group not in tr.group_langs:
        raise KeyError("no group %r" % group)
    return tr.group_langs[group].union_all()


def nullable(tree: list) -> bool:
    """Can the pattern match the empty string (in some context)?  Structural, on the JSON tree."""
    def nn(n) -> bool:
        op = n[0]
        if op in ("LITERAL", "NOT_LITERAL", "ANY", "IN"):
            return False
        if op == "AT":
            return True
        if op == "BRANCH":
            return any(ns(b) for b in n[1])
        if op == "SUBPATTERN":
            return ns(n[4])
        if op in ("MAX_REPEAT", "MIN_REPEAT", "POSSESSIVE_REPEAT"):
            return n[1] == 0 or ns(n[3])
        if op in ("ASSERT", "ASSERT_NOT"):
            return True
        if op == "ATOMIC_GROUP":
            return ns(n[1])
        if op == "GROUPREF":
            return True   # conservatively
        if op == "GROUPREF_EXISTS":
            return ns(n[2]) or (n[3] is None or ns(n[3]))
        raise Unsupported("regex node %s" % op)

    def ns(seq) -> bool:
        return all(nn(x) for x in seq)
    return ns(tree)


# --------------------------------------------------------------------------- ContainsAny

def contains_any_ir(strings: Sequence[str], case_insensitive: bool, tables: Tables) -> tuple:
    """IR of { x | some s in strings: s <= x }            (case-sensitive), or
             { x | some s in strings: s.lower() <= x.lower() }   (case-insensitive),
    the latter being what AhocorasickTokenizer.get_extractors computes.  `strings` must
    already be lower-cased by CPython in the case-insensitive case (dump: strings_lower)."""
    if not case_insensitive:
        return mk_cat([FULL, mk_alt([mk_lit(s) for s in strings]), FULL])
    # x.lower() is the per-code-point homomorphism h (table from CPython) except for U+03A3,
    # whose image is U+03C3 or U+03C2 depending on context.
    forbidden = set()
    for cp, res in tables.context_dependent_lower.items():
        forbidden.update(res)
    alts = []
    for l in strings:
        cps = [ord(c) for c in l]
        if forbidden & set(cps):
            raise Unsupported("literal %r contains the image of a context-dependent lower()" % l)
        alts.append(_lower_preimage_factor(cps, tables))
    return mk_cat([FULL, mk_alt(alts), FULL])


def _lower_preimage_factor(l: List[int], tables: Tables) -> tuple:
    """Minimal x-factors whose h-image covers the literal l (code points)."""
    n = len(l)
    if n == 0:
        return EPS
    multi = tables.multi
    for cp, img in multi.items():
        if len(img) != 2:
            raise Unsupported("lower() image of length %d for U+%04X" % (len(img), cp))
    pre = [mk_set(tables.lower_preimage(c)) for c in l]
    P: List[tuple] = [EMPTY] * (n + 1)
    P[n] = EPS
    for j in range(n - 1, -1, -1):
        terms = [mk_cat([pre[j], P[j + 1]])]
        for cp, (a, b) in multi.items():
            if l[j] == a:
                if j + 1 < n and l[j + 1] == b:
                    terms.append(mk_cat([mk_set(((cp, cp),)), P[j + 2]]))
                elif j + 1 == n:
                    terms.append(mk_set(((cp, cp),)))       # literal ends inside the image
        P[j] = mk_alt(terms)
    start = [P[0]]
    for cp, (a, b) in multi.items():
        if l[0] == b:
            start.append(mk_cat([mk_set(((cp, cp),)), P[1]]))  # literal starts inside the image
    return mk_alt(start)


def excluding_chars_ir(chars: Iterable[str]) -> tuple:
    """All strings that contain none of the given characters."""
    return mk_star(mk_set(ranges_minus(ALL_RANGES, [ord(c) for c in chars])))


# --------------------------------------------------------------------------- alphabet reduction (4.3)

def ir_classes(x: tuple, acc: Optional[set] = None) -> set:
    """Atomic character classes (as range tuples) that occur in the IR."""
    if acc is None:
        acc = set()
    k = x[0]
    if k == "set":
        acc.add(x[1])
    elif k == "lit":
        for c in set(x[1]):
            acc.add(((ord(c), ord(c)),))
    elif k in ("cat", "alt", "and"):
        for p in x[1]:
            ir_classes(p, acc)
    elif k in ("star", "not", "loop"):
        ir_classes(x[1], acc)
    return acc


class Alphabet:
    """Result of the alphabet reduction for one query (DESIGN 4.3, with a computed cut-off).

    Let sig(c) be the membership vector of code point c in the atomic classes of the query
    (character classes from the CPython tables, and each literal character as a singleton).
    K is the least code point such that every signature that occurs in 0..0x10FFFF occurs in
    0..K.  The query is decided over the solver alphabet 0..0x2FFFF with every class A replaced by

        A' = (A /\ [0,K])  \/  ((K, 0x2FFFF] if the top code point U+10FFFF is in A else {})

    i.e. every solver character above K is given the signature of U+10FFFF (which occurs at or
    below K).  Both c -> sig(c) on the real alphabet and the modified map on the solver alphabet
    are onto the same set of signatures, and every regular operation (union, concatenation, star,
    loop, intersection, complement, any-char) commutes with the inverse image of a length-
    preserving letter-to-letter map that is total and onto; hence the Boolean combination is
    empty over the real alphabet iff it is empty over the solver alphabet.  A model is mapped back
    to a real string by replacing characters above K by `rep_top`, a code point <= K with the
    signature of U+10FFFF.  The reduction fails (query undecided) iff K > 0x2FFFF, which
    includes the case of a literal above U+2FFFF; with K = 0x2FFFF it is exactly DESIGN 4.3."""

    def __init__(self, ok: bool, why: str, K: int = SOLVER_MAXCP, rep_top: Optional[int] = None,
                 nclasses: int = 0, nsigs: int = 0):
        self.ok, self.why, self.K, self.rep_top = ok, why, K, rep_top
        self.nclasses, self.nsigs = nclasses, nsigs
        self._memo: Dict[tuple, tuple] = {}

    def map_set(self, rs) -> Tuple[Tuple[int, int], ...]:
        """Ranges of A' over the solver alphabet."""
        rs = tuple(rs)
        got = self._memo.get(rs)
        if got is None:
            out = list(ranges_clip(rs, self.K))
            if self.K < SOLVER_MAXCP and in_ranges(rs, MAXCP):
                if out and out[-1][1] == self.K:
                    out[-1] = (out[-1][0], SOLVER_MAXCP)
                else:
                    out.append((self.K + 1, SOLVER_MAXCP))
            got = self._memo[rs] = tuple(out)
        return got

    def fix_model(self, text: str) -> str:
        if self.rep_top is None:
            return text
        return "".join(ch if ord(ch) <= self.K else chr(self.rep_top) for ch in text)


IDENTITY_ALPHABET = Alphabet(True, "identity (classes clipped at U+2FFFF, no check)")
_ALPHA_CACHE: Dict[frozenset, Alphabet] = {}


def alphabet_reduction(irs: Sequence[tuple]) -> Alphabet:
    """DESIGN 4.3, executed per query.  Returns an Alphabet; `.ok` False means undecided."""
    classes = set()
    for x in irs:
        ir_classes(x, classes)
    key = frozenset(classes)
    if key in _ALPHA_CACHE:
        return _ALPHA_CACHE[key]
    cl = sorted(classes)
    cuts = {0, MAXCP + 1}
    for rs in cl:
        for lo, hi in rs:
            cuts.add(lo)
            cuts.add(hi + 1)
    pts = sorted(cuts)
    first: Dict[tuple, int] = {}
    top_sig = None
    for a in pts[:-1]:
        sig = tuple(in_ranges(rs, a) for rs in cl)
        first.setdefault(sig, a)
        top_sig = sig
    K = max(first.values())
    if K > SOLVER_MAXCP:
        res = Alphabet(False, "a membership signature first occurs at U+%04X, above U+2FFFF" % K)
    else:
        res = Alphabet(True, "%d classes, %d signatures, all occur at or below U+%04X; solver characters above it "
                             "stand for the signature of U+10FFFF (representative U+%04X)" % (
                                 len(cl), len(first), K, first[top_sig]),
                       K=K, rep_top=first[top_sig], nclasses=len(cl), nsigs=len(first))
    _ALPHA_CACHE[key] = res
    return res


# --------------------------------------------------------------------------- IR -> SMT-LIB text

def smt_string(s: str) -> str:
    out = []
    for ch in s:
        o = ord(ch)
        if 32 <= o < 127 and ch not in '"\\':
            out.append(ch)
        else:
            out.append("\\u{%x}" % o)
    return '"' + "".join(out) + '"'


def _set_smt(rs, alpha: "Alphabet") -> str:
    rs = alpha.map_set(rs)
    if not rs:
        return "re.none"
    comp = ranges_complement(rs, SOLVER_MAXCP)

    def u(r):
        parts = ["(re.range %s %s)" % (smt_string(chr(lo)), smt_string(chr(hi))) for lo, hi in r]
        return parts[0] if len(parts) == 1 else "(re.union " + " ".join(parts) + ")"
    if not comp:
        return "re.allchar"
    if len(comp) * 2 < len(rs):
        return "(re.diff re.allchar %s)" % u(comp)
    return u(rs)


def ir_to_smtlib(x: tuple, alpha: Optional["Alphabet"] = None) -> str:
    alpha = alpha or IDENTITY_ALPHABET
    k = x[0]
    if k == "empty":
        return "re.none"
    if k == "eps":
        return '(str.to_re "")'
    if k == "any":
        return "re.allchar"
    if k == "full":
        return "re.all"
    if k == "set":
        return _set_smt(x[1], alpha)
    if k == "lit":
        return "(str.to_re %s)" % smt_string(x[1])
    if k == "cat":
        return "(re.++ " + " ".join(ir_to_smtlib(p, alpha) for p in x[1]) + ")"
    if k == "alt":
        return "(re.union " + " ".join(ir_to_smtlib(p, alpha) for p in x[1]) + ")"
    if k == "and":
        return "(re.inter " + " ".join(ir_to_smtlib(p, alpha) for p in x[1]) + ")"
    if k == "not":
        return "(re.comp %s)" % ir_to_smtlib(x[1], alpha)
    if k == "star":
        return "(re.* %s)" % ir_to_smtlib(x[1], alpha)
    if k == "loop":
        return "((_ re.loop %d %d) %s)" % (x[2], x[3], ir_to_smtlib(x[1], alpha))
    raise ValueError(k)


def emptiness_smt2(members: Sequence[tuple], non_members: Sequence[tuple] = (), var: str = "x",
                   not_containing: Sequence[str] = (), alpha: Optional["Alphabet"] = None) -> str:
    """SMT-LIB script: is there x in every `members` language, in no `non_members` language,
    and with none of `not_containing` as a substring (str.contains form of a case-sensitive
    ContainsAny)?"""
    lines = ["(set-logic QF_SLIA)", "(declare-const %s String)" % var]
    for m in members:
        lines.append("(assert (str.in_re %s %s))" % (var, ir_to_smtlib(m, alpha)))
    for m in non_members:
        lines.append("(assert (not (str.in_re %s %s)))" % (var, ir_to_smtlib(m, alpha)))
    for s in not_containing:
        lines.append("(assert (not (str.contains %s %s)))" % (var, smt_string(s)))
    lines.append("(check-sat)")
    lines.append("(get-value (%s))" % var)
    return "\n".join(lines) + "\n"


# --------------------------------------------------------------------------- IR -> z3

def ir_to_z3(x: tuple, cache: Optional[dict] = None, alpha: Optional["Alphabet"] = None):
    """z3 term of the IR.  `cache` (IR -> term) may be shared between calls that use the same `alpha`."""
    import z3
    alpha = alpha or IDENTITY_ALPHABET
    if cache is None:
        cache = {}
    S = z3.StringSort()
    RS = z3.ReSort(S)

    def rng(lo, hi):
        return z3.Range(chr(lo), chr(hi))

    def uni(parts):
        return parts[0] if len(parts) == 1 else z3.Union(*parts)

    def go(x):
        if x in cache:
            return cache[x]
        k = x[0]
        if k == "empty":
            r = z3.Empty(RS)
        elif k == "eps":
            r = z3.Re("")
        elif k == "any":
            r = z3.AllChar(RS)
        elif k == "full":
            r = z3.Full(RS)
        elif k == "set":
            rs = alpha.map_set(x[1])
            if not rs:
                r = z3.Empty(RS)
            else:
                comp = ranges_complement(rs, SOLVER_MAXCP)
                if not comp:
                    r = z3.AllChar(RS)
                elif len(comp) * 2 < len(rs):
                    r = z3.Diff(z3.AllChar(RS), uni([rng(lo, hi) for lo, hi in comp]))
                else:
                    r = uni([rng(lo, hi) for lo, hi in rs])
        elif k == "lit":
            r = z3.Re(x[1])
        elif k == "cat":
            r = z3.Concat(*[go(p) for p in x[1]])
        elif k == "alt":
            r = z3.Union(*[go(p) for p in x[1]])
        elif k == "and":
            r = z3.Intersect(*[go(p) for p in x[1]])
        elif k == "not":
            r = z3.Complement(go(x[1]))
        elif k == "star":
            r = z3.Star(go(x[1]))
        elif k == "loop":
            r = z3.Loop(go(x[1]), x[2], x[3])
        else:
            raise ValueError(k)
        cache[x] = r
        return r
    return go(x)


def z3_string_value(v) -> str:
    """Python str of a z3 string value (undoing z3's \\u{..} escapes)."""
    import re as _re
    s = v.as_string()
    return _re.sub(r"\\u\{([0-9a-fA-F]+)\}", lambda m: chr(int(m.group(1), 16)), s)


# --------------------------------------------------------------------------- z3-level API

def to_re(tree: list, flags: int, tables):
    """z3 regular expression for the strings the pattern fully matches."""
    return ir_to_z3(fullmatch_ir(tree, flags, load_tables(tables)))


def search_language(tree: list, flags: int, tables):
    """z3 regular expression for L_search: texts that contain a match."""
    return ir_to_z3(search_ir(tree, flags, load_tables(tables)))


def contains_any(strings: Sequence[str], case_insensitive: bool, tables):
    """z3 regular expression for the texts that pass the Aho-Corasick filter on `strings`."""
    t = load_tables(tables)
    if case_insensitive:
        strings = [_lower_via_table(s, t) for s in strings]
    return ir_to_z3(contains_any_ir(strings, case_insensitive, t))


def group_language(tree: list, group, flags: int = 0, tables=None, groupdict: Optional[dict] = None):
    """z3 regular expression for (a superset of) what the given group can capture."""
    return ir_to_z3(group_ir(tree, group, flags, load_tables(tables), groupdict))


def _lower_via_table(s: str, t: Tables) -> str:
    out = []
    for ch in s:
        if ord(ch) in t.context_dependent_lower:
            raise Unsupported("context-dependent lower() of %r" % ch)
        img = t.lower_map.get(ord(ch))
        out.append(ch if img is None else "".join(map(chr, img)))
    return "".join(out)
