"""Portfolio discharge of obligations: z3 5.1 (z3-new), z3 4.8.12 (/usr/bin/z3), cvc5 1.0.3.

An obligation is  assumptions |- goal.  It is emitted as SMT-LIB text
(assumptions, not goal, check-sat, get-value of the terms of interest) and
given to the solvers as sub-processes, so that every timeout is a hard kill
and the 16 cores are used by a thread pool.  Verdicts:

  unsat   -> discharged (for all values of every symbol in the query)
  sat     -> refuted at contract level; `values` holds the solver's witness
  unknown -> undecided (never a violation)
"""
from __future__ import annotations

import os
import re
import subprocess
import tempfile
import time
from concurrent.futures import ThreadPoolExecutor
from dataclasses import dataclass, field
from typing import Any, Dict, List, Optional

import z3

Z3NEW = "z3-new"
Z3OLD = "/usr/bin/z3"
CVC5 = "/usr/bin/cvc5"

SOLVER_CMDS = {
    "z3-5.1": lambda f, t: [Z3NEW, f"-T:{max(1, int(t))}", "-smt2", f],
    "z3-4.8.12": lambda f, t: [Z3OLD, f"-T:{max(1, int(t))}", "-smt2", f],
    "cvc5-1.0.3": lambda f, t: [
        CVC5, "--lang=smt2", "--strings-exp", "--produce-models",
        f"--tlimit={int(t * 1000)}", f],
}


def checker_cmd_text() -> str:
    return ("z3-new -T:<s> -smt2 <obl>.smt2 | /usr/bin/z3 -T:<s> -smt2 <obl>.smt2 | "
            "/usr/bin/cvc5 --lang=smt2 --strings-exp --produce-models --tlimit=<ms> <obl>.smt2 "
            "(staged portfolio, first definite answer wins)")


@dataclass
class Obligation:
    name: str                       # module.func/kind:label
    assumptions: List[Any]
    goal: Any
    interest: Dict[str, Any] = field(default_factory=dict)   # label -> z3 term
    prop: str = ""                  # property id it serves
    kind: str = "post"              # post | inv | pre | safety | lemma | cover | canary
    expect: str = "unsat"           # cover/canary obligations expect "sat"
    info: Dict[str, Any] = field(default_factory=dict)
    # results
    status: str = "pending"         # discharged | refuted | undecided
    solver: str = ""
    seconds: float = 0.0
    values: Dict[str, Any] = field(default_factory=dict)
    raw: str = ""
    smt2: str = ""

    def to_smt2(self) -> str:
        if self.smt2:
            return self.smt2
        s = z3.Solver()
        for a in self.assumptions:
            s.add(a)
        s.add(z3.Not(self.goal))
        body = s.to_smt2()
        # to_smt2 ends with (check-sat); add the value query
        lines = ["(set-logic ALL)"]
        lines.append(body)
        if self.interest:
            terms = " ".join(t.sexpr().replace("\n", " ") for t in self.interest.values())
            lines.append(f"(get-value ({terms}))")
        self.smt2 = "\n".join(lines) + "\n"
        return self.smt2


# ---------------------------------------------------------------- s-expr values

_TOK = re.compile(r'\(|\)|"(?:[^"]|"")*"|[^\s()]+')


def parse_sexprs(text: str):
    toks = _TOK.findall(text)
    pos = 0

    def rd():
        nonlocal pos
        t = toks[pos]
        pos += 1
        if t == "(":
            out = []
            while toks[pos] != ")":
                out.append(rd())
            pos += 1
            return out
        return t
    res = []
    while pos < len(toks):
        res.append(rd())
    return res


def _unescape_smt_string(s: str) -> str:
    s = s[1:-1].replace('""', '"')

    def rep(m):
        return chr(int(m.group(1) or m.group(2), 16))
    return re.sub(r"\\u\{([0-9a-fA-F]+)\}|\\u([0-9a-fA-F]{4})", rep, s)


def sexpr_value(v):
    """Best-effort conversion of a get-value result to a Python value."""
    if isinstance(v, str):
        if v.startswith('"'):
            return _unescape_smt_string(v)
        if v == "true":
            return True
        if v == "false":
            return False
        if re.fullmatch(r"-?\d+", v):
            return int(v)
        return v
    if isinstance(v, list):
        if len(v) == 2 and v[0] == "-" :
            inner = sexpr_value(v[1])
            if isinstance(inner, int):
                return -inner
        if len(v) == 3 and v[0] == "_" and v[1] in ("char", "Char"):
            return chr(int(v[2][2:], 16))
        return [sexpr_value(x) for x in v]
    return v


def _run(solver: str, path: str, timeout: float):
    cmd = SOLVER_CMDS[solver](path, timeout)
    t0 = time.time()
    try:
        p = subprocess.run(cmd, capture_output=True, text=True, timeout=timeout + 5)
        out = p.stdout
    except subprocess.TimeoutExpired:
        out = "timeout"
    dt = time.time() - t0
    first = out.strip().splitlines()[0].strip() if out.strip() else "unknown"
    if first not in ("sat", "unsat"):
        # z3 prints errors as (error ...) lines before the verdict sometimes
        m = re.search(r"^(sat|unsat|unknown)\s*$", out, re.M)
        verdict = m.group(1) if m else "unknown"
    else:
        verdict = first
    return verdict, dt, out


def _decide(obl: Obligation, budget: float, confirm: bool, tmpdir: str):
    text = obl.to_smt2()
    path = os.path.join(tmpdir, re.sub(r"[^A-Za-z0-9_.-]", "_", obl.name)[:120] + f"_{id(obl)}.smt2")
    with open(path, "w") as f:
        f.write(text)
    total = 0.0
    verdicts = []
    # stage 1: quick z3-new; stage 2: the two others; stage 3: z3-new full budget
    if obl.kind in ("cover", "canary"):
        # vacuity guards: a satisfiability query; only a PROOF of unsat is a failure, so a short budget suffices
        stages = [("z3-5.1", min(3.0, budget))]
        confirm = False
    else:
        # z3 5.1 first with the quick budget (it decides ~98 % of the obligations; one pin-cite window obligation needs ~8 s), then the others;
        # a last z3 5.1 stage only when the budget is larger than the first stage's
        stages = [("z3-5.1", min(10.0, budget)), ("cvc5-1.0.3", budget), ("z3-4.8.12", budget)] + ([("z3-5.1", budget)] if budget > 10.0 else [])
    decided = None
    for solver, t in stages:
        verdict, dt, out = _run(solver, path, t)
        total += dt
        verdicts.append((solver, verdict, round(dt, 3)))
        if verdict in ("sat", "unsat"):
            if decided is None:
                decided = (solver, verdict, out)
                if not (confirm and verdict == "unsat"):
                    break
            else:
                # confirmation run
                if verdict != decided[1]:
                    decided = ("disagree", "unknown", out)
                break
    try:
        os.unlink(path)
    except OSError:
        pass
    obl.seconds = round(total, 3)
    obl.info["solver_runs"] = verdicts
    if decided is None:
        obl.status = "undecided"
        obl.solver = "none"
        return obl
    solver, verdict, out = decided
    obl.solver = solver
    obl.raw = out[:4000]
    if verdict == "unsat":
        obl.status = "discharged"
    elif verdict == "sat":
        obl.status = "refuted"
        # parse get-value
        try:
            idx = out.index("\n")
            sx = parse_sexprs(out[idx:])
            if sx and obl.interest:
                pairs = sx[0]
                labels = list(obl.interest.keys())
                for lab, pr in zip(labels, pairs):
                    obl.values[lab] = sexpr_value(pr[1])
        except Exception as e:  # value parsing is a replay aid only
            obl.info["value_parse_error"] = repr(e)
    else:
        obl.status = "undecided"
    return obl


def discharge(obls: List[Obligation], tier: str = "quick", jobs: Optional[int] = None) -> List[Obligation]:
    budget = float(os.environ.get("PYVC_BUDGET", 10 if tier == "quick" else 120))
    confirm = tier == "thorough"
    jobs = jobs or int(os.environ.get("PYVC_JOBS", "12"))
    tmpdir = tempfile.mkdtemp(prefix="pyvc_")
    # obligations decided by another back end (AST classification, Lean, regex engine) keep their verdict
    all_obls = obls
    obls = [o for o in obls if o.status == "pending"]
    # serialise in the main thread: z3's Python API is not thread-safe
    for o in obls:
        o.to_smt2()
    try:
        with ThreadPoolExecutor(max_workers=jobs) as ex:
            list(ex.map(lambda o: _decide(o, budget, confirm, tmpdir), obls))
        # second chance for the few obligations left undecided (solver time varies with machine load):
        # a longer budget, fewer in flight
        retry = [o for o in obls if o.status == "undecided" and o.kind not in ("cover", "canary")]
        if retry and not os.environ.get("PYVC_NO_RETRY"):
            first = {id(o): list(o.info.get("solver_runs", [])) for o in retry}
            with ThreadPoolExecutor(max_workers=max(2, jobs // 3)) as ex:
                list(ex.map(lambda o: _decide(o, budget * 6, confirm, tmpdir), retry))
            for o in retry:
                o.info["solver_runs"] = first[id(o)] + [("retry",)] + list(o.info.get("solver_runs", []))
    finally:
        try:
            for f in os.listdir(tmpdir):
                os.unlink(os.path.join(tmpdir, f))
            os.rmdir(tmpdir)
        except OSError:
            pass
    return all_obls
