"""Models of builtins, str/list/dict methods, `re` and match objects.

These are the *assumed external contracts* of DESIGN section 3 (E-STR, E-RE-SPAN,
`sorted`, E-BISECT, ...).  Each model records itself in engine.trusted when used.
"""
from __future__ import annotations

import ast
from typing import Dict, List, Optional

import z3

from .engine import (And, Engine, I, Implies, Not, Or, S, State, Unsupported, BindingError)
from .values import ForAllP
from .values import (ANYOBJ, BOOL, DICT, FALSE, INT, NONE, OBJ, SEQ, SETOF, STR, STR_CID, TRUE, TUP, MapV, Obj, SeqV, SV,
                     Ty, class_of, flat_sorts, fresh_name, fresh_sv, from_flat, is_false, is_true, ite_sv, none_sv,
                     obj_id, parse_type, strval, to_flat, unify)

# ---- match objects (E-RE-SPAN) -------------------------------------------------
m_text = z3.Function("m_text", Obj, z3.StringSort())
m_gstart = z3.Function("m_gstart", Obj, z3.StringSort(), z3.IntSort())
m_gend = z3.Function("m_gend", Obj, z3.StringSort(), z3.IntSort())
m_ghas = z3.Function("m_ghas", Obj, z3.StringSort(), z3.BoolSort())
m_pos = z3.Function("m_pos", Obj, z3.IntSort())          # position in finditer order

# ---- string spec functions -------------------------------------------------------
str_lower = z3.Function("str_lower", z3.StringSort(), z3.StringSort())
str_isdigit = z3.Function("str_isdigit", z3.StringSort(), z3.BoolSort())
str_isupper = z3.Function("str_isupper", z3.StringSort(), z3.BoolSort())
int_ok = z3.Function("int_ok", z3.StringSort(), z3.BoolSort())          # int(s) does not raise
str_to_int = z3.Function("str_to_int", z3.StringSort(), z3.IntSort())   # value of int(s) when int_ok
re_escape = z3.Function("re_escape", z3.StringSort(), z3.StringSort())

DIGITS = z3.Plus(z3.Range("0", "9"))


def _mentions_bound_var(t) -> bool:
    seen = set()
    stack = [t]
    while stack:
        x = stack.pop()
        if x.get_id() in seen:
            continue
        seen.add(x.get_id())
        if z3.is_const(x) and x.decl().kind() == z3.Z3_OP_UNINTERPRETED and x.decl().name().startswith("q_"):
            return True
        stack.extend(x.children())
    return False


def int_axioms(e: Engine, st: State, s):
    """What is assumed about int(s) and str.isdigit() (E-INT), with the code-point classes read from the
    CPython that runs eyecite: int() accepts 1..4300 decimal digits (Unicode Nd), agrees with str.to_int on
    ASCII digits, raises beyond CPython's 4300-digit limit and on isdigit()-but-not-decimal characters
    such as superscripts; s.isdigit() <=> every character is an isdigit() character and s is non-empty."""
    from .cpy_tables import char_class, tables
    key = s.sexpr()
    if "q_" in key and _mentions_bound_var(s):
        return          # a term under a quantifier of a specification: facts about it with the bound variable free would say nothing
    done = st.__dict__.setdefault("_int_ax", set())
    if key in done:
        return
    done.add(key)
    D = char_class("re_d")
    maxd = tables()["max_str_digits"]
    st.assume(Implies(z3.InRe(s, z3.Loop(D, 1, maxd)), And(int_ok(s), str_to_int(s) >= 0)))
    st.assume(Implies(And(z3.InRe(s, z3.Plus(D)), z3.Length(s) <= maxd), And(int_ok(s), str_to_int(s) >= 0)))
    st.assume(Implies(z3.InRe(s, z3.Loop(z3.Range("0", "9"), 1, maxd)), str_to_int(s) == z3.StrToInt(s)))
    st.assume(Implies(And(z3.InRe(s, z3.Plus(D)), z3.Length(s) > maxd), Not(int_ok(s))))
    st.assume(str_isdigit(s) == z3.InRe(s, z3.Plus(char_class("isdigit"))))
    st.assume(Implies(And(str_isdigit(s), Not(z3.InRe(s, z3.Plus(D)))), Not(int_ok(s))))
    e.trust("E-INT: int(s)/str.isdigit() per CPython tables: int accepts 1..4300 Unicode decimal digits, equals str.to_int on ASCII digits, raises ValueError beyond sys.get_int_max_str_digits() and on non-decimal isdigit() characters")


def match_group_sv(e: Engine, st: State, m: SV, g) -> SV:
    """m[g] for a group key g (z3 String)."""
    st.assume(Implies(m_ghas(m.v, g),
                      And(m_gstart(m.v, S("0")) <= m_gstart(m.v, g), m_gstart(m.v, g) <= m_gend(m.v, g),
                          m_gend(m.v, g) <= m_gend(m.v, S("0")))))
    match_axioms(e, st, m)
    return SV(STR, z3.SubString(m_text(m.v), m_gstart(m.v, g), m_gend(m.v, g) - m_gstart(m.v, g)), Not(m_ghas(m.v, g)))


def match_axioms(e: Engine, st: State, m: SV):
    z = S("0")
    st.assume(And(m_ghas(m.v, z), 0 <= m_gstart(m.v, z), m_gstart(m.v, z) <= m_gend(m.v, z),
                  m_gend(m.v, z) <= z3.Length(m_text(m.v))))
    e.trust("E-RE-SPAN: match objects: 0 <= start(0) <= start(g) <= end(g) <= end(0) <= len(text), m[g] == text[start(g):end(g)], non-participating group is None")


def group_key(e: Engine, g: SV):
    if g.ty.kind == "str":
        return g.v
    if g.ty.kind == "int":
        iv = z3.simplify(g.v)
        if z3.is_int_value(iv):
            return S("0") if iv.as_long() == 0 else S(f"#{iv.as_long()}")
    raise Unsupported("match group key")


def _engine_match_group(self, st, recv, idx):
    self.may_raise("TypeError", recv.none, "match-none")
    return match_group_sv(self, st, recv, group_key(self, idx))


Engine.match_group = _engine_match_group


# ---------------------------------------------------------------------------- call dispatch

def call(e: Engine, n: ast.Call, st: State) -> SV:
    # special syntactic forms first
    if isinstance(n.func, ast.Name):
        name = n.func.id
        if e.spec_mode:
            from . import specfuncs
            r = specfuncs.spec_call(e, name, n, st)
            if r is not None:
                return r
        if name == "cast" and name not in st.store:
            v = e.ev(n.args[1], st)
            t = e.ann_type(n.args[0], e.fn.module)
            if t is not None and t.kind == "obj" and v.ty.kind == "obj":
                return SV(t, v.v, v.none, v.tag)
            return v
        if name == "isinstance" and name not in st.store:
            return isinstance_(e, n, st)
        if name == "getattr" and name not in st.store and len(n.args) >= 2:
            return getattr_(e, n, st)
        if name == "super" and name not in st.store:
            return SV(Ty("func"), None, tag=("super",))
    f = e.ev(n.func, st)
    if f.ty.kind == "obj" and e.static_class(st, f) == "Partial":
        return call_partial(e, st, f, [e.ev(a, st) for a in n.args])
    if f.ty.kind == "obj" and e.reg.specs.get("apply_dynamic") is not None:
        return e.reg.specs["apply_dynamic"](e, st, f, [e.ev(a, st) for a in n.args])
    if f.ty.kind != "func":
        raise Unsupported(f"call of non-function value {ast.unparse(n.func)}")
    tag = f.tag
    kind = tag[0]
    if kind == "lambda":
        args = [e.ev(a, st) for a in n.args]
        return apply_lambda(e, st, tag[1], args)
    if kind == "deflambda":
        args = [e.ev(a, st) for a in n.args]
        return apply_def(e, st, tag[1], tag[2], args)
    # logger.* calls are no-ops (assumed not to raise) -- DESIGN 1.1
    if kind == "attr" and tag[1] == ("builtin", "logger"):
        return none_sv()
    if kind == "attr" and tag[1] == ("super",):
        tag = ("bound", SV(Ty("func"), None, tag=("super",)), tag[2])
        kind = "bound"
    if kind == "bound" and isinstance(tag[1], SV) and tag[1].ty.kind == "func" and tag[1].tag == ("super",):
        # super().method(...)
        cls = e.fn.cls
        mro = e.repo.mro(cls)
        for c in mro[1:]:
            if tag[2] in e.repo.classes[c].methods:
                q = f"{e.repo.classes[c].module}.{c}.{tag[2]}"
                args = [st.store["self"]] + [e.ev(a, st) for a in n.args]
                kw = {k.arg: e.ev(k.value, st) for k in n.keywords}
                return finish_call(e, st, q, args, kw, n, [None] + list(n.args))
        raise Unsupported("super() target")
    args = []
    for a in n.args:
        if isinstance(a, ast.Starred):
            raise Unsupported("*args")
        # empty list literals take their element type from the callee's parameter later
        args.append(e.ev(a, st))
    kw = {}
    for k in n.keywords:
        if k.arg is None:
            return call_with_starstar(e, st, f, n, args)
        kw[k.arg] = e.ev(k.value, st)
    if kind == "builtin":
        return builtin(e, st, tag[1], args, kw, n)
    if kind == "func":
        return finish_call(e, st, tag[1], args, kw, n, list(n.args))
    if kind == "class":
        return construct(e, st, tag[1], args, kw, n)
    if kind == "bound":
        return method(e, st, tag, args, kw, n)
    if kind == "re":
        return re_call(e, st, tag[1], args, kw, n)
    if kind == "attr":
        return attr_call(e, st, tag, args, kw, n)
    if kind == "nested":
        return inline_nested(e, st, tag[1], args, kw)
    if kind == "partial":
        fn, pkw = tag[1], tag[2]
        allkw = dict(pkw)
        allkw.update(kw)
        return inline_nested(e, st, fn, args, allkw)
    if kind == "dyn":
        fn = e.reg.specs.get("apply_dynamic")
        if fn is None:
            raise Unsupported("call of a dynamically selected function without an apply_dynamic spec")
        return fn(e, st, tag[1], args)
    if kind == "choice":
        # (f if c else g)(...): both callees by contract, results merged
        cnd, fa, fb = tag[1], tag[2], tag[3]
        import copy
        na, nb = copy.copy(n), copy.copy(n)
        e.guards.append(cnd)
        ra = call_func_sv(e, st, fa, args, kw, n)
        e.guards[-1] = Not(cnd)
        rb = call_func_sv(e, st, fb, args, kw, n)
        e.guards.pop()
        return ite_sv(cnd, ra, rb)
    if kind == "metadata_ctor":
        raise Unsupported("self.Metadata(...) outside constructor model")
    raise Unsupported(f"call of {tag}")


def call_func_sv(e: Engine, st: State, f: SV, args, kw, n) -> SV:
    tag = f.tag
    if tag[0] == "func":
        return finish_call(e, st, tag[1], args, kw, n, list(n.args))
    if tag[0] == "bound":
        return method(e, st, tag, args, kw, n)
    raise Unsupported(f"call of {tag}")


def finish_call(e: Engine, st: State, q: str, args, kw, n, argnodes) -> SV:
    res = e.call_function(st, q, args, kw, n)
    c = e.reg.contracts[q]
    # mutated sequence parameters: rebind caller's l-values
    bound = getattr(e, "_post_call_bound", {})
    params, _ = e.signature(q)
    for path in c.modifies:
        if "." not in path and path in params:
            idx = params.index(path)
            node = argnodes[idx] if idx < len(argnodes) else None
            if node is None:
                for k in n.keywords:
                    if k.arg == path:
                        node = k.value
            if node is not None and not e.spec_mode:
                e.update_lvalue(node, bound[path], st)
    return res


def apply_lambda(e: Engine, st: State, lam: ast.Lambda, args: List[SV]) -> SV:
    env = {a.arg: v for a, v in zip(lam.args.args, args)}
    e.lambda_env.append(env)
    try:
        return e.ev(lam.body, st)
    finally:
        e.lambda_env.pop()


def apply_def(e: Engine, st: State, name: str, lam: ast.Lambda, args: List[SV]) -> SV:
    """Named spec predicate: abstracted to an uninterpreted function with a definitional axiom
    (keeps quantified invariants small; the function symbol is shared whenever the expanded body is identical)."""
    if not args or not all(a.ty.kind == "int" for a in args):
        return apply_lambda(e, st, lam, args)
    vars_ = [z3.Int(f"q_{name}!a{i}") for i in range(len(args))]       # "q_": bound variable (no per-term facts are emitted for it)
    body = apply_lambda(e, st, lam, [SV(INT, v) for v in vars_])
    bt = e.truthy(st, body)
    key = (name, bt.sexpr())
    cache = e.__dict__.setdefault("_def_cache", {})
    if key not in cache:
        f = z3.Function(f"{name}#{len(cache)}", *([z3.IntSort()] * len(args) + [z3.BoolSort()]))
        cache[key] = (f, ForAllP(vars_, f(*vars_) == bt, patterns=[f(*vars_)]))
    f, ax = cache[key]
    if key not in st.defs_assumed:
        st.defs_assumed.add(key)
        st.pc.append(ax)
    return SV(BOOL, f(*[a.v for a in args]))


def call_partial(e: Engine, st: State, p: SV, args: List[SV]) -> SV:
    """Call a functools.partial of one of the function's nested defs: the nested def bodies (single returns) are
    inlined from the AST, selected by the stored function code."""
    e.may_raise("TypeError", p.none, "call-none")
    names = sorted(e.nested_defs) if e.nested_defs else sorted(getattr(e, "partial_defs", {}))
    defs = e.nested_defs if e.nested_defs else getattr(e, "partial_defs", {})
    fn = e.load_field(st, p, "fn")
    kw0 = e.load_field(st, p, "kw0")
    out = None
    for idx, nm in enumerate(names):
        node = defs[nm]
        params = [a.arg for a in node.args.args]
        kwname = params[len(args)] if len(params) > len(args) else None
        r = inline_nested_node(e, st, node, args, {kwname: kw0} if kwname else {})
        out = r if out is None else ite_sv(fn.v == idx, r, out)
    return out


def inline_nested_node(e: Engine, st: State, node, args, kw) -> SV:
    body = [b for b in node.body if not (isinstance(b, ast.Expr) and isinstance(b.value, ast.Constant))]
    if len(body) != 1 or not isinstance(body[0], ast.Return):
        raise Unsupported(f"nested def {node.name} is not a single return")
    params = [a.arg for a in node.args.args]
    env = dict(zip(params, args))
    env.update(kw)
    e.lambda_env.append(env)
    try:
        return e.ev(body[0].value, st)
    finally:
        e.lambda_env.pop()


def inline_nested(e: Engine, st: State, name: str, args, kw) -> SV:
    """Nested defs are inlined when their body is a single return (shift_offset, replace_offset)."""
    node = e.nested_defs[name]
    body = [b for b in node.body if not (isinstance(b, ast.Expr) and isinstance(b.value, ast.Constant))]
    if len(body) != 1 or not isinstance(body[0], ast.Return):
        raise Unsupported(f"nested def {name} is not a single return")
    params = [a.arg for a in node.args.args]
    env = dict(zip(params, args))
    env.update(kw)
    e.lambda_env.append(env)
    try:
        return e.ev(body[0].value, st)
    finally:
        e.lambda_env.pop()


def isinstance_(e: Engine, n: ast.Call, st: State) -> SV:
    v = e.ev(n.args[0], st)
    cn = n.args[1]
    names = [x.id for x in cn.elts] if isinstance(cn, ast.Tuple) else [cn.id]
    res = FALSE
    for name in names:
        if name == "str":
            if v.ty.kind == "str":
                r = Not(v.none)
            elif v.ty.kind == "obj":
                r = And(Not(v.none), class_of(v.v) == STR_CID)
            else:
                r = FALSE
        elif name == "dict":
            r = And(Not(v.none), z3.BoolVal(v.ty.kind == "dict"))
        elif name in e.repo.classes:
            if v.ty.kind == "obj":
                r = And(Not(v.none), e.class_in(v.v, name))
            else:
                r = FALSE
        else:
            raise Unsupported(f"isinstance(.., {name})")
        res = Or(res, r)
    return SV(BOOL, res)


def getattr_(e: Engine, n: ast.Call, st: State) -> SV:
    recv = e.ev(n.args[0], st)
    key = e.ev(n.args[1], st)
    dflt = e.ev(n.args[2], st) if len(n.args) == 3 else None
    if key.tag and key.tag[0] == "oneof":
        # the loop variable of a `for` over a literal list of names: case split over the (source-constant) candidates
        cands = list(key.tag[1])
        res = _getattr_lit(e, st, recv, cands[-1], dflt)
        for c in reversed(cands[:-1]):
            res = ite_sv(key.v == S(c), _getattr_lit(e, st, recv, c, dflt), res)
        return res
    if not (key.tag and key.tag[0] == "lit"):
        raise Unsupported("getattr with non-literal key")
    return _getattr_lit(e, st, recv, key.tag[1], dflt)


def _getattr_lit(e: Engine, st: State, recv: SV, fname: str, dflt) -> SV:
    if dflt is not None:
        try:
            owner, _ = e.resolve_field(st, recv, fname)
        except Unsupported:
            return dflt
        if owner.endswith(".Metadata") or owner == "Metadata*":
            has = And(Not(recv.none), e.metadata_has_field(recv.v, fname))
            saved = e.spec_mode
            e.spec_mode = True          # the load itself cannot raise: guarded by `has`
            try:
                val = e.load_field(st, recv, fname)
            finally:
                e.spec_mode = saved
            return ite_sv(has, val, dflt)
        return e.load_field(st, recv, fname)
    return e.load_field(st, recv, fname)


# ---------------------------------------------------------------------------- builtins

def builtin(e: Engine, st: State, name: str, args: List[SV], kw: Dict[str, SV], n: ast.Call) -> SV:
    if name == "len":
        a = args[0]
        e.may_raise("TypeError", a.none, "len-none")
        if a.ty.kind == "str":
            return SV(INT, z3.Length(a.v))
        if a.ty.kind == "seq":
            return SV(INT, a.v.len)
        if a.ty.kind == "tuple":
            return SV(INT, I(len(a.v)))
        if a.ty.kind == "obj":
            return SV(INT, z3.Length(strval(a.v)))
        if a.ty.kind == "small":
            return SV(INT, sum([z3.If(c, I(1), I(0)) for c, _ in a.v], I(0)))
        if a.ty.kind == "set" and a.tag and a.tag[0] == "setofseq":
            return SV(INT, set_card(e, st, a))
        raise Unsupported(f"len of {a.ty}")
    if name in ("min", "max"):
        return minmax(e, st, name, args, kw)
    if name == "int":
        a = args[0]
        if a.ty.kind == "int":
            return a
        if a.ty.kind == "str":
            int_axioms(e, st, a.v)
            e.may_raise("TypeError", a.none, "int-none")
            e.may_raise("ValueError", Not(int_ok(a.v)), "int")
            return SV(INT, str_to_int(a.v))
        raise Unsupported("int() of " + str(a.ty))
    if name == "str":
        a = args[0]
        if a.ty.kind == "str":
            return a
        if a.ty.kind == "obj":
            cls = e.static_class(st, a)
            return SV(STR, strval(a.v))
        if a.ty.kind == "int":
            return SV(STR, z3.IntToStr(a.v))
        raise Unsupported("str() of " + str(a.ty))
    if name == "type":
        return SV(Ty("func"), None, tag=("typeof", args[0]))
    if name in ("list", "tuple"):
        if not args:
            return e.seq_from_items([], getattr(e, "_list_hint", None).elts[0] if getattr(e, "_list_hint", None) else None)
        a = args[0]
        if a.ty.kind in ("seq", "small"):
            if a.tag and a.tag[0] == "setofseq" or a.ty.kind == "set":
                pass
            return a
        if a.ty.kind == "tuple":
            return a
        if a.ty.kind == "set":
            return list_of_set(e, st, a)
        if a.ty.kind == "seq":
            return a
        raise Unsupported(f"{name}() of {a.ty}")
    if name == "set":
        if not args:
            return SV(Ty("small"), [])
        a = args[0]
        if a.ty.kind == "seq":
            return SV(SETOF(a.ty.elts[0]), a.v, tag=("setofseq", a))
        raise Unsupported("set() of " + str(a.ty))
    if name == "sorted":
        return sorted_(e, st, args, kw)
    if name == "filter":
        lam, xs = args
        if xs.ty.kind == "seq" and xs.tag and xs.tag[0] == "items":
            items = xs.tag[1]
        elif xs.ty.kind == "tuple":
            items = xs.v
        else:
            raise Unsupported("filter over non-literal sequence")
        out = []
        for it in items:
            if lam.ty.kind == "none":
                c = e.truthy(st, it)            # filter(None, xs): keeps the truthy elements
            else:
                c = e.truthy(st, apply_lambda(e, st, lam.tag[1], [it]))
            out.append((c, it))
        return SV(Ty("small"), out)
    if name == "callable":
        a = args[0]
        if a.ty.kind == "obj":
            fn = e.reg.specs.get("is_callable")
            if fn is not None:
                return fn(e, st, a)
        return SV(BOOL, z3.BoolVal(a.ty.kind == "func")) if a.ty.kind in ("func", "str", "int") else SV(BOOL, z3.Bool(fresh_name("callable")))
    if name == "range":
        return range_(e, st, args)
    if name == "enumerate":
        xs = e.as_seq(st, args[0]) if args[0].ty.kind != "str" else str_as_seq(e, st, args[0])
        return SV(Ty("enum"), xs)
    if name == "partial":
        f = args[0]
        if f.tag[0] != "nested":
            raise Unsupported("partial of non-nested function")
        # functools.partial(nested_def, **kw): a callable object remembering which nested def and the keyword values
        names = sorted(e.nested_defs)
        o = e.new_obj(st, "Partial", base="partial")
        saved = e.pending_raises
        e.pending_raises = []
        e.store_field(st, o, "fn", SV(INT, I(names.index(f.tag[1]))))
        kws = sorted(kw)
        if len(kws) > 1:
            raise Unsupported("partial with more than one keyword")
        if kws:
            e.store_field(st, o, "kw0", kw[kws[0]])
        e.pending_raises = saved
        return o
    if name == "id":
        return SV(INT, obj_id(args[0].v))
    if name == "hash":
        a = args[0]
        fn = e.reg.specs.get("hash_of")
        if fn is None:
            raise Unsupported("hash() without hash_of spec")
        return fn(e, st, a)
    if name in ("any", "all"):
        xs = args[0]
        if xs.ty.kind != "seq":
            raise Unsupported(f"{name}() over {xs.ty}")
        j = z3.Int(fresh_name("aj"))
        el = e.seq_get(xs, j)
        t = e.truthy(st, el)
        if name == "any":
            return SV(BOOL, z3.Exists([j], And(j >= 0, j < xs.v.len, t)))
        return SV(BOOL, ForAllP([j], Implies(And(j >= 0, j < xs.v.len), t)))
    if name == "defaultdict":
        hint = getattr(e, "_list_hint", None)
        if hint is None or hint.kind != "dict":
            raise Unsupported("defaultdict() without a declared dict type")
        ty = Ty("dict", "defaultdict", hint.elts)
        sorts = flat_sorts(ty)
        from .values import _default_of_sort
        comps = [_default_of_sort(x) for x in sorts]
        sv = from_flat(ty, comps)
        sv.none = FALSE
        return sv
    if name in ("bisect_left", "bisect_right"):
        return bisect_(e, st, name, args)
    raise Unsupported(f"builtin {name}")


def str_as_seq(e: Engine, st: State, s: SV) -> SV:
    out = fresh_sv(SEQ(STR), "chars", optional=False)
    j = z3.Int(fresh_name("j"))
    st.assume(out.v.len == z3.Length(s.v))
    st.assume(ForAllP([j], Implies(And(j >= 0, j < out.v.len),
                                     And(z3.Select(out.v.arrs[0], j) == z3.SubString(s.v, j, 1), Not(z3.Select(out.v.arrs[1], j)))),
                        patterns=[z3.Select(out.v.arrs[0], j)]))
    out.tag = ("chars", s)
    return out


def range_(e: Engine, st: State, args: List[SV]) -> SV:
    if len(args) == 1:
        lo, hi, step = I(0), args[0].v, 1
    elif len(args) == 2:
        lo, hi, step = args[0].v, args[1].v, 1
    else:
        lo, hi = args[0].v, args[1].v
        sv = z3.simplify(args[2].v)
        if not z3.is_int_value(sv):
            raise Unsupported("symbolic range step")
        step = sv.as_long()
        if step not in (1, -1):
            raise Unsupported("range step other than +-1")
    n = z3.If(hi - lo > 0, hi - lo, I(0)) if step == 1 else z3.If(lo - hi > 0, lo - hi, I(0))
    return SV(Ty("range"), (lo, n, step))


def minmax(e: Engine, st: State, name: str, args: List[SV], kw) -> SV:
    def pick(a, b):
        return z3.If(a <= b, a, b) if name == "min" else z3.If(a >= b, a, b)
    if len(args) >= 2:
        if not all(a.ty.kind == "int" for a in args):
            raise Unsupported("min/max of non-ints")
        for a in args:
            e.may_raise("TypeError", a.none, "minmax-none")
        r = args[0].v
        for a in args[1:]:
            r = pick(r, a.v)
        return SV(INT, r)
    a = args[0]
    if a.ty.kind == "small":
        default = kw.get("default")
        acc_v, acc_has = I(0), FALSE
        for c, it in a.v:
            if it.ty.kind == "none":
                continue
            e.may_raise("TypeError", And(c, it.none), "minmax-none")
            acc_v = z3.If(c, z3.If(acc_has, pick(acc_v, it.v), it.v), acc_v)
            acc_has = Or(acc_has, c)
        if default is None:
            e.may_raise("ValueError", Not(acc_has), "minmax-empty")
            return SV(INT, acc_v)
        return ite_sv(acc_has, SV(INT, acc_v), default)
    if a.ty.kind == "seq" and a.tag and a.tag[0] == "items":
        items = a.tag[1]
        if not items:
            e.may_raise("ValueError", TRUE, "minmax-empty")
            return SV(INT, I(0))
        return minmax(e, st, name, items, kw)
    if a.ty.kind == "tuple":
        return minmax(e, st, name, list(a.v), kw)
    raise Unsupported(f"{name} over {a.ty}")


def sorted_(e: Engine, st: State, args, kw) -> SV:
    """E-SORTED: result is a permutation of the input (ghost bijection), keys non-decreasing, stable."""
    xs = e.as_seq(st, args[0])
    key = kw.get("key")
    out = fresh_sv(xs.ty, "sorted", optional=False)
    p = z3.Function(fresh_name("perm"), z3.IntSort(), z3.IntSort())
    q = z3.Function(fresh_name("perminv"), z3.IntSort(), z3.IntSort())
    n = xs.v.len
    j = z3.Int(fresh_name("sj"))
    j2 = z3.Int(fresh_name("sj2"))
    st.assume(out.v.len == n)
    body1 = Implies(And(j >= 0, j < n), And(p(j) >= 0, p(j) < n, q(p(j)) == j,
                                            *[z3.Select(a, j) == z3.Select(b, p(j)) for a, b in zip(out.v.arrs, xs.v.arrs)]))
    st.assume(ForAllP([j], body1, patterns=[p(j)]))
    st.assume(ForAllP([j], body1, patterns=[z3.Select(out.v.arrs[0], j)]))
    body2 = Implies(And(j >= 0, j < n), And(q(j) >= 0, q(j) < n, p(q(j)) == j))
    st.assume(ForAllP([j], body2, patterns=[q(j)]))
    st.assume(ForAllP([j], body2, patterns=[z3.Select(xs.v.arrs[0], j)]))

    def keyof(i):
        el = e.seq_get(out, i)
        if key is None:
            return el
        return apply_lambda(e, st, key.tag[1], [el])
    saved = e.spec_mode
    e.spec_mode = True
    partial_key = False
    try:
        ka, kb = keyof(j), keyof(j2)
        if key is None and ka.ty.kind == "tuple" and len(ka.v) >= 2 and ka.v[0].ty.kind == "tuple" and any(x.ty.kind != "int" for x in ka.v[1:]):
            # natural order of heterogeneous tuples: only the leading (int, int) component is modelled; the order among
            # elements with equal leading components (decided by the remaining components) is left unspecified
            ka, kb = ka.v[0], kb.v[0]
            partial_key = True
        le = e.compare(st, "LtE", ka, kb)
        eq = e.equal(st, ka, kb)
    finally:
        e.spec_mode = saved
    st.assume(ForAllP([j, j2], Implies(And(j >= 0, j <= j2, j2 < n), le)))
    if not partial_key:
        st.assume(ForAllP([j, j2], Implies(And(j >= 0, j < j2, j2 < n, eq), p(j) < p(j2)),
                            patterns=[z3.MultiPattern(p(j), p(j2))]))
    out.tag = ("sorted", xs, p, q)
    e.trust("E-SORTED: sorted() returns a stable permutation with non-decreasing keys")
    return out


def bisect_(e: Engine, st: State, name: str, args) -> SV:
    """E-BISECT on a sorted int sequence: number of elements < x (left) / <= x (right)."""
    xs, x = args
    r = z3.Int(fresh_name(name))
    j = z3.Int(fresh_name("bj"))
    n = xs.v.len
    el = lambda i: z3.Select(xs.v.arrs[0], i)
    st.assume(And(r >= 0, r <= n))
    if name == "bisect_left":
        st.assume(ForAllP([j], Implies(And(j >= 0, j < r), el(j) < x.v), patterns=[el(j)]))
        st.assume(ForAllP([j], Implies(And(j >= r, j < n), el(j) >= x.v), patterns=[el(j)]))
    else:
        st.assume(ForAllP([j], Implies(And(j >= 0, j < r), el(j) <= x.v), patterns=[el(j)]))
        st.assume(ForAllP([j], Implies(And(j >= r, j < n), el(j) > x.v), patterns=[el(j)]))
    e.trust("E-BISECT: bisect_left/right on a sorted list (sortedness is an obligation at the call site)")
    return SV(INT, r)


# ---------------------------------------------------------------------------- sets from sequences

def elem_key(e: Engine, st: State, el: SV):
    if el.ty.kind == "obj":
        return e.eq_key(st, el)
    if el.ty.kind in ("int", "str"):
        return el.v
    raise Unsupported("set element type")


def set_card(e: Engine, st: State, s: SV):
    """len(set(xs)): exact for the comparisons with 0 and 1 that the code makes."""
    xs = s.tag[1]
    card = z3.Int(fresh_name("card"))
    j = z3.Int(fresh_name("kj"))
    k0 = elem_key(e, st, e.seq_get(xs, I(0)))
    kj = elem_key(e, st, e.seq_get(xs, j))
    allsame = ForAllP([j], Implies(And(j >= 0, j < xs.v.len), kj == k0))
    st.assume(And(card >= 0, card <= xs.v.len, (card == 0) == (xs.v.len == 0)))
    st.assume((card == 1) == And(xs.v.len >= 1, allsame))
    e.trust("E-SET: len(set(xs)) is 0 iff xs empty, 1 iff all elements have one equality key")
    return card


def list_of_set(e: Engine, st: State, s: SV) -> SV:
    """list(set(xs)): SOME permutation of the distinct elements (iteration order unspecified)."""
    xs = s.tag[1]
    out = fresh_sv(xs.ty, "setlist", optional=False)
    j = z3.Int(fresh_name("lj"))
    j2 = z3.Int(fresh_name("lj2"))
    wit = z3.Function(fresh_name("wit"), z3.IntSort(), z3.IntSort())      # out index -> source index
    rep = z3.Function(fresh_name("rep"), z3.IntSort(), z3.IntSort())      # source index -> out index
    n, m = xs.v.len, out.v.len
    st.assume(And(m >= 0, m <= n))
    st.assume(ForAllP([j], Implies(And(j >= 0, j < m), And(wit(j) >= 0, wit(j) < n,
                                     *[z3.Select(a, j) == z3.Select(b, wit(j)) for a, b in zip(out.v.arrs, xs.v.arrs)])),
                        patterns=[wit(j)]))
    ko = lambda i: elem_key(e, st, e.seq_get(out, i))
    kx = lambda i: elem_key(e, st, e.seq_get(xs, i))
    st.assume(ForAllP([j], Implies(And(j >= 0, j < n), And(rep(j) >= 0, rep(j) < m, ko(rep(j)) == kx(j))), patterns=[rep(j)]))
    st.assume(ForAllP([j, j2], Implies(And(j >= 0, j < j2, j2 < m), ko(j) != ko(j2))))
    e.trust("E-SET: list(set(xs)) is an unspecified-order enumeration of the distinct (by __eq__/__hash__) elements")
    out.tag = ("setlist", xs, wit, rep)
    return out


# ---------------------------------------------------------------------------- methods on values

def method(e: Engine, st: State, tag, args: List[SV], kw, n: ast.Call) -> SV:
    recv: SV = tag[1]
    attr: str = tag[2]
    k = recv.ty.kind
    recv_node = n.func.value if isinstance(n.func, ast.Attribute) else None
    if k == "str" or (k == "obj" and attr in ("endswith", "startswith", "strip", "lower") and e.static_class(st, recv) in ("TokenOrStr", None, "str")):
        s = recv.v if k == "str" else strval(recv.v)
        e.may_raise("AttributeError", recv.none, f"str-method-none:.{attr}")
        return str_method(e, st, s, attr, args, kw, recv)
    if k == "seq":
        e.may_raise("AttributeError", recv.none, f"list-method-none:.{attr}")
        if attr == "append":
            new = e.seq_append(recv, args[0])
            e.update_lvalue(recv_node, new, st)
            return none_sv()
        if attr == "extend":
            items = args[0]
            if items.ty.kind == "tuple":
                new = recv
                for it in items.v:
                    new = e.seq_append(new, it)
            elif items.ty.kind == "seq":
                new = e.seq_concat(st, recv, items)
            else:
                raise Unsupported("extend with " + str(items.ty))
            e.update_lvalue(recv_node, new, st)
            return none_sv()
        if attr == "pop":
            if args and not (z3.is_int_value(z3.simplify(args[0].v)) and z3.simplify(args[0].v).as_long() == -1):
                raise Unsupported("pop(i) for i != -1")
            e.may_raise("IndexError", recv.v.len <= 0, "pop-empty")
            last = e.seq_get(recv, recv.v.len - 1)
            new = SV(recv.ty, SeqV(recv.v.len - 1, recv.v.arrs), recv.none)
            e.update_lvalue(recv_node, new, st)
            return last
        raise Unsupported(f"list method {attr}")
    if k == "dict":
        e.may_raise("AttributeError", recv.none, f"dict-method-none:.{attr}")
        if attr == "get":
            key = e.dict_key(st, recv, args[0])
            vt = recv.ty.elts[1]
            val = from_flat(vt, [z3.Select(a, key) for a in recv.v.arrs])
            dflt = args[1] if len(args) > 1 else none_sv()
            return ite_sv(z3.Select(recv.v.has, key), val, dflt)
        if attr in ("items", "keys", "values"):
            return SV(Ty("dictview"), (recv, attr))
        raise Unsupported(f"dict method {attr}")
    if k == "obj":
        cls = e.static_class(st, recv)
        if cls == "Match":
            return match_method(e, st, recv, attr, args)
        if attr == "__dict__":
            raise Unsupported("__dict__")
        if cls in e.repo.classes:
            q = e.repo.find_method(cls, attr)
            if q:
                e.attr_safety(st, recv, e.repo.funcs[q].cls, attr)
                # polymorphic dispatch: if subclasses override, case-split is needed
                overrides = [c for c in e.repo.subclasses(cls) if c != cls and attr in e.repo.classes[c].methods]
                if e.repo.funcs[q].kind == "staticmethod":
                    return finish_call(e, st, q, args, kw, n, list(n.args))
                if overrides:
                    return dispatch(e, st, recv, attr, cls, overrides, args, kw, n)
                return finish_call(e, st, q, [recv] + args, kw, n, [recv_node] + list(n.args))
        q = f"ext.{cls}.{attr}"
        if q in e.reg.contracts:
            return finish_call(e, st, q, [recv] + args, kw, n, [recv_node] + list(n.args))
        raise Unsupported(f"method {attr} on {recv.ty} (static class {cls})")
    if k == "dictcomp" and attr == "values":
        return dictcomp_values(e, st, recv)
    if k == "small" and attr == "add":
        new = SV(Ty("small"), list(recv.v) + [(And(*e.guards), args[0])])
        e.update_lvalue(recv_node, new, st)
        return none_sv()
    if k == "small" or k == "tuple":
        raise Unsupported(f"method {attr} on {recv.ty}")
    raise Unsupported(f"method {attr} on {recv.ty}")


def dispatch(e: Engine, st: State, recv: SV, attr: str, cls: str, overrides, args, kw, n) -> SV:
    """Dynamic dispatch over the AST-derived hierarchy: every implementation needs a contract; preconditions are
    asserted and postconditions assumed under the condition that the receiver's class resolves to that implementation;
    the frames of all implementations are havocked (over-approximation)."""
    impls = {}
    for sub in e.repo.subclasses(cls):
        q = e.repo.find_method(sub, attr)
        impls.setdefault(q, []).append(sub)
    result = None
    recv_node = n.func.value if isinstance(n.func, ast.Attribute) else None
    for q, subs in impls.items():
        if q not in e.reg.contracts:
            raise Unsupported(f"polymorphic call .{attr}: implementation {q} has no contract")
        cond = Or(*[class_of(recv.v) == e.repo.classes[s_].cid for s_ in subs])
        e.guards.append(cond)
        try:
            narrowed = SV(OBJ(e.repo.funcs[q].cls), recv.v, recv.none)
            r = finish_call(e, st, q, [narrowed] + args, kw, n, [recv_node] + list(n.args))
        finally:
            e.guards.pop()
        result = r if result is None else ite_sv(cond, r, result)
    return result


def str_method(e: Engine, st: State, s, attr: str, args: List[SV], kw, recv: SV) -> SV:
    e.trust("E-STR: str methods (strip/rstrip/startswith/endswith/in/join/split/lower/isdigit) as in DESIGN section 3")
    if attr in ("strip", "rstrip", "lstrip"):
        chars = None
        if args:
            if not (args[0].tag and args[0].tag[0] == "lit"):
                raise Unsupported("strip with non-literal chars")
            chars = args[0].tag[1]
        return str_strip(e, st, s, attr, chars)
    if attr == "endswith":
        return SV(BOOL, z3.SuffixOf(args[0].v, s))
    if attr == "startswith":
        return SV(BOOL, z3.PrefixOf(args[0].v, s))
    if attr == "lower":
        return SV(STR, str_lower(s))
    if attr == "isdigit":
        int_axioms(e, st, s)
        return SV(BOOL, str_isdigit(s))
    if attr == "isupper":
        return SV(BOOL, str_isupper(s))
    if attr == "join":
        return str_join(e, st, s, args[0])
    if attr == "replace":
        return SV(STR, z3.String(fresh_name("replaced")))
    if attr == "format":
        # str.format raises (ValueError / IndexError / KeyError) on a malformed or under-supplied template.  A LITERAL template is checked here
        # against the number of positional arguments; any other receiver (a template assembled at run time may contain user data) may raise
        tag = getattr(recv, "tag", None) if recv is not None else None
        safe = False
        if tag and tag[0] == "lit" and not kw:
            import string as _string
            try:
                fields = [(f, spec, conv) for _, f, spec, conv in _string.Formatter().parse(tag[1]) if f is not None]
                auto = [f for f, _, _ in fields if f == ""]
                numbered = [int(f) for f, _, _ in fields if f.isdigit()]
                safe = (all(f == "" or f.isdigit() for f, _, _ in fields) and not (auto and numbered)
                        and len(auto) <= len(args) and all(i < len(args) for i in numbered)
                        and all(not spec and conv is None for _, spec, conv in fields))
            except ValueError:
                safe = False
        if not safe:
            e.may_raise("ValueError", z3.Bool(fresh_name("format_raises")), "str.format:template-not-constant")
        return SV(STR, z3.String(fresh_name("formatted")))
    if attr == "split":
        return str_split(e, st, s, args)
    raise Unsupported(f"str method {attr}")


def char_in(c, chars: Optional[str]):
    """c (a length-1 string term) is one of `chars`; chars=None means Python whitespace."""
    if chars is None:
        ws = " \t\n\r\x0b\x0c\x1c\x1d\x1e\x1f\x85\xa0                　"
        return Or(*[c == S(ch) for ch in ws])
    return Or(*[c == S(ch) for ch in chars])


_STRIP_FNS = {}


def strip_fns(chars: Optional[str]):
    key = "ws" if chars is None else "".join(f"{ord(c):x}_" for c in chars)
    if key not in _STRIP_FNS:
        _STRIP_FNS[key] = (z3.Function(f"strip_first_{key}", z3.StringSort(), z3.IntSort()),
                           z3.Function(f"strip_last_{key}", z3.StringSort(), z3.IntSort()))
    return _STRIP_FNS[key]


def str_strip(e: Engine, st: State, s, attr: str, chars: Optional[str]) -> SV:
    """E-STR strip family.  FN(s) / LN(s) are *functions* of the string (one pair per character set):
    LN(s) = 1 + index of the last character not in `chars` (0 if none), FN(s) = index of the first such
    character (= LN(s) if none); s.strip(c) == s[FN:LN], s.rstrip(c) == s[:LN].  Being functions, two strip
    calls on equal strings agree, and strip(s) is visibly inside rstrip(s)."""
    FN, LN = strip_fns(chars)
    lo, hi = FN(s), LN(s)
    n = z3.Length(s)
    j = z3.Int(fresh_name("j"))
    at = lambda i: z3.SubString(s, i, 1)
    key = (attr != "x", s.sexpr(), chars)
    done = st.__dict__.setdefault("_strip_ax", set())
    if key not in done:
        done.add(key)
        st.assume(And(0 <= lo, lo <= hi, hi <= n))
        st.assume(Implies(hi > 0, Not(char_in(at(hi - 1), chars))))
        def fa(body):
            try:
                return ForAllP([j], body, patterns=[at(j)])
            except z3.Z3Exception:      # the string term contains boolean structure: no explicit pattern
                return ForAllP([j], body)
        st.assume(fa(Implies(And(j >= hi, j < n), char_in(at(j), chars))))
        st.assume(Implies(lo < hi, Not(char_in(at(lo), chars))))
        st.assume(fa(Implies(And(j >= 0, j < lo), char_in(at(j), chars))))
    if attr == "strip":
        r = z3.SubString(s, lo, hi - lo)
    elif attr == "rstrip":
        r = z3.SubString(s, 0, hi)
    else:
        # lstrip: from the first non-strippable character to the end (everything if none)
        r = z3.If(lo < hi, z3.SubString(s, lo, n - lo), z3.StringVal(""))
    sv = SV(STR, r)
    sv.tag = ("strip", s, lo, hi)
    return sv


def str_join(e: Engine, st: State, sep, xs: SV) -> SV:
    if xs.ty.kind == "small":
        return SV(STR, z3.String(fresh_name("joined")))
    """sep.join(xs).  Only the separator "" is given a meaning: the result is the ghost
    concatenation cat(xs) (an uninterpreted function of the sequence, related to the text by PART)."""
    r = z3.String(fresh_name("joined"))
    sv = SV(STR, r)
    sv.tag = ("join", sep, xs)
    fn = e.reg.specs.get("on_join")
    if fn is not None:
        fn(e, st, sv, sep, xs)
    return sv


def str_split(e: Engine, st: State, s, args) -> SV:
    out = fresh_sv(SEQ(STR), "split", optional=False)
    st.assume(out.v.len >= 1)
    out.tag = ("split", s, args[0] if args else None)
    fn = e.reg.specs.get("on_split")
    if fn is not None:
        fn(e, st, out, s, args)
    return out


# ---------------------------------------------------------------------------- re module

def re_call(e: Engine, st: State, fname: str, args, kw, n) -> SV:
    if fname in ("search", "match", "fullmatch"):
        pat, text = args[0], args[1]
        m = z3.Const(fresh_name("m"), Obj)
        sv = SV(OBJ("Match"), m, z3.Bool(fresh_name("nomatch")))
        tv = text.v if text.ty.kind == "str" else strval(text.v)
        st.assume(Implies(Not(sv.none), m_text(m) == tv))
        match_axioms_cond(e, st, sv)
        if fname == "match":
            st.assume(Implies(Not(sv.none), m_gstart(m, S("0")) == 0))
        sv.tag = ("match", fname, pat, text)
        fn = e.reg.specs.get("on_re_match")
        if fn is not None:
            fn(e, st, sv, fname, pat, text, kw)
        return sv
    if fname == "escape":
        return SV(STR, re_escape(args[0].v))
    if fname == "finditer":
        return re_finditer(e, st, args[0], args[1])
    if fname == "compile":
        return SV(Ty("func"), None, tag=("re_compiled", args[0]))
    if fname == "sub":
        r = SV(STR, z3.String(fresh_name("resub")))
        r.tag = ("resub", args)
        fn = e.reg.specs.get("on_re_sub")
        if fn is not None:
            fn(e, st, r, args, kw)
        return r
    if fname in ("X", "I", "MULTILINE", "VERBOSE"):
        return SV(INT, I({"X": 64, "VERBOSE": 64, "I": 2, "MULTILINE": 8}[fname]))
    raise Unsupported(f"re.{fname}")


def re_finditer(e: Engine, st: State, pat: SV, text: SV) -> SV:
    """E-RE-SPAN for finditer: match objects over `text`, in increasing non-overlapping order.  For a pattern
    re.escape(x) (E-RE-ESCAPE): every match is an occurrence of x, and there is a match iff x occurs in the text."""
    ms = fresh_sv(SEQ(OBJ("Match")), "finditer", optional=False)
    e.wf(st, ms)
    j = z3.Int(fresh_name("fj"))
    z = S("0")
    mo = z3.Select(ms.v.arrs[0], j)
    tv = text.v
    body = And(Not(z3.Select(ms.v.arrs[1], j)), m_text(mo) == tv, m_ghas(mo, z), 0 <= m_gstart(mo, z), m_gstart(mo, z) <= m_gend(mo, z),
               m_gend(mo, z) <= z3.Length(tv))
    lit = None
    if z3.is_app(pat.v) and pat.v.decl().eq(re_escape):
        lit = pat.v.arg(0)
        body = And(body, m_gend(mo, z) - m_gstart(mo, z) == z3.Length(lit), z3.SubString(tv, m_gstart(mo, z), z3.Length(lit)) == lit)
    st.assume(ForAllP([j], Implies(And(j >= 0, j < ms.v.len), body), patterns=[z3.Select(ms.v.arrs[0], j)]))
    mo2 = z3.Select(ms.v.arrs[0], j + 1)
    st.assume(ForAllP([j], Implies(And(j >= 0, j + 1 < ms.v.len), m_gend(mo, z) <= m_gstart(mo2, z)), patterns=[z3.Select(ms.v.arrs[0], j + 1)]))
    if lit is not None:
        st.assume(Implies(z3.Length(lit) >= 1, (ms.v.len >= 1) == z3.Contains(tv, lit)))
        e.trust("E-RE-ESCAPE: re.escape(x) matches exactly the occurrences of x")
    e.trust("E-RE-SPAN: match objects: 0 <= start(0) <= start(g) <= end(g) <= end(0) <= len(text), m[g] == text[start(g):end(g)], non-participating group is None")
    fn = e.reg.specs.get("on_finditer")
    if fn is not None:
        fn(e, st, ms, pat, text)
    return ms


def match_axioms_cond(e: Engine, st: State, m: SV):
    z = S("0")
    st.assume(Implies(Not(m.none), And(m_ghas(m.v, z), 0 <= m_gstart(m.v, z), m_gstart(m.v, z) <= m_gend(m.v, z),
                                       m_gend(m.v, z) <= z3.Length(m_text(m.v)))))
    e.trust("E-RE-SPAN: match objects: 0 <= start(0) <= start(g) <= end(g) <= end(0) <= len(text), m[g] == text[start(g):end(g)], non-participating group is None")


def match_method(e: Engine, st: State, m: SV, attr: str, args) -> SV:
    e.may_raise("AttributeError", m.none, f"match-none:.{attr}")
    g = group_key(e, args[0]) if args else S("0")
    match_axioms(e, st, m)
    st.assume(Implies(m_ghas(m.v, g), And(m_gstart(m.v, S("0")) <= m_gstart(m.v, g), m_gstart(m.v, g) <= m_gend(m.v, g),
                                           m_gend(m.v, g) <= m_gend(m.v, S("0")))))
    st.assume(Implies(Not(m_ghas(m.v, g)), And(m_gstart(m.v, g) == -1, m_gend(m.v, g) == -1)))
    if attr == "start":
        return SV(INT, m_gstart(m.v, g))
    if attr == "end":
        return SV(INT, m_gend(m.v, g))
    if attr == "span":
        return SV(TUP(INT, INT), [SV(INT, m_gstart(m.v, g)), SV(INT, m_gend(m.v, g))])
    if attr == "group":
        return match_group_sv(e, st, m, g)
    if attr == "groupdict":
        d = fresh_sv(DICT(STR, STR), "groupdict", optional=False)
        d.tag = ("groupdict", m)
        kk = z3.String(fresh_name("gk"))
        st.assume(ForAllP([kk], Implies(z3.Select(d.v.has, kk),
                                          And(z3.Select(d.v.arrs[1], kk) == Not(m_ghas(m.v, kk)),
                                              z3.Select(d.v.arrs[0], kk) == z3.SubString(m_text(m.v), m_gstart(m.v, kk), m_gend(m.v, kk) - m_gstart(m.v, kk)))),
                            patterns=[z3.Select(d.v.has, kk)]))
        return d
    if attr == "groups":
        fn = e.reg.specs.get("match_groups")
        if fn is None:
            raise Unsupported("m.groups() without match_groups spec")
        return fn(e, st, m)
    raise Unsupported(f"match method {attr}")


def attr_call(e: Engine, st: State, tag, args, kw, n) -> SV:
    base, attr = tag[1], tag[2]
    if base[0] == "bound" and base[2] == "__dict__" and attr == "values":
        return dict_values_of_metadata(e, st, base[1])
    if base[0] == "re_compiled" and attr == "finditer":
        return re_finditer(e, st, base[1], args[0])
    # datetime.now().year / date.today().year
    if base in (("builtin", "datetime"), ("builtin", "date")) and attr in ("now", "today"):
        o = SV(OBJ("datetime"), z3.Const("NOW", Obj))
        return o
    raise Unsupported(f"call {tag}")


def dictcomp_values(e: Engine, st: State, dc: SV) -> SV:
    src, var, keynode = dc.v
    out = fresh_sv(src.ty, "dedupe", optional=False)
    e.wf(st, out)
    wit = z3.Function(fresh_name("dwit"), z3.IntSort(), z3.IntSort())
    rep = z3.Function(fresh_name("drep"), z3.IntSort(), z3.IntSort())
    j, j2, i, i2 = (z3.Int(fresh_name(x)) for x in ("dj", "dj2", "di", "di2"))
    n_, m_ = src.v.len, out.v.len

    def key_of(seq, idx):
        el = e.seq_get(seq, idx)
        e.lambda_env.append({var: el})
        sm, pr = e.spec_mode, e.pending_raises
        e.spec_mode = True
        try:
            return e.ev(keynode, st)
        finally:
            e.lambda_env.pop()
            e.spec_mode, e.pending_raises = sm, pr
    # safety of evaluating the key for every element
    kk = key_of(src, i)
    kx, kx2, ko, ko2 = key_of(src, i), key_of(src, i2), key_of(out, j), key_of(out, j2)
    eq = lambda a, b: e.equal(st, a, b)
    st.assume(And(m_ <= n_, (m_ == 0) == (n_ == 0)))
    b1 = Implies(And(j >= 0, j < m_), And(wit(j) >= 0, wit(j) < n_, rep(wit(j)) == j,
                                          *[z3.Select(a, j) == z3.Select(b, wit(j)) for a, b in zip(out.v.arrs, src.v.arrs)]))
    st.assume(ForAllP([j], b1, patterns=[wit(j)]))
    st.assume(ForAllP([j], b1, patterns=[z3.Select(out.v.arrs[0], j)]))
    b2 = Implies(And(i >= 0, i < n_), And(rep(i) >= 0, rep(i) < m_, eq(key_of(out, rep(i)), kx), wit(rep(i)) >= i))
    st.assume(ForAllP([i], b2, patterns=[rep(i)]))
    st.assume(ForAllP([i], b2, patterns=[z3.Select(src.v.arrs[0], i)]))
    # last writer wins: no later input has the key of the kept element
    st.assume(ForAllP([i, i2], Implies(And(i >= 0, i < n_, i2 > wit(rep(i)), i2 < n_), Not(eq(kx2, kx))), patterns=[z3.MultiPattern(rep(i), rep(i2))]))
    st.assume(ForAllP([j, j2], Implies(And(j >= 0, j < j2, j2 < m_), Not(eq(ko, ko2)))))
    out.tag = ("dedupe", src, wit, rep)
    e.trust("E-DICT-DEDUPE: list({key(x): x for x in xs}.values()) keeps, for every key, the last element with that key; keys of the result are pairwise distinct")
    return out


def dict_values_of_metadata(e: Engine, st: State, md: SV) -> SV:
    """metadata.__dict__.values(): the values of exactly the dataclass fields of the object's own Metadata class."""
    e.may_raise("AttributeError", md.none, "__dict__-none")
    fields = {}
    for cname, ci in e.repo.classes.items():
        if not cname.endswith(".Metadata"):
            continue
        for f in e.repo.all_fields(cname):
            fields.setdefault(f.name, []).append(cname)
    out = []
    for fname, classes in sorted(fields.items()):
        cond = Or(*[class_of(md.v) == e.repo.classes[c].cid for c in classes])
        ty = e.field_type(e.repo.field_owner(classes[0], fname), fname)
        arrs = e.heap_get(st, f"Metadata*.{fname}", ty)
        val = from_flat(ty, [z3.Select(a, md.v) for a in arrs])
        out.append((cond, val))
    e.trust("E-DATACLASS: instance.__dict__ of a Metadata dataclass holds exactly its declared fields")
    return SV(Ty("small"), out)


def call_with_starstar(e, st, f, n, args):
    """cls(..., **extra) on a Token class: the named arguments are set, the fields that only **extra could set are left
    unconstrained (havocked) -- enough for the offset/text contract of Token.from_match."""
    tag = f.tag
    if tag[0] == "class" and "Token" in e.repo.mro(tag[1]):
        kw = {k.arg: e.ev(k.value, st) for k in n.keywords if k.arg is not None}
        o = construct_token(e, st, tag[1], args, kw)
        return o
    raise Unsupported("**kwargs call")


def construct(e: Engine, st: State, cls: str, args, kw, n) -> SV:
    q = f"{e.repo.classes[cls].module}.{cls}.__init__"
    if q in e.reg.contracts and q in e.repo.funcs:
        # a hand-written __init__: allocate the object and call the initialiser by its contract
        o = e.new_obj(st, cls, base=f"new_{cls}")
        finish_call(e, st, q, [o] + args, kw, n, [None] + list(n.args))
        return o
    if q in e.reg.contracts:
        return finish_call(e, st, q, args, kw, n, list(n.args))
    mro = e.repo.mro(cls)
    if "CitationBase" in mro:
        return construct_citation(e, st, cls, args, kw)
    if "Token" in mro:
        return construct_token(e, st, cls, args, kw)
    raise Unsupported(f"constructor {cls}(...) has no contract")


def _bind_fields(e: Engine, cls: str, args, kw):
    fields = e.repo.all_fields(cls)
    names = [f.name for f in fields]
    bound = {}
    for nme, a in zip(names, args):
        bound[nme] = a
    for k, v in kw.items():
        if k not in names:
            e.may_raise("TypeError", TRUE, f"ctor-unexpected-keyword:{k}")
        bound[k] = v
    return fields, bound


def construct_token(e: Engine, st: State, cls: str, args, kw) -> SV:
    """E-DATACLASS-CTOR for Token classes: fields are set from the arguments; groups defaults to {}."""
    fields, bound = _bind_fields(e, cls, args, kw)
    o = e.new_obj(st, cls, base=f"new_{cls}")
    saved = e.pending_raises
    e.pending_raises = []
    for f in fields:
        if f.name == "data":
            if "data" in bound:
                st.assume(strval(o.v) == (bound["data"].v if bound["data"].ty.kind == "str" else strval(bound["data"].v)))
            continue
        if f.name in bound:
            e.store_field(st, o, f.name, bound[f.name])
        elif f.name == "groups":
            empty = from_flat(DICT(STR, STR), [FALSE, z3.K(z3.StringSort(), FALSE), z3.K(z3.StringSort(), z3.StringVal("")), z3.K(z3.StringSort(), TRUE)])
            e.store_field(st, o, "groups", empty)
        elif f.name in ("exact_editions", "variation_editions"):
            e.store_field(st, o, f.name, e.seq_from_items([], OBJ("Edition")))
        elif f.name == "short":
            e.store_field(st, o, f.name, SV(BOOL, FALSE))
        else:
            e.may_raise("TypeError", TRUE, f"ctor-missing:{f.name}")
    e.pending_raises = saved
    e.trust("E-DATACLASS-CTOR: dataclass-generated __init__ (+ __post_init__) of Token/citation classes sets the declared fields from its arguments and defaults")
    return o


def construct_citation(e: Engine, st: State, cls: str, args, kw) -> SV:
    """E-DATACLASS-CTOR for citation classes, including CitationBase/ResourceCitation.__post_init__:
    groups is the token's groups (a placeholder page `_+` is replaced by None), metadata becomes an instance of the
    class's own Metadata with the given keys (others None), edition tuples are copied, all_editions = exact + variation."""
    fields, bound = _bind_fields(e, cls, args, kw)
    o = e.new_obj(st, cls, base=f"new_{cls}")
    saved = e.pending_raises
    e.pending_raises = []
    tok = bound.get("token")
    if tok is None:
        raise Unsupported("citation constructed without token")
    for f in fields:
        nm = f.name
        if nm in ("groups", "metadata"):
            continue
        if nm == "all_editions":
            ex = bound.get("exact_editions") or e.seq_from_items([], OBJ("Edition"))
            va = bound.get("variation_editions") or e.seq_from_items([], OBJ("Edition"))
            e.store_field(st, o, nm, e.seq_concat(st, e.coerce(ex, SEQ(OBJ("Edition"))), e.coerce(va, SEQ(OBJ("Edition")))))
            continue
        if nm in bound:
            e.store_field(st, o, nm, bound[nm])
        elif nm in ("exact_editions", "variation_editions"):
            e.store_field(st, o, nm, e.seq_from_items([], OBJ("Edition")))
        else:
            e.store_field(st, o, nm, none_sv())
    # groups: the token's dict; "page" becomes None for a placeholder page
    sm = e.spec_mode
    e.spec_mode = True
    tg = e.load_field(st, SV(OBJ("Token"), tok.v, tok.none), "groups")
    e.spec_mode = sm
    page_key = z3.StringVal("page")
    has = z3.Select(tg.v.has, page_key)
    pv, pn = z3.Select(tg.v.arrs[0], page_key), z3.Select(tg.v.arrs[1], page_key)
    placeholder = And(has, Not(pn), z3.InRe(pv, z3.Plus(z3.Re("_"))))
    newg = SV(tg.ty, MapV(tg.v.has, [tg.v.arrs[0], z3.Store(tg.v.arrs[1], page_key, z3.If(placeholder, TRUE, pn))]), tg.none)
    e.store_field(st, o, "groups", newg)
    # metadata
    mc = e.repo.metadata_class(cls)
    md = e.new_obj(st, mc, base="new_metadata")
    given = bound.get("metadata")
    mfields = e.repo.all_fields(mc)
    for mf in mfields:
        val = none_sv()
        if given is not None and given.ty.kind == "dictlit" and mf.name in given.v:
            val = given.v[mf.name]
        elif given is not None and given.ty.kind == "dict":
            # a groupdict(): the value of the same-named group (None if absent/non-participating)
            key = z3.StringVal(mf.name)
            fty = e.field_type(e.repo.field_owner(mc, mf.name), mf.name)
            if fty.kind == "str":
                gv = from_flat(STR, [z3.Select(given.v.arrs[0], key), z3.Select(given.v.arrs[1], key)])
                val = ite_sv(z3.Select(given.v.has, key), gv, none_sv())
        e.store_field(st, SV(OBJ(mc), md.v), mf.name, val)
    if given is not None and given.ty.kind == "dictlit":
        for k in given.v:
            if k not in [mf.name for mf in mfields]:
                e.pending_raises = saved
                e.may_raise("TypeError", TRUE, f"metadata-unexpected-key:{k}")
                saved = e.pending_raises
                e.pending_raises = []
    e.store_field(st, o, "metadata", SV(OBJ(mc), md.v))
    e.pending_raises = saved
    e.trust("E-DATACLASS-CTOR: dataclass-generated __init__ (+ __post_init__) of Token/citation classes sets the declared fields from its arguments and defaults")
    return o
