"""Standard spec functions usable in contract expressions (registered into every Registry)."""
from __future__ import annotations

import ast

import z3

from . import builtins_model as bm
from .engine import And, Engine, I, Implies, Not, Or, State, Unsupported
from .values import ForAllP, BOOL, INT, OBJ, STR, SV, TRUE, FALSE, fresh_name, none_sv


def install(reg):
    @reg.spec("str_to_int")
    def _str_to_int(e, st, s):
        bm.int_axioms(e, st, s.v)
        return SV(INT, bm.str_to_int(s.v))

    @reg.spec("int_ok")
    def _int_ok(e, st, s):
        bm.int_axioms(e, st, s.v)
        return SV(BOOL, And(Not(s.none), bm.int_ok(s.v)))

    @reg.spec("is_digits")
    def _is_digits(e, st, s, lo=None, hi=None):
        if lo is None:
            return SV(BOOL, And(Not(s.none), z3.InRe(s.v, bm.DIGITS)))
        l = z3.simplify(lo.v).as_long()
        h = z3.simplify(hi.v).as_long()
        return SV(BOOL, And(Not(s.none), z3.InRe(s.v, z3.Loop(z3.Range("0", "9"), l, h))))

    @reg.spec("py_strip")
    def _py_strip(e, st, s, chars):
        return bm.str_strip(e, st, s.v, "strip", chars.tag[1])

    @reg.spec("py_rstrip")
    def _py_rstrip(e, st, s, chars):
        return bm.str_strip(e, st, s.v, "rstrip", chars.tag[1])

    @reg.spec("py_last")
    def _py_last(e, st, s, chars):
        """len(s.rstrip(chars))"""
        FN, LN = bm.strip_fns(chars.tag[1])
        bm.str_strip(e, st, s.v, "rstrip", chars.tag[1])
        return SV(INT, LN(s.v))

    @reg.spec("py_first")
    def _py_first(e, st, s, chars):
        FN, LN = bm.strip_fns(chars.tag[1])
        bm.str_strip(e, st, s.v, "strip", chars.tag[1])
        return SV(INT, FN(s.v))

    @reg.spec("py_first_ws")
    def _py_first_ws(e, st, s):
        FN, LN = bm.strip_fns(None)
        bm.str_strip(e, st, s.v, "strip", None)
        return SV(INT, FN(s.v))

    @reg.spec("py_last_ws")
    def _py_last_ws(e, st, s):
        FN, LN = bm.strip_fns(None)
        bm.str_strip(e, st, s.v, "strip", None)
        return SV(INT, LN(s.v))

    @reg.spec("alive")
    def _alive(e, st, o):
        """the object is allocated in the current state (distinct from anything allocated later)"""
        import z3 as _z3
        return SV(BOOL, And(Not(o.none), _z3.Select(st.alive, o.v)))

    @reg.spec("truthy")
    def _truthy(e, st, v):
        return SV(BOOL, e.truthy(st, v))

    @reg.spec("now_year")
    def _now_year(e, st):
        o = SV(OBJ("datetime"), z3.Const("NOW", bm.Obj))
        return e.load_field(st, o, "year")

    @reg.spec("is_filter")
    def _is_filter(e, st, result, xs, lam):
        """result == [x for x in xs if P(x)] (index-monotone embedding, complete, same objects)."""
        lam_node = lam.tag[1]
        n, m = xs.v.len, result.v.len
        tag = result.tag
        if tag and tag[0] == "comp" and tag[1].v.len.eq(xs.v.len) and all(a.eq(b) for a, b in zip(tag[1].v.arrs, xs.v.arrs)):
            emb, inv = tag[2], tag[3]
        else:
            emb = z3.Function(fresh_name("emb"), z3.IntSort(), z3.IntSort())
            inv = z3.Function(fresh_name("inv"), z3.IntSort(), z3.IntSort())
        j = z3.Int(fresh_name("fj"))
        j2 = z3.Int(fresh_name("fj2"))
        i = z3.Int(fresh_name("fi"))

        def P(idx):
            el = e.seq_get(xs, idx)
            return e.truthy(st, bm.apply_lambda(e, st, lam_node, [el]))
        same = lambda jj: And(*[z3.Select(a, jj) == z3.Select(b, emb(jj)) for a, b in zip(result.v.arrs, xs.v.arrs)])
        f1 = ForAllP([j], Implies(And(j >= 0, j < m), And(emb(j) >= 0, emb(j) < n, same(j), P(emb(j)))))
        f2 = ForAllP([j, j2], Implies(And(j >= 0, j < j2, j2 < m), emb(j) < emb(j2)))
        f3 = ForAllP([i], Implies(And(i >= 0, i < n, P(i)), And(inv(i) >= 0, inv(i) < m, emb(inv(i)) == i)))
        return SV(BOOL, And(m >= 0, m <= n, f1, f2, f3))
