"""Specification-only functions available inside contract expressions."""
from __future__ import annotations

import ast
from typing import Optional

import z3

from .engine import And, Engine, I, Implies, Not, Or, State, Unsupported
from .values import BOOL, INT, OBJ, STR, SV, TRUE, FALSE, Obj, fresh_name, ite_sv, none_sv, parse_type, fresh_sv


def eval_in_state(e: Engine, node: ast.AST, target: State, cur: State) -> SV:
    env = dict(getattr(e, "_spec_env", None) or {})
    for k in list(env):
        if k.startswith("old:"):
            env[k[4:]] = env[k]
    saved = target.store
    target.store = dict(target.store)
    target.store.update(env)
    try:
        return e.ev(node, target)
    finally:
        target.store = saved


def spec_call(e: Engine, name: str, n: ast.Call, st: State) -> Optional[SV]:
    if name == "old":
        old = getattr(e, "_old_state", None)
        if old is None:
            return e.ev(n.args[0], st)
        return eval_in_state(e, n.args[0], old, st)
    if name == "loop_entry":
        le = getattr(e, "_loop_entry_state", None)
        if le is None:
            raise Unsupported("loop_entry() outside a loop invariant")
        return eval_in_state(e, n.args[0], le, st)
    if name == "prev":
        pv = getattr(e, "_prev_state", None)
        if pv is None:
            raise Unsupported("prev() outside a loop step clause")
        return eval_in_state(e, n.args[0], pv, st)
    if name == "implies":
        a = e.truthy(st, e.ev(n.args[0], st))
        e.guards.append(a)
        b = e.truthy(st, e.ev(n.args[1], st))
        e.guards.pop()
        return SV(BOOL, Implies(a, b))
    if name == "iff":
        a = e.truthy(st, e.ev(n.args[0], st))
        b = e.truthy(st, e.ev(n.args[1], st))
        return SV(BOOL, a == b)
    if name == "ite":
        c = e.truthy(st, e.ev(n.args[0], st))
        return ite_sv(c, e.ev(n.args[1], st), e.ev(n.args[2], st))
    if name in ("forall", "exists", "forall_obj", "exists_obj", "forall_str", "exists_str"):
        lam = n.args[0]
        if not isinstance(lam, ast.Lambda):
            raise Unsupported("quantifier needs a lambda")
        vars_, env = [], {}
        for a in lam.args.args:
            if name.endswith("_obj"):
                v = z3.Const(fresh_name("q_" + a.arg), Obj)
                env[a.arg] = SV(OBJ(None), v)
            elif name.endswith("_str"):
                v = z3.String(fresh_name("q_" + a.arg))
                env[a.arg] = SV(STR, v)
            else:
                v = z3.Int(fresh_name("q_" + a.arg))
                env[a.arg] = SV(INT, v)
            vars_.append(v)
        e.lambda_env.append(env)
        try:
            body = e.truthy(st, e.ev(lam.body, st))
        finally:
            e.lambda_env.pop()
        q = z3.ForAll if name.startswith("forall") else z3.Exists
        return SV(BOOL, q(vars_, body))
    if name == "use_lemma":
        lname = n.args[0].value
        lem = next((l for l in e.reg.lemmas if l["name"] == lname), None)
        if lem is None:
            raise Unsupported(f"unknown lemma {lname}")
        args = [e.ev(a, st) for a in n.args[1:]]
        env = {}
        for pdecl, a in zip(lem["params"], args):
            pn, pt = pdecl.split(":")
            env[pn] = a
        e.lambda_env.append(env)
        try:
            inst = e.truthy(st, e.ev(ast.parse(lem["statement"].strip(), mode="eval").body, st))
        finally:
            e.lambda_env.pop()
        e.__dict__.setdefault("lemmas_used", set()).add(lname)
        st.assume(inst)
        return SV(BOOL, TRUE)
    if name == "is_none":
        v = e.ev(n.args[0], st)
        return SV(BOOL, v.none)
    if name == "typed":
        v = e.ev(n.args[0], st)
        t = parse_type(n.args[1].value)
        return SV(t, v.v, v.none, v.tag)
    if name == "isinstance_exact":
        v = e.ev(n.args[0], st)
        cls = n.args[1].id
        from .values import class_of
        return SV(BOOL, And(Not(v.none), class_of(v.v) == e.repo.classes[cls].cid))
    fn = e.reg.specs.get(name)
    if fn is not None and name not in ("eq_key", "obj_eq", "hash_of"):
        args = [e.ev(a, st) for a in n.args]
        return fn(e, st, *args)
    return None
