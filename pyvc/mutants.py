"""Scratch-copy mutation helper (engine self-test, DESIGN 1.7): applies textual edits to a copy of
/repo/eyecite outside /repo and /verif, runs a command with EYECITE_REPO pointing at it, deletes the copy."""
import os, shutil, subprocess, sys, tempfile

def run_mutant(edits, cmd, repo="/repo"):
    """edits: list of (relative file, old, new). Returns (exit code, output)."""
    d = tempfile.mkdtemp(prefix="pyvc_mut_")
    try:
        shutil.copytree(os.path.join(repo, "eyecite"), os.path.join(d, "eyecite"))
        for f, old, new in edits:
            p = os.path.join(d, f)
            s = open(p, encoding="utf8").read()
            if old not in s:
                return 99, f"edit does not apply: {old!r} not in {f}"
            open(p, "w", encoding="utf8").write(s.replace(old, new, 1))
        env = dict(os.environ, EYECITE_REPO=d, PYTHONPATH=d)
        p = subprocess.run(cmd, shell=True, capture_output=True, text=True, env=env)
        return p.returncode, p.stdout + p.stderr
    finally:
        shutil.rmtree(d, ignore_errors=True)

if __name__ == "__main__":
    import json
    edits = json.loads(sys.argv[1])
    rc, out = run_mutant([tuple(e) for e in edits], sys.argv[2])
    print(out)
    sys.exit(rc)
