"""C16: equality/hash contracts of the citation classes, derived from the real __hash__ bodies.

The body of each `__hash__` is symbolically executed by the engine (`return` values are *hash terms*):
  id(self)                               -> ("identity", object)
  hash(hash_sha256({...dict display}))   -> ("record", [(key, value SV, present condition), ...])
Under A-HASH (DESIGN 2.3: sha256 over sorted JSON is injective on the dictionaries that occur and never collides with an
id()), two hash terms are equal iff they have the same shape and equal components.  `__eq__` is checked to be hash
equality.  The property clauses of C16 are then SMT obligations relating this derived equality to the statement
("equal exactly when volume, page and normalised reporter agree ...").
"""
from __future__ import annotations

import ast
from typing import Dict, List, Optional, Tuple

import z3

from .engine import And, Engine, I, Implies, Not, Or, Outcome, State, Unsupported
from .solve import Obligation
from .values import (BOOL, DICT, FALSE, INT, OBJ, SEQ, STR, TRUE, Obj, SV, Ty, class_of, fresh_name, fresh_sv, none_sv, obj_id)

S = z3.StringVal


class HashTerm:
    def __init__(self, kind: str, obj=None, entries=None, cond=TRUE):
        self.kind = kind            # identity | record
        self.obj = obj
        self.entries = entries or []    # (key: str, value SV or ("allgroups", dict SV) / ("editions", seq SV) / ("nested", HashTerm), present cond)


def _is_self_groups(node) -> bool:
    return isinstance(node, ast.Attribute) and node.attr == "groups" and isinstance(node.value, ast.Name) and node.value.id == "self"


class HashEval:
    """Evaluates the return expression of a __hash__ body into HashTerms (one per path)."""

    def __init__(self, e: Engine):
        self.e = e

    def run(self, qname: str, self_sv: SV, st: State) -> List[Tuple[List, HashTerm]]:
        """returns [(path condition list, HashTerm)]"""
        e = self.e
        fi = e.repo.funcs[qname]
        saved = (e.fn, e.contract, e.spec_mode, e.pending_raises, e.guards)
        e.fn, e.contract = fi, None
        e.spec_mode = True
        e.pending_raises, e.guards = [], []
        e.stmt_labels = {}
        try:
            st2 = st.fork()
            st2.store = {"self": self_sv}
            return self.block(fi.node.body, st2)
        finally:
            e.fn, e.contract, e.spec_mode, e.pending_raises, e.guards = saved

    def block(self, stmts, st: State):
        e = self.e
        out = []
        for i, s in enumerate(stmts):
            if isinstance(s, ast.Expr) and isinstance(s.value, ast.Constant):
                continue
            if isinstance(s, ast.Return):
                out.append((list(st.pc), self.hash_expr(s.value, st)))
                return out
            if isinstance(s, ast.If):
                c = e.truthy(st, e.ev(s.test, st))
                sa, sb = st.fork(), st.fork()
                sa.assume(c)
                sb.assume(Not(c))
                out += self.block(s.body, sa)
                out += self.block(list(s.orelse) + list(stmts[i + 1:]), sb) if (s.orelse or stmts[i + 1:]) else []
                return out
            raise Unsupported(f"__hash__ body statement {type(s).__name__}")
        raise Unsupported("__hash__ without return")

    def hash_expr(self, node, st: State) -> HashTerm:
        e = self.e
        # id(self)
        if isinstance(node, ast.Call) and isinstance(node.func, ast.Name) and node.func.id == "id":
            o = e.ev(node.args[0], st)
            return HashTerm("identity", obj=o)
        # hash(hash_sha256({...}))
        if isinstance(node, ast.Call) and isinstance(node.func, ast.Name) and node.func.id == "hash":
            inner = node.args[0]
            if isinstance(inner, ast.Call) and isinstance(inner.func, ast.Name) and inner.func.id == "hash_sha256":
                return HashTerm("record", entries=self.record(inner.args[0], st))
            if isinstance(inner, ast.Attribute):       # hash(self.citation)
                raise Unsupported("bare hash(x) as a __hash__ result")
        raise Unsupported(f"__hash__ returns {ast.unparse(node)[:60]}")

    def record(self, node, st: State) -> List:
        e = self.e
        if not isinstance(node, ast.Dict):
            raise Unsupported("hash_sha256 argument is not a dict display")
        entries = []
        for k, v in zip(node.keys, node.values):
            if k is None:
                entries += self.spread(v, st)
            else:
                if not (isinstance(k, ast.Constant) and isinstance(k.value, str)):
                    raise Unsupported("non-literal key in hashed dict")
                entries.append((k.value, self.value(v, st), TRUE))
        # later keys override earlier ones (dict display semantics)
        seen = {}
        for ent in entries:
            seen[ent[0]] = ent
        return list(seen.values())

    def spread(self, node, st: State) -> List:
        e = self.e
        if isinstance(node, ast.Dict):
            return self.record(node, st)
        # dict(self.groups.items())
        if isinstance(node, ast.Call) and isinstance(node.func, ast.Name) and node.func.id == "dict" and node.args \
                and isinstance(node.args[0], ast.Call) and isinstance(node.args[0].func, ast.Attribute) and node.args[0].func.attr == "items":
            d = e.ev(node.args[0].func.value, st)
            return [("*groups", ("allgroups", d), TRUE)]
        # {k: self.groups[k] for k in [..literal..] if k in self.groups}
        if isinstance(node, ast.DictComp) and len(node.generators) == 1:
            g = node.generators[0]
            keys = ast.literal_eval(g.iter)
            out = []
            for kv in keys:
                env = {g.target.id: SV(STR, S(kv), tag=("lit", kv))}
                e.lambda_env.append(env)
                try:
                    cond = TRUE
                    for c in g.ifs:
                        cond = And(cond, e.truthy(st, e.ev(c, st)))
                    keysv = e.ev(node.key, st)
                    if not (keysv.tag and keysv.tag[0] == "lit"):
                        raise Unsupported("computed key in hashed dict comprehension")
                    val = e.ev(node.value, st)
                finally:
                    e.lambda_env.pop()
                out.append((keysv.tag[1], val, cond))
            return out
        raise Unsupported(f"** spread of {ast.unparse(node)[:60]} in hashed dict")

    def value(self, node, st: State):
        e = self.e
        # type(self).__name__
        if isinstance(node, ast.Attribute) and node.attr == "__name__" and isinstance(node.value, ast.Call) \
                and isinstance(node.value.func, ast.Name) and node.value.func.id == "type":
            o = e.ev(node.value.args[0], st)
            return ("classname", o)
        # hash(self.citation): nested hash of another object
        if isinstance(node, ast.Call) and isinstance(node.func, ast.Name) and node.func.id == "hash":
            o = e.ev(node.args[0], st)
            return ("hashof", o)
        # sorted([asdict(e) for e in self.all_editions], key=...): the multiset of candidate editions
        if isinstance(node, ast.Call) and isinstance(node.func, ast.Name) and node.func.id == "sorted":
            src = node.args[0]
            if isinstance(src, ast.ListComp) and isinstance(src.elt, ast.Call) and getattr(src.elt.func, "id", "") == "asdict":
                seq = e.ev(src.generators[0].iter, st)
                return ("editions", seq)
            raise Unsupported("sorted(...) value in hashed dict")
        return e.ev(node, st)


def components_equal(e: Engine, st: State, va, vb, hash_eq) -> object:
    """equality of two record components"""
    if isinstance(va, tuple) or isinstance(vb, tuple):
        if not (isinstance(va, tuple) and isinstance(vb, tuple) and va[0] == vb[0]):
            return FALSE
        kind = va[0]
        if kind == "classname":
            return class_of(va[1].v) == class_of(vb[1].v)
        if kind == "hashof":
            return hash_eq(va[1], vb[1])
        if kind == "allgroups":
            da, db = va[1], vb[1]
            return And(da.v.has == db.v.has, *[x == y for x, y in zip(da.v.arrs, db.v.arrs)])
        if kind == "editions":
            # the sorted list of candidate-edition dictionaries: an uninterpreted function of the sequence (length + elements)
            EK = z3.Function("editions_key", z3.IntSort(), z3.ArraySort(z3.IntSort(), Obj), z3.IntSort())
            sa, sb = va[1], vb[1]
            return EK(sa.v.len, sa.v.arrs[0]) == EK(sb.v.len, sb.v.arrs[0])
        return FALSE
    return e.equal(st, va, vb)


def terms_equal(e: Engine, st: State, ta: HashTerm, tb: HashTerm, hash_eq) -> object:
    """A-HASH: identity hashes are equal iff same object; a record hash never equals an identity hash;
    record hashes are equal iff the dictionaries are equal (same keys present, equal values)."""
    if ta.kind == "identity" and tb.kind == "identity":
        return ta.obj.v == tb.obj.v
    if ta.kind != tb.kind:
        return FALSE
    ka = {k: (v, c) for k, v, c in ta.entries}
    kb = {k: (v, c) for k, v, c in tb.entries}
    conj = []
    for k in sorted(set(ka) | set(kb)):
        if k not in ka:
            conj.append(Not(kb[k][1]))
        elif k not in kb:
            conj.append(Not(ka[k][1]))
        else:
            (va, ca), (vb, cb) = ka[k], kb[k]
            conj.append(ca == cb)
            conj.append(Implies(And(ca, cb), components_equal(e, st, va, vb, hash_eq)))
    return And(*conj)


# ---------------------------------------------------------------------------------------------- obligations for C16

CITATION_CLASSES = ["FullCaseCitation", "ShortCaseCitation", "FullLawCitation", "FullJournalCitation", "SupraCitation",
                    "ReferenceCitation", "IdCitation", "UnknownCitation"]
CASE_CLASSES = ["FullCaseCitation", "ShortCaseCitation"]


def _mk_obj(e: Engine, st: State, cls: str, name: str) -> SV:
    o = z3.Const(name, Obj)
    st.assume(class_of(o) == e.repo.classes[cls].cid)
    st.assume(z3.Select(st.alive, o))
    return SV(OBJ(cls), o)


def _wf(e: Engine, st: State, c: SV, cls: str):
    """class invariants needed to evaluate the hash bodies (groups is a dict; case citations have page and reporter groups)"""
    sm = e.spec_mode
    e.spec_mode = True
    try:
        g = e.load_field(st, c, "groups")
        st.assume(Not(g.none))
        if cls in CASE_CLASSES:
            st.assume(z3.Select(g.v.has, S("page")))          # guaranteed by reporters-db (see the docstring of CaseCitation.__hash__)
            st.assume(z3.Select(g.v.has, S("reporter")))
            st.assume(Not(z3.Select(g.v.arrs[1], S("reporter"))))
    finally:
        e.spec_mode = sm


def hash_paths(e: Engine, st: State, c: SV, cls: str):
    q = e.repo.find_method(cls, "__hash__")
    return q, HashEval(e).run(q, c, st)


def make_hash_eq(e: Engine, st: State, classes: Dict[int, str]):
    """hash equality of two symbolic objects whose classes are known: disjunction over the path pairs of the two bodies"""
    def hash_eq(a: SV, b: SV):
        ca, cb = a.ty.cls, b.ty.cls
        if ca not in e.repo.classes or cb not in e.repo.classes:
            raise Unsupported("hash of an object of unknown class")
        _, pa = hash_paths(e, st, a, ca)
        _, pb = hash_paths(e, st, b, cb)
        alts = []
        base = len(st.pc)
        for pca, ta in pa:
            for pcb, tb in pb:
                alts.append(And(*(pca[base:] + pcb[base:] + [terms_equal(e, st, ta, tb, hash_eq)])))
        return Or(*alts)
    return hash_eq


def obligations(e: Engine, run, tier: str) -> List[Obligation]:
    from .front import FuncInfo
    obls: List[Obligation] = []
    e.trust("A-HASH: hash(hash_sha256(d)) is injective on the dictionaries that occur and never equals an id(); json.dumps(sort_keys=True) is injective on them")

    def new_state():
        st = State()
        st.alive = z3.Const("alive0", z3.ArraySort(Obj, z3.BoolSort()))
        return st

    def emit(name, goal, st, kind="post"):
        o = Obligation(f"models.__hash__/{name}", list(e.axioms) + list(st.pc), goal, {}, "C16", kind)
        obls.append(o)

    # -- structural: __eq__ is hash equality (CitationBase and Resource)
    for q in ("models.CitationBase.__eq__", "models.Resource.__eq__"):
        fi = e.repo.funcs.get(q)
        ok = False
        if fi is not None:
            body = [b for b in fi.node.body if not (isinstance(b, ast.Expr) and isinstance(b.value, ast.Constant))]
            ok = len(body) == 1 and isinstance(body[0], ast.Return) and \
                ast.unparse(body[0].value).replace(" ", "") == "self.__hash__()==other.__hash__()"
        o = Obligation(f"{q}/syntactic:eq_is_hash_equality", [], TRUE if ok else FALSE, {}, "C16", "post")
        o.smt2 = f"(assert (not {'true' if ok else 'false'})) ; AST of {q} is `return self.__hash__() == other.__hash__()`\n(check-sat)\n"
        obls.append(o)
        run.functions[q] = {"source_sha256": fi.sha256 if fi else "", "paths": 1}

    for cls in CITATION_CLASSES + ["Resource"]:
        q = e.repo.find_method(cls, "__hash__")
        if q and q in e.repo.funcs:
            run.functions[q] = {"source_sha256": e.repo.funcs[q].sha256, "paths": 0}

    # -- pairwise clauses
    for ia, ca in enumerate(CITATION_CLASSES):
        for cb in CITATION_CLASSES[ia:]:
            st = new_state()
            a, b = _mk_obj(e, st, ca, "cit_a"), _mk_obj(e, st, cb, "cit_b")
            _wf(e, st, a, ca)
            _wf(e, st, b, cb)
            heq = make_hash_eq(e, st, {})
            try:
                eq = heq(a, b)
            except Unsupported as ex:
                o = Obligation(f"models.__hash__/binding[{ca},{cb}]", [], None, {}, "C16", "post")
                o.status = "undecided"
                o.smt2 = f"(unsupported: {ex})"
                obls.append(o)
                continue
            sm = e.spec_mode
            e.spec_mode = True
            try:
                ga, gb = e.load_field(st, a, "groups"), e.load_field(st, b, "groups")
                same_obj = a.v == b.v
                if ca != cb:
                    # full, short, law and journal (and every other pair of kinds) are never equal across kinds
                    emit(f"cross_kind_never_equal[{ca},{cb}]", Not(eq), st)
                    continue
                if ca in ("IdCitation", "UnknownCitation"):
                    emit(f"identity_only[{ca}]", eq == same_obj, st)
                    continue
                if ca in CASE_CLASSES:
                    pk, vk, rk = S("page"), S("volume"), S("reporter")
                    pa_none, pb_none = z3.Select(ga.v.arrs[1], pk), z3.Select(gb.v.arrs[1], pk)
                    # placeholder page: equal only to itself
                    emit(f"placeholder_identity[{ca}]", Implies(Or(pa_none, pb_none), eq == same_obj), st)
                    ra = e.call_function(st, "models.ResourceCitation.corrected_reporter", [a], {})
                    rb = e.call_function(st, "models.ResourceCitation.corrected_reporter", [b], {})
                    vol_eq = And(z3.Select(ga.v.has, vk) == z3.Select(gb.v.has, vk),
                                 Implies(z3.Select(ga.v.has, vk), And(z3.Select(ga.v.arrs[1], vk) == z3.Select(gb.v.arrs[1], vk),
                                                                       Implies(Not(z3.Select(ga.v.arrs[1], vk)), z3.Select(ga.v.arrs[0], vk) == z3.Select(gb.v.arrs[0], vk)))))
                    page_eq = z3.Select(ga.v.arrs[0], pk) == z3.Select(gb.v.arrs[0], pk)
                    # equal exactly when volume, page and normalised reporter agree (and neither page is a placeholder)
                    spec = And(vol_eq, page_eq, e.equal(st, ra, rb))
                    emit(f"case_eq_iff[{ca}]", Implies(And(Not(pa_none), Not(pb_none)), eq == spec), st)
                else:
                    # law / journal / supra / reference: value equality over the groups (and candidate editions for resource citations)
                    emit(f"reflexive[{ca}]", Implies(same_obj, eq), st)
            finally:
                e.spec_mode = sm

    # -- Resource: equal exactly when the citations are equal
    for ca in ("FullCaseCitation", "FullLawCitation"):
        st = new_state()
        a, b = _mk_obj(e, st, ca, "cit_a"), _mk_obj(e, st, ca, "cit_b")
        _wf(e, st, a, ca)
        _wf(e, st, b, ca)
        ra, rb = _mk_obj(e, st, "Resource", "res_a"), _mk_obj(e, st, "Resource", "res_b")
        st.assume(ra.v != rb.v)         # two Resource objects (for one object the clause is reflexivity)
        sm = e.spec_mode
        e.spec_mode = True
        try:
            e.store_field(st, ra, "citation", SV(OBJ(ca), a.v))
            e.store_field(st, rb, "citation", SV(OBJ(ca), b.v))
            heq = make_hash_eq(e, st, {})

            def heq_typed(x, y, _h=heq, _ca=ca):
                # the `citation` field is annotated FullCitation: give the nested objects their concrete class
                x = SV(OBJ(_ca), x.v, x.none) if x.ty.cls in ("FullCitation", None) else x
                y = SV(OBJ(_ca), y.v, y.none) if y.ty.cls in ("FullCitation", None) else y
                return _h(x, y)
            _, pra = hash_paths(e, st, ra, "Resource")
            _, prb = hash_paths(e, st, rb, "Resource")
            base = len(st.pc)
            alts = []
            for pca, ta in pra:
                for pcb, tb in prb:
                    alts.append(And(*(pca[base:] + pcb[base:] + [terms_equal(e, st, ta, tb, heq_typed)])))
            emit(f"resource_eq_iff[{ca}]", Or(*alts) == heq(a, b), st)
        except Unsupported as ex:
            o = Obligation(f"models.Resource.__hash__/binding[{ca}]", [], None, {}, "C16", "post")
            o.status = "undecided"
            o.smt2 = f"(unsupported: {ex})"
            obls.append(o)
        finally:
            e.spec_mode = sm

    # -- irrelevant fields: the hash of a case citation reads only groups[volume|page|reporter], edition_guess(.short_name) and the class
    for ca in CASE_CLASSES:
        st1, st2 = new_state(), new_state()
        allowed = {"CitationBase.groups", "ResourceCitation.edition_guess", "Edition.short_name"}
        a1 = _mk_obj(e, st1, ca, "cit_a")
        a2 = _mk_obj(e, st2, ca, "cit_a")
        _wf(e, st1, a1, ca)
        _wf(e, st2, a2, ca)
        _, p1 = hash_paths(e, st1, a1, ca)
        # second heap: every array not in the allowed set is replaced by an unrelated one
        for key, arrs in st1.heap.items():
            if key in allowed:
                st2.heap[key] = list(arrs)
            else:
                st2.heap[key] = [z3.Const(f"H2.{key}.{i}", x.sort()) for i, x in enumerate(arrs)]
        st2.havocked_fields = {"*"}
        _, p2 = hash_paths(e, st2, a2, ca)
        read = sorted(k for k in st2.heap if k not in st1.heap)
        goal_parts = []
        base1, base2 = len(st1.pc), len(st2.pc)
        st = new_state()
        st.pc = list(st1.pc) + [p for p in st2.pc if not any(p.eq(q) for q in st1.pc)]
        for pc1, t1 in p1:
            for pc2, t2 in p2:
                goal_parts.append(And(*(pc1[len(st1.pc):] + pc2[len(st2.pc):] + [terms_equal(e, st, t1, t2, lambda x, y: x.v == y.v)])))
        emit(f"irrelevant_fields[{ca}]", Or(*goal_parts), st)
        run.notes.append(f"read-set of {ca}.__hash__ (heap keys touched): {sorted(st1.heap)}")
    return obls
