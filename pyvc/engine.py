"""pyvc engine: forward symbolic execution of real eyecite function ASTs against
sidecar contracts, producing named proof obligations.

See DESIGN.md section 1.  Summary of semantics choices (section 2): mathematical
ints; z3 strings; objects are an uninterpreted sort with one heap array per
(declaring class, field, component); None-ness is an explicit boolean per value
and is never taken from annotations; lists/tuples/dicts are values
(struct-of-arrays); calls use the callee's contract only.
"""
from __future__ import annotations

import ast
import copy
from typing import Any, Callable, Dict, List, Optional, Tuple

import z3

from .contracts import Contract, LoopSpec, Registry
from .front import FuncInfo, Repo
from .solve import Obligation
from .values import ForAllP
from .values import (ANYOBJ, BOOL, DICT, FALSE, INT, NONE, OBJ, SEQ, SETOF, STR, STR_CID, TRUE, TUP, MapV, Obj, SeqV,
                     SV, Ty, class_of, default_flat, flat_sorts, fresh_name, fresh_sv, from_flat, is_false, is_true,
                     ite_sv, none_sv, obj_id, parse_type, strval, to_flat, unify)


class Unsupported(Exception):
    pass


class BindingError(Exception):
    pass


I = z3.IntVal
S = z3.StringVal


def And(*xs):
    xs = [x for x in xs if not is_true(x)]
    if not xs:
        return TRUE
    return z3.And(*xs) if len(xs) > 1 else xs[0]


def Or(*xs):
    xs = [x for x in xs if not is_false(x)]
    if not xs:
        return FALSE
    return z3.Or(*xs) if len(xs) > 1 else xs[0]


def Not(x):
    return z3.Not(x)


def Implies(a, b):
    return z3.Implies(a, b)


# ---------------------------------------------------------------------------- state

class State:
    def __init__(self):
        self.store: Dict[str, SV] = {}
        self.heap: Dict[str, List[Any]] = {}        # "Owner.field" -> component arrays (Obj -> comp)
        self.alive = None
        self.pc: List[Any] = []
        self.links: List[List[Any]] = []            # alias groups of l-values sharing one mutable value
        self.narrow: Dict[str, str] = {}            # sexpr of obj term -> class name known on this path
        self.trace: List[str] = []
        self.written: Dict[str, List[Any]] = {}     # heap key -> list of object terms stored to
        self.try_depth = 0
        self.havocked_fields = set()
        self.defs_assumed = set()
        self.rebound = set()

    def fork(self) -> "State":
        s = State()
        s.store = dict(self.store)
        s.heap = {k: list(v) for k, v in self.heap.items()}
        s.alive = self.alive
        s.pc = list(self.pc)
        s.links = [list(g) for g in self.links]
        s.narrow = dict(self.narrow)
        s.trace = list(self.trace)
        s.written = {k: list(v) for k, v in self.written.items()}
        s.try_depth = self.try_depth
        s.havocked_fields = set(self.havocked_fields)
        s.defs_assumed = set(self.defs_assumed)
        s.rebound = set(self.rebound)
        return s

    def assume(self, fact):
        if not is_true(fact):
            self.pc.append(fact)


class Outcome:
    def __init__(self, kind: str, st: State, val: Optional[SV] = None, exc: str = "", cond=None, label: str = ""):
        self.kind = kind      # normal | return | break | continue | raise
        self.st = st
        self.val = val
        self.exc = exc
        self.label = label


class RaiseSignal(Exception):
    pass


# ---------------------------------------------------------------------------- engine

STR_BOX = z3.Function("str_box", z3.StringSort(), Obj)


class Engine:
    def __init__(self, repo: Repo, reg: Registry, prop: str = "", prune: bool = True):
        self.repo = repo
        self.reg = reg
        self.prop = prop
        from . import values as _values

        def _lca(a, b):
            if a in repo.classes and b in repo.classes:
                mb = set(repo.mro(b))
                for c_ in repo.mro(a):
                    if c_ in mb and c_ != "object":
                        return c_
            return None
        _values.CLASS_LCA = _lca
        self.obls: List[Obligation] = []
        self.axioms: List[Any] = []            # global background axioms (used by every obligation)
        self.trusted: List[str] = []
        self.prune = prune
        self.fn: Optional[FuncInfo] = None
        self.contract: Optional[Contract] = None
        self.entry: Optional[State] = None
        self.pending_raises: List[Tuple[str, Any, str]] = []
        self.guards: List[Any] = []
        self.counters: Dict[str, int] = {}
        self.interest: Dict[str, Any] = {}
        self.loop_stack: List[dict] = []
        self.spec_mode = False                # evaluating a contract expression (no safety obligations)
        self.call_counts: Dict[str, int] = {}
        self.globals_sym: Dict[str, SV] = {}
        self.functions_done: Dict[str, dict] = {}
        self._solver = None
        self.lambda_env: List[Dict[str, SV]] = []
        # nested defs that functools.partial objects may refer to (read from the AST of SpanUpdater.__init__)
        self.partial_defs = {}
        fi0 = repo.funcs.get("annotate.SpanUpdater.__init__")
        if fi0 is not None:
            for stn in fi0.node.body:
                if isinstance(stn, ast.FunctionDef):
                    self.partial_defs[stn.name] = stn

    # ------------------------------------------------------------ utilities
    def trust(self, s: str):
        if s not in self.trusted:
            self.trusted.append(s)

    def axioms_once(self, name: str, fn):
        done = getattr(self, "_axioms_done", None)
        if done is None:
            done = self._axioms_done = set()
        if name not in done:
            done.add(name)
            self.axioms.append(fn())

    def count(self, key: str) -> int:
        self.counters[key] = self.counters.get(key, 0) + 1
        return self.counters[key]

    def emit(self, label: str, goal, st: State, kind: str = "post", prop: str = "", info: Optional[dict] = None):
        name = f"{self.fn.qname}/{label}"
        # several paths may produce the same label: number them
        n = self.count("obl:" + name)
        full = name if n == 1 else f"{name}@path{n}"
        if is_true(goal):
            goal = TRUE
        o = Obligation(full, list(self.axioms) + list(st.pc), goal, dict(self.interest), prop if prop else self.clause_prop(label),
                       kind, info=info or {})
        o.info["trace"] = list(st.trace)
        self.obls.append(o)
        return o

    def clause_prop(self, label: str) -> str:
        # explicit clause-level tag, else "" (shared support obligation, counted under every property
        # that lists the function)
        c = self.contract
        if c:
            parts = label.split(":")
            for base in (parts[-1], parts[-2] if len(parts) > 1 else ""):
                if base in c.props:
                    return c.props[base]
        return ""

    def feasible(self, st: State) -> bool:
        if not self.prune:
            return True
        s = z3.Solver()
        # wall-clock budget: under heavy load a check may time out, the path is then kept (sound: more obligations, never fewer).
        # (A deterministic rlimit was tried: string-heavy path conditions then cost seconds per check and C04 went from 230 s to 800 s.)
        s.set("timeout", 300)
        for a in self.axioms_light():
            s.add(a)
        for p in st.pc:
            s.add(p)
        return s.check() != z3.unsat

    def axioms_light(self):
        return [a for a in self.axioms if not z3.is_quantifier(a)]

    # ------------------------------------------------------------ types from annotations
    def ann_type(self, ann: Optional[ast.AST], module: str) -> Optional[Ty]:
        if ann is None:
            return None
        if isinstance(ann, ast.Constant) and isinstance(ann.value, str):
            try:
                ann = ast.parse(ann.value, mode="eval").body
            except SyntaxError:
                return None
        if isinstance(ann, ast.Name):
            n = ann.id
            if n == "int":
                return INT
            if n == "str":
                return STR
            if n == "bool":
                return BOOL
            if n in ("dict", "Dict"):
                return DICT(STR, STR)
            if n == "Any":
                return ANYOBJ
            if n in ("Tokens",):
                return SEQ(OBJ("TokenOrStr"))
            if n in ("TokenOrStr",):
                return OBJ("TokenOrStr")
            if n == "ResolvedFullCites":
                return SEQ(TUP(OBJ("FullCitation"), OBJ("Resource")))
            if n == "ResolvedFullCite":
                return TUP(OBJ("FullCitation"), OBJ("Resource"))
            if n == "Resolutions":
                return DICT(OBJ("Resource"), SEQ(OBJ("CitationBase")))
            if n == "ResourceType":
                return OBJ("Resource")
            if n == "datetime":
                return OBJ("datetime")
            if n in self.repo.classes:
                return OBJ(n)
            return None
        if isinstance(ann, ast.Attribute):
            return None
        if isinstance(ann, ast.Subscript):
            base = ann.value.id if isinstance(ann.value, ast.Name) else None
            sl = ann.slice
            if base == "Optional":
                return self.ann_type(sl, module)
            if base in ("List", "list", "Sequence", "Iterable"):
                t = self.ann_type(sl, module)
                return SEQ(t) if t else None
            if base in ("Tuple", "tuple"):
                if isinstance(sl, ast.Tuple):
                    ts = [self.ann_type(e, module) for e in sl.elts]
                    if all(ts):
                        return TUP(*ts)
                return None
            if base in ("Dict", "dict"):
                if isinstance(sl, ast.Tuple) and len(sl.elts) == 2:
                    k, v = (self.ann_type(e, module) for e in sl.elts)
                    if k and v:
                        return DICT(k, v)
                return None
            if base in ("Set", "set"):
                t = self.ann_type(sl, module)
                return SETOF(t) if t else None
            return None
        return None

    # ------------------------------------------------------------ heap
    FIELD_TYPES_OVERRIDE = {
        "Partial.fn": INT,
        "Partial.kw0": INT,
        "CitationBase.groups": DICT(STR, STR),
        "Token.groups": DICT(STR, STR),
        "CitationBase.metadata": OBJ("CitationBase.Metadata"),
        "CitationBase.token": OBJ("Token"),
        "datetime.year": INT,
        "TokenExtractor.strings": SEQ(STR),
        "TokenExtractor.extra": DICT(STR, STR),
    }

    def field_type(self, owner: str, fname: str) -> Ty:
        key = f"{owner}.{fname}"
        if key in self.FIELD_TYPES_OVERRIDE:
            return self.FIELD_TYPES_OVERRIDE[key]
        ci = self.repo.classes.get(owner)
        if ci:
            for f in ci.fields:
                if f.name == fname:
                    t = self.ann_type(f.ann, ci.module)
                    if t is None:
                        raise Unsupported(f"no sort for field {key} ({ast.unparse(f.ann)})")
                    return t
        extra = getattr(self, "extra_fields", {})
        if key in extra:
            return extra[key]
        raise Unsupported(f"unknown field {key}")

    def heap_get(self, st: State, key: str, ty: Ty) -> List[Any]:
        if key not in st.heap and key.split(".")[-1] in st.havocked_fields:
            # written inside an enclosing loop before ever being read: unknown contents
            st.heap[key] = [z3.Const(fresh_name(f"H.{key}.{i}"), z3.ArraySort(Obj, s)) for i, s in enumerate(flat_sorts(ty))]
        if key not in st.heap:
            # initial heap arrays are shared, named constants (same in every state)
            st.heap[key] = [z3.Const(f"H0.{key}.{i}", z3.ArraySort(Obj, s)) for i, s in enumerate(flat_sorts(ty))]
            if self.entry is not None and key not in self.entry.heap:
                self.entry.heap[key] = list(st.heap[key])
        return st.heap[key]

    def resolve_field(self, st: State, recv: SV, fname: str) -> Tuple[str, Ty]:
        """Find the declaring class of field `fname` for receiver `recv`."""
        cls = self.static_class(st, recv)
        if cls and cls in self.repo.classes:
            owner = self.repo.field_owner(cls, fname)
            if owner:
                return owner, self.field_type(owner, fname)
            # narrowed too little (e.g. CitationBase static, field of subclass): fall through to unique owner
        extra = getattr(self, "extra_fields", {})
        if cls and f"{cls}.{fname}" in extra:
            return cls, extra[f"{cls}.{fname}"]
        if cls and f"{cls}.{fname}" in self.FIELD_TYPES_OVERRIDE:
            return cls, self.FIELD_TYPES_OVERRIDE[f"{cls}.{fname}"]
        owners = self.repo.owners_of_field(fname)
        if cls and cls in self.repo.classes:
            # restrict to owners related to the static class
            rel = [o for o in owners if cls in self.repo.mro(o) or o in self.repo.mro(cls)]
            if len(rel) == 1:
                return rel[0], self.field_type(rel[0], fname)
            # several subclasses declare it with the same base-most owner?
            if rel:
                tys = {self.field_type(o, fname) for o in rel}
                if len(tys) == 1 and fname in ("plaintiff", "defendant", "antecedent_guess", "year", "court", "extra",
                                               "resolved_case_name", "resolved_case_name_short", "volume", "publisher",
                                               "day", "month"):
                    # Metadata fields re-declared in sibling Metadata classes: one logical slot per name
                    return "Metadata*", tys.pop()
        if len(owners) == 1:
            return owners[0], self.field_type(owners[0], fname)
        raise Unsupported(f"ambiguous field .{fname} on static class {cls} (owners {owners})")

    def static_class(self, st: State, recv: SV) -> Optional[str]:
        if recv.ty.kind != "obj":
            return None
        k = recv.v.sexpr() if z3.is_expr(recv.v) else None
        if k and k in st.narrow:
            return st.narrow[k]
        return recv.ty.cls

    def class_in(self, o, cls: str):
        """z3 formula: class_of(o) is `cls` or a subclass."""
        if cls == "TokenOrStr":
            return Or(class_of(o) == STR_CID, self.class_in(o, "Token"))
        if cls == "str":
            return class_of(o) == STR_CID
        if cls not in self.repo.classes:
            return z3.Bool(f"isinstance_{cls}({o.sexpr()})") if False else (class_of(o) == self.ext_cid(cls))
        subs = self.repo.subclasses(cls)
        return Or(*[class_of(o) == self.repo.classes[c].cid for c in subs])

    def ext_cid(self, cls: str) -> int:
        table = getattr(self, "_ext_cids", None)
        if table is None:
            table = self._ext_cids = {}
        if cls not in table:
            table[cls] = 1000 + len(table)
        return table[cls]

    def load_field(self, st: State, recv: SV, fname: str) -> SV:
        if recv.ty.kind != "obj":
            raise Unsupported(f"attribute .{fname} on {recv.ty}")
        # Metadata fields: one logical slot per field name across the Metadata classes
        owner, ty = self.resolve_field(st, recv, fname)
        if owner.endswith(".Metadata"):
            owner = "Metadata*"
        self.attr_safety(st, recv, owner, fname)
        if fname == "data" and owner == "Token":
            return SV(STR, strval(recv.v))
        key = f"{owner}.{fname}"
        arrs = self.heap_get(st, key, ty)
        comps = [z3.Select(a, recv.v) for a in arrs]
        sv = from_flat(ty, comps)
        if ty.kind == "obj":
            self.assume_alive(st, sv)
            if fname == "metadata":
                # the static class of metadata follows the receiver's class
                rc = self.static_class(st, recv)
                mc = self.repo.metadata_class(rc) if rc in self.repo.classes else None
                sv = SV(OBJ(mc or "CitationBase.Metadata"), sv.v, sv.none)
        return sv

    def attr_safety(self, st: State, recv: SV, owner: str, fname: str):
        cond = recv.none
        if owner == "Metadata*":
            cond = Or(cond, Not(self.metadata_has_field(recv.v, fname)))
        elif owner in self.DB_VALUE_CLASSES and recv.ty.cls == owner:
            # E-DB-TYPES: a value annotated Edition / Reporter (frozen dataclasses built from reporters-db) has that class
            self.trust("E-DB-TYPES: values in fields/sequences annotated Edition or Reporter are instances of that (frozen) dataclass")
        elif owner in self.repo.classes:
            cond = Or(cond, Not(self.class_in(recv.v, owner)))
        self.may_raise("AttributeError", cond, f"attr:.{fname}")

    def metadata_has_field(self, md, fname: str):
        """the (dynamic) Metadata class of object `md` declares/inherits dataclass field `fname`"""
        cids = []
        for cname, ci in self.repo.classes.items():
            if cname.endswith(".Metadata") and any(f.name == fname for f in self.repo.all_fields(cname)):
                cids.append(class_of(md) == ci.cid)
        return Or(*cids)

    def store_field(self, st: State, recv: SV, fname: str, val: SV):
        owner, ty = self.resolve_field(st, recv, fname)
        if owner.endswith(".Metadata"):
            owner = "Metadata*"
        self.attr_safety(st, recv, owner, fname)
        key = f"{owner}.{fname}"
        arrs = self.heap_get(st, key, ty)
        comps = to_flat(self.coerce(val, ty), ty)
        st.heap[key] = [z3.Store(a, recv.v, c) for a, c in zip(arrs, comps)]
        st.written.setdefault(key, []).append(recv.v)

    def coerce(self, val: SV, ty: Ty) -> SV:
        if val.ty == ty:
            return val
        if val.ty.kind == "none":
            if ty.kind == "none":
                return val
            return from_flat(ty, default_flat(ty, none=True))
        if val.ty.kind == "seq" and ty.kind == "seq" and val.tag and val.tag[0] == "items" and not val.tag[1]:
            return self.seq_from_items([], ty.elts[0])      # an empty list literal takes the declared element type
        if val.ty.kind == ty.kind == "obj":
            return SV(ty, val.v, val.none)
        if val.ty.kind == "bool" and ty.kind == "int":
            return SV(INT, z3.If(val.v, I(1), I(0)), val.none)
        if val.ty.kind == "str" and ty.kind == "obj" and ty.cls in ("TokenOrStr", "str", None):
            # a plain str stored in an object-typed container: the (value-determined) str object str_box(s)
            if getattr(self, "_box_axiom", None) is None:
                # added for the function being verified only (verify_function drops it again): a quantified string axiom in the
                # background of every later obligation made unrelated resolve.py obligations unstable
                bs = z3.String("q_box_s")
                self._box_axiom = z3.ForAll([bs], And(class_of(STR_BOX(bs)) == STR_CID, strval(STR_BOX(bs)) == bs), patterns=[STR_BOX(bs)])
                self.axioms.append(self._box_axiom)
            return SV(ty, STR_BOX(val.v), val.none)
        if val.ty.kind == ty.kind and val.ty.kind in ("seq", "tuple", "dict", "set"):
            try:
                u = unify(val.ty, ty)
                return from_flat(u, to_flat(val, u))
            except TypeError:
                pass
        raise Unsupported(f"cannot store {val.ty} into slot of type {ty}")

    def wf(self, st: State, sv: SV):
        """Sort-level well-formedness of a fresh symbolic value: sequence lengths are non-negative."""
        k = sv.ty.kind
        if k == "seq":
            st.assume(sv.v.len >= 0)
        elif k == "tuple":
            for x in sv.v:
                self.wf(st, x)
        elif k == "dict" and sv.ty.elts[1].kind == "seq":
            kk = z3.Const(fresh_name("wk"), sv.v.arrs[1].sort().domain())
            st.assume(ForAllP([kk], And(z3.Select(sv.v.arrs[1], kk) >= 0, Not(z3.Select(sv.v.arrs[0], kk))),
                                patterns=[z3.Select(sv.v.arrs[1], kk)]))

    DB_VALUE_CLASSES = ("Edition", "Reporter")

    def assume_alive(self, st: State, sv: SV):
        if self.spec_mode or self.lambda_env:
            return      # inside specs/comprehensions the value may mention bound variables
        if st.alive is not None and sv.ty.kind == "obj":
            st.assume(Implies(Not(sv.none), z3.Select(st.alive, sv.v)))

    def new_obj(self, st: State, cls: str, base: str = "new") -> SV:
        o = z3.Const(fresh_name(base), Obj)
        if st.alive is None:
            st.alive = z3.Const("alive0", z3.ArraySort(Obj, z3.BoolSort()))
        st.assume(Not(z3.Select(st.alive, o)))
        st.alive = z3.Store(st.alive, o, TRUE)
        if cls in self.repo.classes:
            st.assume(class_of(o) == self.repo.classes[cls].cid)
        elif cls == "str":
            st.assume(class_of(o) == STR_CID)
        else:
            st.assume(class_of(o) == self.ext_cid(cls))
        return SV(OBJ(cls), o)

    def new_obj_sub(self, st: State, cls: Optional[str], base: str = "new") -> SV:
        """a newly allocated object whose class is `cls` or one of its subclasses (no class constraint when cls is unknown)"""
        o = z3.Const(fresh_name(base), Obj)
        if st.alive is None:
            st.alive = z3.Const("alive0", z3.ArraySort(Obj, z3.BoolSort()))
        st.assume(Not(z3.Select(st.alive, o)))
        st.alive = z3.Store(st.alive, o, TRUE)
        if cls in self.repo.classes:
            st.assume(self.class_in(o, cls))
        return SV(OBJ(cls), o)

    # ------------------------------------------------------------ raising
    def may_raise(self, exc: str, cond, label: str):
        """Record that the operation raises `exc` when `cond`; execution continues assuming not cond."""
        if self.spec_mode:
            return
        if is_false(cond):
            return
        g = And(*self.guards)
        self.pending_raises.append((exc, And(g, cond), label))

    # ------------------------------------------------------------ truthiness
    def truthy(self, st: State, sv: SV):
        k = sv.ty.kind
        if k == "none":
            return FALSE
        if k == "bool":
            p = sv.v
        elif k == "int":
            p = sv.v != 0
        elif k == "str":
            p = z3.Length(sv.v) > 0
        elif k == "obj":
            # Token is a UserString: falsy iff its text is empty; plain str objects likewise
            cls = self.static_class(st, sv)
            if cls and cls in self.repo.classes and "Token" in self.repo.mro(cls):
                p = z3.Length(strval(sv.v)) > 0
            elif cls in ("TokenOrStr", None, "str"):
                p = Implies(Or(class_of(sv.v) == STR_CID, self.class_in(sv.v, "Token")), z3.Length(strval(sv.v)) > 0)
            else:
                p = TRUE
        elif k == "tuple":
            p = z3.BoolVal(len(sv.v) > 0)
        elif k == "seq":
            p = sv.v.len > 0
        elif k in ("dict", "set"):
            raise Unsupported("truthiness of dict/set")
        elif k == "func":
            p = TRUE
        elif k == "small":
            p = Or(*[c for c, _ in sv.v])
        else:
            raise Unsupported(f"truthiness of {sv.ty}")
        return And(Not(sv.none), p)

    # ------------------------------------------------------------ sequences
    def seq_get(self, sv: SV, i) -> SV:
        et = sv.ty.elts[0]
        comps = [z3.Select(a, i) for a in sv.v.arrs]
        return from_flat(et, comps) if comps else none_sv()

    def seq_from_items(self, items: List[SV], et: Optional[Ty] = None) -> SV:
        if et is None:
            et = NONE
            for it in items:
                et = unify(et, it.ty) if et.kind != "none" else it.ty
            if et.kind == "none":
                et = INT
        sorts = flat_sorts(et)
        arrs = [z3.Const(fresh_name("emptyarr"), z3.ArraySort(z3.IntSort(), s)) if s == Obj else z3.K(z3.IntSort(), _dflt(s)) for s in sorts]
        for idx, it in enumerate(items):
            comps = to_flat(self.coerce(it, et), et)
            arrs = [z3.Store(a, I(idx), c) for a, c in zip(arrs, comps)]
        return SV(SEQ(et), SeqV(I(len(items)), arrs), tag=("items", list(items)))

    def seq_append(self, sv: SV, item: SV) -> SV:
        et = sv.ty.elts[0]
        comps = to_flat(self.coerce(item, et), et)
        arrs = [z3.Store(a, sv.v.len, c) for a, c in zip(sv.v.arrs, comps)]
        return SV(sv.ty, SeqV(sv.v.len + 1, arrs), sv.none)

    def seq_slice(self, st: State, sv: SV, lo, hi) -> SV:
        """xs[lo:hi] with already-normalised 0 <= lo <= hi <= len bounds."""
        n = hi - lo
        et = sv.ty.elts[0]
        out = fresh_sv(SEQ(et), "slice", optional=False)
        j = z3.Int(fresh_name("j"))
        st.assume(out.v.len == n)
        for a, b in zip(out.v.arrs, sv.v.arrs):
            st.assume(ForAllP([j], Implies(And(j >= 0, j < n), z3.Select(a, j) == z3.Select(b, j + lo)),
                                patterns=[z3.Select(a, j)]))
        out.tag = ("slice", sv, lo, hi)
        return out

    def implied(self, st: State, cond) -> bool:
        """cheap entailment check used only to simplify terms (never to decide an obligation)"""
        s = z3.Solver()
        s.set("timeout", 250)
        for a in self.axioms_light():
            s.add(a)
        for p in st.pc:
            if not z3.is_quantifier(p):
                s.add(p)
        s.add(Not(cond))
        return s.check() == z3.unsat

    def clamp_slice(self, length, lo: Optional[SV], hi: Optional[SV], st: Optional[State] = None):
        def norm(x, dflt):
            if x is None or x.ty.kind == "none":
                return dflt
            if st is not None and self.implied(st, And(Not(x.none), x.v >= 0, x.v <= length)):
                return x.v          # in range on this path: Python's clamping is the identity
            v = z3.If(x.v < 0, x.v + length, x.v)
            v = z3.If(v < 0, I(0), z3.If(v > length, length, v))
            if not is_false(x.none):
                v = z3.If(x.none, dflt, v)
            return v
        a = norm(lo, I(0))
        b = norm(hi, length)
        if st is not None and self.implied(st, a <= b):
            return a, b
        b = z3.If(b < a, a, b)
        return a, b

    # ------------------------------------------------------------ expressions
    def ev(self, node: ast.AST, st: State) -> SV:
        m = getattr(self, "ev_" + type(node).__name__, None)
        if m is None:
            raise Unsupported(f"expression {type(node).__name__}: {ast.unparse(node)[:60]}")
        return m(node, st)

    def ev_Constant(self, n, st):
        v = n.value
        if v is None:
            return none_sv()
        if isinstance(v, bool):
            return SV(BOOL, z3.BoolVal(v))
        if isinstance(v, int):
            return SV(INT, I(v))
        if isinstance(v, str):
            return SV(STR, S(v), tag=("lit", v))
        raise Unsupported(f"constant {v!r}")

    def ev_Name(self, n, st):
        name = n.id
        for env in reversed(self.lambda_env):
            if name in env:
                return env[name]
        if name in st.store:
            return st.store[name]
        return self.global_name(name, st)

    def global_name(self, name: str, st: State) -> SV:
        mod = self.fn.module
        if name in ("True", "False"):
            return SV(BOOL, z3.BoolVal(name == "True"))
        # nested def in the current function
        if name == "logger":
            return SV(Ty("func"), None, tag=("builtin", "logger"))
        nested = getattr(self, "nested_defs", {})
        if name in nested:
            return SV(Ty("func"), None, tag=("nested", name))
        node = self.repo.const(mod, name)
        if node is None and self.spec_mode:
            for m2 in self.repo.consts:
                if name in self.repo.consts[m2]:
                    node = self.repo.consts[m2][name]
        if node is not None:
            # regex constants are kept symbolic (G_<NAME>): facts about them are regex lemmas keyed by name
            lit = None if name.endswith("_REGEX") else self.literal(node)
            if lit is not None:
                return lit
            if isinstance(node, ast.Dict) and node.keys and all(isinstance(k, ast.Constant) and isinstance(k.value, str) for k in node.keys) \
                    and all(isinstance(v, ast.Name) for v in node.values):
                # a dispatch table {"name": function, ...}
                return SV(Ty("funcdict"), {k.value: v.id for k, v in zip(node.keys, node.values)}, tag=("global", name))
            key = f"G.{name}"
            if key not in self.globals_sym:
                gty = self.global_types().get(name)
                if gty is None and name.endswith("_REGEX"):
                    gty = STR
                if gty is None:
                    raise Unsupported(f"module global {name} is not a literal and has no declared type")
                if gty.kind in ("seq", "dict", "tuple"):
                    gv = fresh_sv(gty, f"G_{name}", optional=False)
                    gv.tag = ("global", name)
                    self.globals_sym[key] = gv
                else:
                    self.globals_sym[key] = SV(gty, z3.Const(f"G_{name}", flat_sorts(gty)[0]), tag=("global", name))
            return self.globals_sym[key]
        tgt = self.repo.imports.get(mod, {}).get(name) or getattr(self, "local_imports", {}).get(name)
        q = tgt if tgt else f"{mod}.{name}"
        if q in self.repo.funcs:
            return SV(Ty("func"), None, tag=("func", q))
        if name in self.repo.classes:
            return SV(Ty("func"), None, tag=("class", name))
        if name in BUILTIN_NAMES:
            return SV(Ty("func"), None, tag=("builtin", name))
        if name in self.global_types():
            # an imported module global with a declared type (contents unknown)
            key = f"G.{name}"
            if key not in self.globals_sym:
                gv = fresh_sv(self.global_types()[name], f"G_{name}", optional=False)
                gv.tag = ("global", name)
                self.globals_sym[key] = gv
            return self.globals_sym[key]
        raise Unsupported(f"name {name}")

    def global_types(self) -> Dict[str, Ty]:
        return getattr(self, "_global_types", {"_highest_valid_year": INT, "joke_cite": SEQ(OBJ("CitationBase"))})

    def literal(self, node: ast.AST) -> Optional[SV]:
        try:
            v = ast.literal_eval(node)
        except Exception:
            return None
        return self.py_to_sv(v)

    def py_to_sv(self, v) -> Optional[SV]:
        if isinstance(v, bool):
            return SV(BOOL, z3.BoolVal(v))
        if isinstance(v, int):
            return SV(INT, I(v))
        if isinstance(v, str):
            return SV(STR, S(v), tag=("lit", v))
        if isinstance(v, (list, tuple, set, frozenset)):
            items = [self.py_to_sv(x) for x in (sorted(v) if isinstance(v, (set, frozenset)) else v)]
            if any(i is None for i in items):
                return None
            sv = SV(TUP(*[i.ty for i in items]), items, tag=("litseq", tuple(v) if not isinstance(v, (set, frozenset)) else tuple(sorted(v))))
            return sv
        if v is None:
            return none_sv()
        return None

    def ev_Tuple(self, n, st):
        items = [self.ev(e, st) for e in n.elts]
        return SV(TUP(*[i.ty for i in items]), items)

    def ev_List(self, n, st):
        items = [self.ev(e, st) for e in n.elts]
        if not items:
            hint = getattr(self, "_list_hint", None)
            return self.seq_from_items([], hint.elts[0] if hint and hint.kind == "seq" else None)
        return self.seq_from_items(items)

    def ev_Dict(self, n, st):
        items = {}
        for k, v in zip(n.keys, n.values):
            if not (isinstance(k, ast.Constant) and isinstance(k.value, str)):
                raise Unsupported("dict literal with non-constant key")
            items[k.value] = self.ev(v, st)
        return SV(Ty("dictlit"), items)

    def ev_Attribute(self, n, st):
        if isinstance(n.value, ast.Name) and n.value.id == "G" and "G" not in st.store:
            return self.global_name(n.attr, st)
        if isinstance(n.value, ast.Name) and n.value.id == "ghost" and "ghost" not in st.store:
            if "ghost." + n.attr not in st.store:
                raise BindingError(f"unknown ghost variable {n.attr}")
            return st.store["ghost." + n.attr]
        # module-qualified names: re.X, re.I ...
        if isinstance(n.value, ast.Name) and n.value.id in ("re", "regex") and n.value.id not in st.store:
            return SV(Ty("func"), None, tag=("re", n.attr))
        if isinstance(n.value, ast.Name) and n.value.id in self.repo.classes and n.value.id not in st.store:
            ci = self.repo.classes[n.value.id]
            for c in self.repo.mro(n.value.id):
                if n.attr in self.repo.classes[c].attrs:
                    lit = self.literal(self.repo.classes[c].attrs[n.attr])
                    if lit is not None:
                        return lit
            m = self.repo.find_method(n.value.id, n.attr)
            if m:
                return SV(Ty("func"), None, tag=("func", m))
            raise Unsupported(f"class attribute {ast.unparse(n)}")
        recv = self.ev(n.value, st)
        return self.get_attr(st, recv, n.attr, n)

    def get_attr(self, st: State, recv: SV, attr: str, node=None) -> SV:
        if recv.ty.kind == "func":
            return SV(Ty("func"), None, tag=("attr", recv.tag, attr))
        if recv.ty.kind == "obj":
            cls = self.static_class(st, recv)
            if cls == "Match":
                return SV(Ty("func"), None, tag=("bound", recv, attr))
            if cls in self.repo.classes:
                mq = self.repo.find_method(cls, attr)
                if mq and (self.repo.field_owner(cls, attr) is None):
                    fi = self.repo.funcs[mq]
                    if fi.kind == "property":
                        return self.call_function(st, mq, [recv], {}, node)
                    return SV(Ty("func"), None, tag=("bound", recv, attr))
            if attr == "Metadata":
                return SV(Ty("func"), None, tag=("metadata_ctor", recv))
            if attr == "__dict__":
                return SV(Ty("func"), None, tag=("bound", recv, "__dict__"))
            if cls in ("TokenOrStr", "str") and attr in STR_METHODS:
                return SV(Ty("func"), None, tag=("bound", recv, attr))
            try:
                return self.load_field(st, recv, attr)
            except Unsupported:
                if attr in STR_METHODS:
                    return SV(Ty("func"), None, tag=("bound", recv, attr))
                raise
        if recv.ty.kind in ("str", "seq", "dict", "set", "tuple", "small", "dictcomp"):
            return SV(Ty("func"), None, tag=("bound", recv, attr, node.value if node is not None else None))
        raise Unsupported(f"attribute {attr} on {recv.ty}")

    def ev_Subscript(self, n, st):
        recv = self.ev(n.value, st)
        if isinstance(n.slice, ast.Slice):
            lo = self.ev(n.slice.lower, st) if n.slice.lower else None
            hi = self.ev(n.slice.upper, st) if n.slice.upper else None
            if n.slice.step is not None:
                raise Unsupported("slice step")
            return self.do_slice(st, recv, lo, hi)
        idx = self.ev(n.slice, st)
        if recv.ty.kind == "dict" and recv.ty.cls == "defaultdict":
            return self.defaultdict_load(st, n, recv, idx)
        return self.do_index(st, recv, idx)

    def defaultdict_load(self, st, n, recv: SV, idx: SV) -> SV:
        """defaultdict(list).__getitem__: a missing key is inserted with an empty list (in spec mode: pure read)."""
        key = self.dict_key(st, recv, idx)
        vt = recv.ty.elts[1]
        has = z3.Select(recv.v.has, key)
        stored = from_flat(vt, [z3.Select(a, key) for a in recv.v.arrs])
        empty = self.seq_from_items([], vt.elts[0])
        val = ite_sv(has, stored, empty)
        if not self.spec_mode:
            comps = to_flat(val, vt)
            new = SV(recv.ty, MapV(z3.Store(recv.v.has, key, TRUE), [z3.Store(a, key, c) for a, c in zip(recv.v.arrs, comps)]), recv.none)
            self.assign(n.value, new, st)
        return val

    def do_slice(self, st, recv: SV, lo, hi) -> SV:
        if recv.ty.kind == "str" and self.spec_mode and lo is not None and hi is not None and lo.ty.kind == "int" and hi.ty.kind == "int":
            # contract expressions slice with in-range, ordered bounds only
            return SV(STR, z3.SubString(recv.v, lo.v, hi.v - lo.v))
        if recv.ty.kind == "str":
            a, b = self.clamp_slice(z3.Length(recv.v), lo, hi, st)
            return SV(STR, z3.SubString(recv.v, a, b - a))
        if recv.ty.kind == "seq":
            a, b = self.clamp_slice(recv.v.len, lo, hi, st)
            return self.seq_slice(st, recv, a, b)
        if recv.ty.kind == "tuple":
            if all(x is None or z3.is_int_value(z3.simplify(x.v)) for x in (lo, hi)):
                a = z3.simplify(lo.v).as_long() if lo else None
                b = z3.simplify(hi.v).as_long() if hi else None
                items = recv.v[a:b]
                return SV(TUP(*[i.ty for i in items]), items)
        raise Unsupported(f"slice of {recv.ty}")

    def do_index(self, st, recv: SV, idx: SV) -> SV:
        k = recv.ty.kind
        self.may_raise("TypeError", recv.none, "subscript-none")
        if k == "tuple":
            iv = z3.simplify(idx.v)
            if z3.is_int_value(iv):
                i = iv.as_long()
                if not (-len(recv.v) <= i < len(recv.v)):
                    self.may_raise("IndexError", TRUE, "tuple-index")
                    return recv.v[0] if recv.v else none_sv()
                return recv.v[i]
            # symbolic index into a homogeneous literal tuple
            out = recv.v[-1]
            for i in range(len(recv.v) - 2, -1, -1):
                out = ite_sv(idx.v == i, recv.v[i], out)
            self.may_raise("IndexError", Or(idx.v < 0, idx.v >= len(recv.v)), "tuple-index")
            return out
        if k == "seq":
            n = recv.v.len
            # contract expressions index with non-negative indices only (no wrap-around in specs)
            i = idx.v if self.spec_mode else z3.If(idx.v < 0, idx.v + n, idx.v)
            self.may_raise("IndexError", Or(i < 0, i >= n), "index")
            sv = self.seq_get(recv, i)
            if sv.ty.kind == "obj":
                self.assume_alive(st, sv)
            return sv
        if k == "str":
            n = z3.Length(recv.v)
            i = z3.If(idx.v < 0, idx.v + n, idx.v)
            self.may_raise("IndexError", Or(i < 0, i >= n), "str-index")
            return SV(STR, z3.SubString(recv.v, i, 1))
        if k == "dict":
            key = self.dict_key(st, recv, idx)
            self.may_raise("KeyError", Not(z3.Select(recv.v.has, key)), "dict-key")
            return from_flat(recv.ty.elts[1], [z3.Select(a, key) for a in recv.v.arrs])
        if k == "obj" and self.static_class(st, recv) == "Match":
            return self.match_group(st, recv, idx)
        if k == "funcdict":
            self.may_raise("KeyError", Not(self.contains(st, idx, recv)), "dispatch-key")
            return SV(Ty("func"), None, tag=("dyn", idx))
        raise Unsupported(f"index of {recv.ty}")

    def dict_key(self, st, d: SV, key: SV):
        kt = d.ty.elts[0]
        if kt.kind == "str":
            if key.ty.kind != "str":
                raise Unsupported("non-str key for str dict")
            return key.v
        if kt.kind == "obj":
            return self.eq_key(st, key)
        if kt.kind == "int":
            return key.v
        raise Unsupported("dict key type")

    # equality keys of objects (A-HASH abstraction): defined by contracts/specs
    def eq_key(self, st, o: SV):
        fn = self.reg.specs.get("eq_key")
        if fn is None:
            raise Unsupported("no eq_key spec registered")
        return fn(self, st, o)

    def ev_BinOp(self, n, st):
        a = self.ev(n.left, st)
        b = self.ev(n.right, st)
        return self.binop(st, type(n.op).__name__, a, b)

    def binop(self, st, op: str, a: SV, b: SV) -> SV:
        ka, kb = a.ty.kind, b.ty.kind
        if ka == kb == "small" and op == "BitAnd":
            out = []
            for c1, v1 in a.v:
                for c2, v2 in b.v:
                    out.append((And(c1, c2, self.equal(st, v1, v2)), v1))
            return SV(Ty("small"), out)
        self.may_raise("TypeError", Or(a.none, b.none), f"binop-none:{op}")
        if ka == kb == "int":
            if op == "Add":
                return SV(INT, a.v + b.v)
            if op == "Sub":
                return SV(INT, a.v - b.v)
            if op == "Mult":
                return SV(INT, a.v * b.v)
            if op == "BitAnd":
                r = z3.Int(fresh_name("bitand"))
                st.assume(And(r >= 0, Implies(Or(a.v == 0, b.v == 0), r == 0)))
                return SV(INT, r)
            if op == "FloorDiv":
                self.may_raise("ZeroDivisionError", b.v == 0, "div")
                return SV(INT, a.v / b.v)
        if ka == kb == "str" and op == "Add":
            return SV(STR, z3.Concat(a.v, b.v))
        if ka == kb == "seq" and op == "Add":
            return self.seq_concat(st, a, b)
        if ka == kb == "tuple" and op == "Add":
            items = list(a.v) + list(b.v)
            return SV(TUP(*[i.ty for i in items]), items)
        if ka == "obj" and kb == "str" and op == "Add":
            return SV(STR, z3.Concat(strval(a.v), b.v))
        if ka == "str" and kb == "obj" and op == "Add":
            return SV(STR, z3.Concat(a.v, strval(b.v)))
        raise Unsupported(f"binop {op} on {a.ty}, {b.ty}")

    def seq_concat(self, st, a: SV, b: SV) -> SV:
        ty = unify(a.ty, b.ty)
        out = fresh_sv(ty, "cat", optional=False)
        j = z3.Int(fresh_name("j"))
        st.assume(out.v.len == a.v.len + b.v.len)
        for o, x, y in zip(out.v.arrs, a.v.arrs, b.v.arrs):
            st.assume(ForAllP([j], Implies(And(j >= 0, j < a.v.len), z3.Select(o, j) == z3.Select(x, j)),
                                patterns=[z3.Select(o, j)]))
            st.assume(ForAllP([j], Implies(And(j >= a.v.len, j < a.v.len + b.v.len), z3.Select(o, j) == z3.Select(y, j - a.v.len)),
                                patterns=[z3.Select(o, j)]))
        return out

    def ev_UnaryOp(self, n, st):
        a = self.ev(n.operand, st)
        if isinstance(n.op, ast.Not):
            return SV(BOOL, Not(self.truthy(st, a)))
        if isinstance(n.op, ast.USub) and a.ty.kind == "int":
            return SV(INT, -a.v)
        raise Unsupported("unary op")

    def ev_BoolOp(self, n, st):
        vals = []
        is_and = isinstance(n.op, ast.And)
        depth = len(self.guards)
        narrow_save = dict(st.narrow)
        for e in n.values:
            v = self.ev(e, st)
            vals.append(v)
            t = self.truthy(st, v)
            self.guards.append(t if is_and else Not(t))
            if is_and:
                self.apply_narrowing(st, e, True)
        del self.guards[depth:]
        st.narrow = narrow_save
        out = vals[-1]
        for v in reversed(vals[:-1]):
            t = self.truthy(st, v)
            out = self.merge_sv(t, out, v) if is_and else self.merge_sv(t, v, out)
        return out

    def merge_sv(self, c, a: SV, b: SV) -> SV:
        try:
            return ite_sv(c, a, b)
        except TypeError:
            # heterogeneous operands (e.g. `len(xs) > 1 and self.year`): only the truth value is kept;
            # the result is marked so that using it as a *value* is rejected instead of mis-modelled
            st0 = State()
            return SV(BOOL, z3.If(c, self.truthy(st0, a), self.truthy(st0, b)), tag=("truthonly",))

    def ev_IfExp(self, n, st):
        c = self.truthy(st, self.ev(n.test, st))
        self.guards.append(c)
        a = self.ev(n.body, st)
        self.guards[-1] = Not(c)
        b = self.ev(n.orelse, st)
        self.guards.pop()
        if a.ty.kind == "func" and b.ty.kind == "func":
            return SV(Ty("func"), None, tag=("choice", c, a, b))
        return ite_sv(c, a, b)

    def ev_NamedExpr(self, n, st):
        v = self.ev(n.value, st)
        if self.lambda_env:
            self.lambda_env[-1][n.target.id] = v
        else:
            st.store[n.target.id] = v
        return v

    def ev_Compare(self, n, st):
        left = self.ev(n.left, st)
        res = TRUE
        for op, rn in zip(n.ops, n.comparators):
            right = self.ev(rn, st)
            res = And(res, self.compare(st, type(op).__name__, left, right))
            left = right
        return SV(BOOL, res)

    def compare(self, st, op: str, a: SV, b: SV):
        ka, kb = a.ty.kind, b.ty.kind
        if op in ("Is", "IsNot"):
            if kb == "none":
                r = a.none
            elif ka == "none":
                r = b.none
            elif ka == kb == "obj":
                r = Or(And(a.none, b.none), And(Not(a.none), Not(b.none), a.v == b.v))
            elif ka == "func" and kb == "func" and a.tag[0] == "typeof" and b.tag[0] == "class":
                o = a.tag[1]
                r = And(Not(o.none), class_of(o.v) == self.repo.classes[b.tag[1]].cid) if o.ty.kind == "obj" else FALSE
            elif ka == "func" and kb == "func":
                r = z3.BoolVal(self.func_identity(a) == self.func_identity(b))
            else:
                raise Unsupported(f"'is' on {a.ty}, {b.ty}")
            return r if op == "Is" else Not(r)
        if op in ("Eq", "NotEq"):
            r = self.equal(st, a, b)
            return r if op == "Eq" else Not(r)
        if op in ("Lt", "LtE", "Gt", "GtE"):
            self.may_raise("TypeError", Or(a.none, b.none), f"order-none")
            if ka == kb == "int":
                return {"Lt": a.v < b.v, "LtE": a.v <= b.v, "Gt": a.v > b.v, "GtE": a.v >= b.v}[op]
            if ka == kb == "tuple" and len(a.v) == len(b.v) == 2 and all(x.ty.kind == "int" for x in a.v + b.v):
                (a0, a1), (b0, b1) = a.v, b.v
                lt = Or(a0.v < b0.v, And(a0.v == b0.v, a1.v < b1.v))
                eq = And(a0.v == b0.v, a1.v == b1.v)
                return {"Lt": lt, "LtE": Or(lt, eq), "Gt": Not(Or(lt, eq)), "GtE": Not(lt)}[op]
            if ka == kb == "bool":
                # False < True (bool is a subclass of int)
                ai, bi = z3.If(a.v, I(1), I(0)), z3.If(b.v, I(1), I(0))
                return {"Lt": ai < bi, "LtE": ai <= bi, "Gt": ai > bi, "GtE": ai >= bi}[op]
            raise Unsupported(f"ordering on {a.ty}, {b.ty}")
        if op in ("In", "NotIn"):
            r = self.contains(st, a, b)
            return r if op == "In" else Not(r)
        raise Unsupported(op)

    def func_identity(self, f: SV):
        return f.tag

    def equal(self, st, a: SV, b: SV):
        ka, kb = a.ty.kind, b.ty.kind
        if ka == "none" or kb == "none":
            other = b if ka == "none" else a
            return other.none if other.ty.kind != "none" else TRUE
        both_none = And(a.none, b.none)
        neither = And(Not(a.none), Not(b.none))
        if ka == kb and ka in ("int", "bool", "str"):
            return Or(both_none, And(neither, a.v == b.v))
        if {ka, kb} <= {"int", "bool", "str"}:
            return both_none            # values of different scalar types are never equal (bool/int mix not used)
        if ka == "obj" and kb == "str":
            # Token.__eq__ (dataclass eq) returns NotImplemented for a str; a plain str object compares by value
            return And(neither, class_of(a.v) == STR_CID, strval(a.v) == b.v)
        if ka == "str" and kb == "obj":
            return self.equal(st, b, a)
        if ka == kb == "obj":
            fn = self.reg.specs.get("obj_eq")
            if fn is not None:
                r = fn(self, st, a, b)
                if r is not None:
                    return Or(both_none, And(neither, r))
            return Or(both_none, And(neither, a.v == b.v))
        if ka == kb == "tuple" and len(a.v) == len(b.v):
            return Or(both_none, And(neither, *[self.equal(st, x, y) for x, y in zip(a.v, b.v)]))
        if ka == kb == "dict":
            fa, fb = to_flat(a), to_flat(b)
            return And(*[x == y for x, y in zip(fa, fb)])
        raise Unsupported(f"== on {a.ty}, {b.ty}")

    def contains(self, st, item: SV, cont: SV):
        k = cont.ty.kind
        if k == "str":
            if item.ty.kind != "str":
                raise Unsupported("non-str in str")
            self.may_raise("TypeError", Or(item.none, cont.none), "in-none")
            return z3.Contains(cont.v, item.v)
        if k == "tuple":
            return Or(*[self.equal(st, item, x) for x in cont.v])
        if k == "seq":
            j = z3.Int(fresh_name("j"))
            e = self.seq_get(cont, j)
            return z3.Exists([j], And(j >= 0, j < cont.v.len, self.equal(st, item, e)))
        if k == "funcdict":
            if item.ty.kind == "obj":
                return And(Not(item.none), class_of(item.v) == STR_CID, Or(*[strval(item.v) == S(key) for key in cont.v]))
            if item.ty.kind == "str":
                return And(Not(item.none), Or(*[item.v == S(key) for key in cont.v]))
            return FALSE
        if k == "dict":
            if item.ty.kind == "func" or item.ty.kind != cont.ty.elts[0].kind:
                return FALSE if item.ty.kind != "func" else self.func_in_dict(st, item, cont)
            return z3.Select(cont.v.has, self.dict_key(st, cont, item))
        if k == "set" and cont.tag and cont.tag[0] == "setofseq":
            return self.contains(st, item, cont.tag[1])
        if k == "set":
            return z3.Select(cont.v.has, self.dict_key(st, SV(DICT(cont.ty.elts[0], INT), cont.v), item))
        raise Unsupported(f"in on {cont.ty}")

    def ev_JoinedStr(self, n, st):
        parts = []
        for v in n.values:
            if isinstance(v, ast.Constant):
                parts.append(S(v.value))
            else:
                e = self.ev(v.value, st)
                if e.ty.kind == "str" and v.conversion == -1 and v.format_spec is None:
                    self.may_raise("never", FALSE, "")
                    parts.append(z3.If(e.none, S("None"), e.v) if not is_false(e.none) else e.v)
                else:
                    parts.append(z3.String(fresh_name("fmt")))
        if not parts:
            return SV(STR, S(""))
        return SV(STR, z3.Concat(*parts) if len(parts) > 1 else parts[0])

    def ev_Lambda(self, n, st):
        return SV(Ty("func"), None, tag=("lambda", n))

    def ev_ListComp(self, n, st):
        return self.comprehension(n, st, "list")

    def ev_GeneratorExp(self, n, st):
        return self.comprehension(n, st, "gen")

    def ev_DictComp(self, n, st):
        """{key(x): val(x) for x in xs}: modelled for the de-duplication idiom (value is the element itself):
        the values() view is an unspecified-length sequence u with ghost maps -- E-DICT-DEDUPE:
        every u[j] is xs[wit j]; every xs[i] has a representative u[rep i] with the same key; keys of u are pairwise
        distinct; the kept element for a key is the LAST input with that key (last writer wins)."""
        if len(n.generators) != 1 or n.generators[0].ifs:
            raise Unsupported("dict comprehension shape")
        g = n.generators[0]
        src = self.as_seq(st, self.ev(g.iter, st))
        if not (isinstance(n.value, ast.Name) and isinstance(g.target, ast.Name) and n.value.id == g.target.id):
            raise Unsupported("dict comprehension whose value is not the element")
        return SV(Ty("dictcomp"), (src, g.target.id, n.key))

    def ev_SetComp(self, n, st):
        return self.comprehension(n, st, "set")

    # [f(x) for x in xs if p(x)]  -> fresh sequence with an index-monotone embedding (DESIGN 2.4)
    def comprehension(self, n, st, kind: str) -> SV:
        if len(n.generators) != 1:
            raise Unsupported("multi-generator comprehension")
        g = n.generators[0]
        src0 = self.ev(g.iter, st)
        if src0.ty.kind == "tuple":
            src0 = SV(Ty("small"), [(TRUE, x) for x in src0.v])      # literal tuple/list: exact unrolling
        if src0.ty.kind == "small":
            out = []
            for c0, v0 in src0.v:
                env0: Dict[str, SV] = {}
                self.bind_target(g.target, v0, env0, st)
                self.lambda_env.append(env0)
                try:
                    cc = c0
                    for cnd in g.ifs:
                        cc = And(cc, self.truthy(st, self.ev(cnd, st)))
                    out.append((cc, self.ev(n.elt, st)))
                finally:
                    self.lambda_env.pop()
            return SV(Ty("small"), out)
        src = self.as_seq(st, src0)
        if isinstance(src.v, list):        # literal tuple: unroll exactly
            items = []
            raise Unsupported("comprehension over literal tuple")
        i = z3.Int(fresh_name("ci"))
        elem = self.seq_get(src, i)
        env: Dict[str, SV] = {}
        self.bind_target(g.target, elem, env, st)
        self.lambda_env.append(env)
        saved_pr = self.pending_raises
        self.pending_raises = []
        try:
            cond = TRUE
            depth = len(self.guards)
            self.guards.append(And(i >= 0, i < src.v.len))
            for c in g.ifs:
                cond = And(cond, self.truthy(st, self.ev(c, st)))
            self.guards.append(cond)
            val = self.ev(n.elt, st)
            del self.guards[depth:]
        finally:
            self.lambda_env.pop()
            inner_raises = self.pending_raises
            self.pending_raises = saved_pr
        # safety inside the comprehension body holds for every index
        for exc, c, label in inner_raises:
            self.may_raise(exc, z3.Exists([i], And(i >= 0, i < src.v.len, c)), "comp:" + label)
        out = fresh_sv(SEQ(val.ty if val.ty.kind != "none" else INT), "comp", optional=False)
        if not g.ifs:
            # pure map: same length, element-wise
            st.assume(out.v.len == src.v.len)
            vflat0 = to_flat(val)
            st.assume(ForAllP([i], Implies(And(i >= 0, i < src.v.len), And(*[z3.Select(a, i) == c for a, c in zip(out.v.arrs, vflat0)])),
                                patterns=[z3.Select(out.v.arrs[0], i)]))
            out.tag = ("map", src, i, val)
            return out
        emb = z3.Function(fresh_name("emb"), z3.IntSort(), z3.IntSort())
        inv = z3.Function(fresh_name("inv"), z3.IntSort(), z3.IntSort())
        j = z3.Int(fresh_name("cj"))
        j2 = z3.Int(fresh_name("cj2"))
        m = out.v.len
        st.assume(And(m >= 0, m <= src.v.len))
        # every output element is f(src[emb j]) with the filter true, emb strictly increasing and in range
        vflat = to_flat(val)
        sub = [(i, emb(j))]
        body = And(emb(j) >= 0, emb(j) < src.v.len, z3.substitute(cond, *sub),
                   *[z3.Select(a, j) == z3.substitute(c, *sub) for a, c in zip(out.v.arrs, vflat)])
        st.assume(ForAllP([j], Implies(And(j >= 0, j < m), body), patterns=[emb(j)]))
        st.assume(ForAllP([j, j2], Implies(And(j >= 0, j < j2, j2 < m), emb(j) < emb(j2)), patterns=[z3.MultiPattern(emb(j), emb(j2))]))
        # every source index passing the filter is hit
        st.assume(ForAllP([i], Implies(And(i >= 0, i < src.v.len, cond), And(inv(i) >= 0, inv(i) < m, emb(inv(i)) == i)),
                            patterns=[inv(i)]))
        out.tag = ("comp", src, emb, inv, cond, i)
        if kind == "set":
            out.tag = ("setcomp", out.tag)
        return out

    def as_seq(self, st, sv: SV) -> SV:
        if sv.ty.kind == "seq":
            return sv
        if sv.ty.kind == "tuple":
            return self.seq_from_items(list(sv.v))
        raise Unsupported(f"iteration over {sv.ty}")

    def bind_target(self, tgt: ast.AST, val: SV, env: Dict[str, SV], st: State):
        if isinstance(tgt, ast.Name):
            env[tgt.id] = val
        elif isinstance(tgt, (ast.Tuple, ast.List)):
            if val.ty.kind != "tuple" or len(val.v) != len(tgt.elts):
                raise Unsupported(f"unpack {val.ty} into {len(tgt.elts)} targets")
            for t, v in zip(tgt.elts, val.v):
                self.bind_target(t, v, env, st)
        else:
            raise Unsupported("binding target")

    # ------------------------------------------------------------ calls
    def ev_Call(self, n, st):
        from . import builtins_model as bm
        return bm.call(self, n, st)

    def call_function(self, st: State, qname: str, args: List[SV], kwargs: Dict[str, SV], node=None) -> SV:
        """Call by contract."""
        c = self.reg.contracts.get(qname)
        if c is None:
            raise Unsupported(f"call to {qname} which has no contract")
        fi = self.repo.funcs.get(qname)
        params, defaults = self.signature(qname)
        bound: Dict[str, SV] = {}
        for p, a in zip(params, args):
            bound[p] = a
        for k, v in kwargs.items():
            if k not in params:
                raise Unsupported(f"unexpected keyword {k} for {qname}")
            bound[k] = v
        for p in params:
            if p not in bound:
                if p in defaults:
                    saved = self.fn
                    bound[p] = self.ev(defaults[p], st) if defaults[p] is not None else none_sv()
                else:
                    raise Unsupported(f"missing argument {p} for {qname}")
        short = qname.split(".")[-1]
        k = self.call_counts[short] = self.call_counts.get(short, 0) + 1
        site = f"call:{short}#{k}"
        # static types of params from the callee contract
        for p, ts in c.types.items():
            if p in bound and bound[p].ty.kind != "none":
                ty = parse_type(ts)
                if bound[p].ty.kind == "obj" and ty.kind == "obj" and (ty.cls in self.repo.classes or ty.cls in ("TokenOrStr", "str")) and not self.spec_mode:
                    cur0 = self.static_class(st, bound[p])
                    if not (cur0 in self.repo.classes and ty.cls in self.repo.classes and ty.cls in self.repo.mro(cur0)):
                        self.emit(f"{site}:pre:type:{p}", Implies(And(*self.guards), Or(bound[p].none, self.class_in(bound[p].v, ty.cls))), st, kind="pre")
                if bound[p].ty.kind == "obj" and ty.kind == "obj" and ty.cls:
                    cur = self.static_class(st, bound[p])
                    # keep the more specific static class
                    if not (cur in self.repo.classes and ty.cls in self.repo.classes and ty.cls in self.repo.mro(cur)):
                        bound[p] = SV(ty, bound[p].v, bound[p].none)
        if c.assumed:
            self.trust(f"assumed contract: {qname}" + (f" ({c.trusted_note})" if c.trusted_note else ""))
        pre = st.fork()
        # ghost arguments of the callee given explicitly by the caller's contract
        gargs = (self.contract.ghost_args.get(short, {}) if self.contract is not None and not self.spec_mode else {})
        for gname, gexpr in gargs.items():
            bound["ghost." + gname] = self.eval_spec_value(gexpr, pre, {}, self.contract)
        # ghost variables of the callee the caller does not supply: an arbitrary value for the preconditions (the callee was verified for
        # every ghost input satisfying them), and -- for ghost variables the callee's ghost code assigns -- an unknown (existential) final value
        ghost_out = set()
        for gc_ in self.reg.ghost.get(qname, []):
            for gn_ in ast.walk(ast.parse(gc_.code)):
                if isinstance(gn_, ast.Assign):
                    for t_ in gn_.targets:
                        if isinstance(t_, ast.Attribute) and isinstance(t_.value, ast.Name) and t_.value.id == "ghost":
                            ghost_out.add(t_.attr)
        for gname, gty in c.ghost.items():
            if "ghost." + gname not in bound and "ghost." + gname not in st.store:      # (a same-named ghost variable of the caller is passed on implicitly)
                gv = fresh_sv(parse_type(gty), f"{short}_ghost_{gname}", optional=False)
                self.wf(st, gv)
                bound["ghost." + gname] = gv
        # preconditions
        for name, expr in c.requires.items():
            g = self.eval_spec(expr, pre, bound, None, None, c)
            if not self.spec_mode:
                self.emit(f"{site}:pre:{name}", Implies(And(*self.guards), g), st, kind="pre")
        # pure functions: the defining expression *is* the result
        if c.pure_result is not None:
            return self.eval_spec_value(c.pure_result, pre, bound, c)
        # exceptions of the callee
        for exc in c.may_raise:
            cond = z3.Bool(fresh_name(f"raises_{exc}"))
            self.may_raise(exc, cond, f"{site}:{exc}")
        # frame: havoc what the callee may modify
        for path in c.modifies:
            self.havoc_path(st, path, bound)
        rty = parse_type(c.returns) if c.returns else NONE
        if rty.kind == "none":
            res = none_sv()
        elif c.fresh_result and rty.kind == "obj":
            res = self.new_obj(st, rty.cls, base=f"{short}_res")
        elif "result" in c.fresh_paths and rty.kind == "obj":
            res = self.new_obj_sub(st, rty.cls, base=f"{short}_res")
        else:
            res = fresh_sv(rty, f"{short}_res")
            self.wf(st, res)
            if rty.kind == "obj":
                self.assume_alive(st, res)
        for gname, gty in c.ghost.items():
            if gname in ghost_out and gname not in gargs and "ghost." + gname not in st.store:
                gv = fresh_sv(parse_type(gty), f"{short}_ghostout_{gname}", optional=False)
                self.wf(st, gv)
                bound["ghost." + gname] = gv
        for path in c.fresh_paths:
            parts_ = path.split(".")
            if len(parts_) == 1:
                continue
            cur_ = res
            sm_ = self.spec_mode
            self.spec_mode = True
            try:
                for f_ in parts_[1:-1]:
                    cur_ = self.load_field(st, cur_, f_)
                owner_, fty_ = self.resolve_field(st, cur_, parts_[-1])
                fo_ = self.new_obj_sub(st, fty_.cls if fty_.kind == "obj" else None, base=f"{short}_{parts_[-1]}")
                saved_pr = self.pending_raises
                self.pending_raises = []
                self.store_field(st, cur_, parts_[-1], SV(fty_, fo_.v))
                self.pending_raises = saved_pr
            finally:
                self.spec_mode = sm_
        for name, expr in c.ensures.items():
            g = self.eval_spec(expr, st, bound, res, pre, c)
            st.assume(Implies(And(*self.guards), g))
        if (c.assumed or c.fresh_paths or c.fresh_result) and self.prune and not self.spec_mode:
            # vacuity guard: an assumed (or allocating) contract whose postcondition contradicts the caller's state would silently prune the path
            if not self.feasible(st) and self.feasible(pre):
                g_ = self.emit(f"{site}:post-consistent", FALSE, st, kind="cover")
                g_.expect = "sat"
        if c.functional is not None and res.ty.kind == "int":
            app = self.functional_app(pre, qname, [bound[p] for p in params])
            st.assume(Implies(And(*self.guards), And(Not(res.none), res.v == app)))
        # write back mutated sequence parameters to the caller's l-values
        self._post_call_bound = bound
        return res

    def functional_app(self, st: State, qname: str, args: List[SV]):
        """F_<qname>(args, heap arrays the function may read): the value of a deterministic (side-effect free on what it
        reads) int-valued function.  Sound as long as the function's result depends only on its arguments and on the
        listed heap fields (reviewed in the contract; the function's own body is verified against the same contract)."""
        c = self.reg.contracts[qname]
        terms = []
        for a in args:
            if a.ty.kind in ("int", "obj", "bool", "str"):
                terms.append(a.v)
            elif a.ty.kind == "func":
                terms.append(z3.StringVal(str(a.tag[-1]) if a.tag else "?"))
            else:
                raise Unsupported(f"functional contract {qname}: argument of type {a.ty}")
        for key in c.functional:
            owner, fname = key.rsplit(".", 1)
            extra = getattr(self, "extra_fields", {})
            ty = self.field_type(owner, fname)
            terms += list(self.heap_get(st, key, ty))
        F = z3.Function("F_" + qname.replace(".", "_"), *[t.sort() for t in terms], z3.IntSort())
        return F(*terms)

    def signature(self, qname: str):
        fi = self.repo.funcs[qname] if qname in self.repo.funcs else None
        if fi is None:
            c = self.reg.contracts[qname]
            ps = getattr(c, "params", None) or list(c.types.keys())
            return ps, {}
        a = fi.node.args
        params = [x.arg for x in a.posonlyargs + a.args] + [x.arg for x in a.kwonlyargs]
        defaults: Dict[str, Any] = {}
        pos = a.posonlyargs + a.args
        for p, d in zip(pos[len(pos) - len(a.defaults):], a.defaults):
            defaults[p.arg] = d
        for p, d in zip(a.kwonlyargs, a.kw_defaults):
            if d is not None:
                defaults[p.arg] = d
        if fi.kind == "classmethod":
            params = params[1:]
        return params, defaults

    def havoc_path(self, st: State, path: str, bound: Dict[str, SV]):
        """Havoc `param.f.g` (one heap cell) or `param` (a mutable sequence/dict parameter)."""
        parts = path.split(".")
        if parts[0] not in bound:
            raise BindingError(f"modifies path {path}: unknown parameter")
        cur = bound[parts[0]]
        if len(parts) == 1:
            new = fresh_sv(cur.ty, f"{parts[0]}_after", optional=False)
            self.wf(st, new)
            bound["old:" + parts[0]] = cur
            bound[parts[0]] = new
            return
        for p in parts[1:-1]:
            cur = self.load_field(st, cur, p)
        owner, ty = self.resolve_field(st, cur, parts[-1])
        fresh = fresh_sv(ty, f"hv_{parts[-1]}")
        self.wf(st, fresh)
        saved = self.pending_raises
        self.pending_raises = []
        self.store_field(st, cur, parts[-1], fresh)
        self.pending_raises = saved

    # ------------------------------------------------------------ contract expressions
    def eval_spec(self, expr: str, st: State, bound: Dict[str, SV], result: Optional[SV], old: Optional[State],
                  c: Optional[Contract]):
        sv = self.eval_spec_value(expr, st, bound, c, result, old)
        return self.truthy(st, sv)

    def eval_spec_value(self, expr: str, st: State, bound: Dict[str, SV], c: Optional[Contract],
                        result: Optional[SV] = None, old: Optional[State] = None) -> SV:
        node = ast.parse(expr.strip(), mode="eval").body
        env = dict(bound)
        for dn, dsrc in list((c.defs if c is not None else {}).items()) + list(getattr(self, "_extra_defs", {}).items()):
            env[dn] = SV(Ty("func"), None, tag=("deflambda", dn, ast.parse(dsrc.strip(), mode="eval").body))
        if result is not None:
            env["result"] = result
        saved = (self.spec_mode, self.pending_raises, self.guards, getattr(self, "_old_state", None), self.lambda_env,
                 getattr(self, "_spec_env", None))
        self.spec_mode = True
        self.pending_raises = []
        self.guards = []
        self._old_state = old
        self._spec_env = env
        # evaluate in a scratch copy of the store so that spec evaluation cannot disturb program variables
        st2 = st
        store_saved = st.store
        own = c is None or c.qname == (self.fn.qname if self.fn else "")
        st.store = dict(st.store) if own else {k2: v2 for k2, v2 in st.store.items() if k2.startswith("ghost.") and k2[6:] in c.ghost}
        st.store.update(env)
        self.lambda_env = []
        try:
            return self.ev(node, st2)
        finally:
            st.store = store_saved
            (self.spec_mode, self.pending_raises, self.guards, self._old_state, self.lambda_env, self._spec_env) = saved

    # ------------------------------------------------------------ statements
    def exec_block(self, stmts: List[ast.stmt], st: State) -> List[Outcome]:
        outs: List[Outcome] = []
        states = [st]
        for s in stmts:
            nxt = []
            for cur in states:
                for o in self.exec_stmt(s, cur):
                    if o.kind == "normal":
                        nxt.append(o.st)
                    else:
                        outs.append(o)
            states = nxt
            if not states:
                break
        outs.extend(Outcome("normal", s) for s in states)
        return outs

    def exec_stmt(self, s: ast.stmt, st: State) -> List[Outcome]:
        m = getattr(self, "st_" + type(s).__name__, None)
        if m is None:
            raise Unsupported(f"statement {type(s).__name__}")
        self.pending_raises = []
        self.guards = []
        st.trace.append(f"L{s.lineno - self.fn.node.lineno + 1}:{type(s).__name__}")
        outs = m(s, st)
        label = getattr(self, "stmt_labels", {}).get(id(s))
        if label and self.reg.ghost.get(self.fn.qname):
            from . import loops
            alias = getattr(self, "stmt_alias", {}).get(id(s))
            for o in outs:
                if o.kind == "normal":
                    loops.run_ghost(self, o.st, f"after:{label}", self.loop_stack[-1]["k"] if self.loop_stack else None)
                    if alias:
                        loops.run_ghost(self, o.st, f"after:{alias}", self.loop_stack[-1]["k"] if self.loop_stack else None)
        return outs

    def flush_raises(self, st: State) -> List[Outcome]:
        """Turn the exceptions recorded while evaluating one statement into raise outcomes,
        and continue the normal path assuming none of them happened."""
        outs = []
        prs = self.pending_raises
        self.pending_raises = []
        track = self.contract is not None and (self.contract.noraise or st.try_depth > 0 or self.contract.raises_ensures)
        for exc, cond, label in prs:
            if track:
                rs = st.fork()
                rs.assume(cond)
                outs.append(Outcome("raise", rs, exc=exc, label=label))
            st.assume(Not(cond))
        return outs

    def st_Expr(self, s, st):
        if isinstance(s.value, ast.Constant):
            return [Outcome("normal", st)]
        self.ev(s.value, st)
        outs = self.flush_raises(st)
        return outs + [Outcome("normal", st)]

    def st_Pass(self, s, st):
        return [Outcome("normal", st)]

    def st_Import(self, s, st):
        return [Outcome("normal", st)]

    def st_ImportFrom(self, s, st):
        if s.module and s.module.startswith("eyecite"):
            mod = s.module.split(".")[-1]
            li = self.__dict__.setdefault("local_imports", {})
            for a in s.names:
                li[a.asname or a.name] = f"{mod}.{a.name}"
        return [Outcome("normal", st)]

    def st_Assign(self, s, st):
        self._list_hint = None
        val = self.ev(s.value, st)
        if val.tag == ("truthonly",):
            raise Unsupported("heterogeneous and/or used as a value")
        outs = self.flush_raises(st)
        for t in s.targets:
            self.assign(t, val, st)
            if isinstance(t, ast.Name):
                st.rebound.add(t.id)      # a plain assignment rebinds the name (it does not mutate the old object)
        outs += self.flush_raises(st)
        if len(s.targets) > 1 and val.ty.kind in ("seq", "dict", "set"):
            st.links.append([self.lvalue_key(t, st) for t in s.targets])
        return outs + [Outcome("normal", st)]

    def st_AnnAssign(self, s, st):
        if s.value is None:
            return [Outcome("normal", st)]
        hint = self.ann_type(s.annotation, self.fn.module)
        lt = self.contract.locals_types.get(s.target.id) if self.contract and isinstance(s.target, ast.Name) else None
        if lt:
            hint = parse_type(lt)
        self._list_hint = hint
        val = self.ev(s.value, st)
        self._list_hint = None
        if hint is not None:
            try:
                val = self.coerce(val, hint)
            except Unsupported:
                pass
        outs = self.flush_raises(st)
        self.assign(s.target, val, st)
        return outs + [Outcome("normal", st)]

    def st_AugAssign(self, s, st):
        cur = self.ev(s.target, st)
        val = self.ev(s.value, st)
        res = self.binop(st, type(s.op).__name__, cur, val)
        outs = self.flush_raises(st)
        self.assign(s.target, res, st)
        return outs + [Outcome("normal", st)]

    def lvalue_key(self, t: ast.AST, st: State):
        if isinstance(t, ast.Name):
            return ("name", t.id)
        if isinstance(t, ast.Attribute):
            recv = self.ev(t.value, st)
            return ("attr", recv, t.attr)
        raise Unsupported("lvalue")

    def assign(self, t: ast.AST, val: SV, st: State):
        if isinstance(t, ast.Name):
            lt = self.contract.locals_types.get(t.id) if self.contract else None
            if lt:
                val = self.coerce(val, parse_type(lt))
            st.store[t.id] = val
        elif isinstance(t, (ast.Tuple, ast.List)):
            if val.ty.kind != "tuple":
                raise Unsupported(f"unpack of {val.ty}")
            self.may_raise("TypeError", val.none, "unpack-none")
            if len(val.v) != len(t.elts):
                self.may_raise("ValueError", TRUE, "unpack-arity")
                return
            for tt, v in zip(t.elts, val.v):
                self.assign(tt, v, st)
        elif isinstance(t, ast.Attribute) and isinstance(t.value, ast.Name) and t.value.id == "ghost" and "ghost" not in st.store:
            st.store["ghost." + t.attr] = val
        elif isinstance(t, ast.Attribute):
            recv = self.ev(t.value, st)
            self.store_field(st, recv, t.attr, val)
        elif isinstance(t, ast.Subscript):
            recv = self.ev(t.value, st)
            idx = self.ev(t.slice, st)
            if recv.ty.kind == "dict":
                key = self.dict_key(st, recv, idx)
                vt = recv.ty.elts[1]
                comps = to_flat(self.coerce(val, vt), vt)
                new = SV(recv.ty, MapV(z3.Store(recv.v.has, key, TRUE),
                                       [z3.Store(a, key, c) for a, c in zip(recv.v.arrs, comps)]), recv.none)
                self.assign(t.value, new, st)
            elif recv.ty.kind == "seq":
                n = recv.v.len
                i = z3.If(idx.v < 0, idx.v + n, idx.v)
                self.may_raise("IndexError", Or(i < 0, i >= n), "store-index")
                et = recv.ty.elts[0]
                comps = to_flat(self.coerce(val, et), et)
                new = SV(recv.ty, SeqV(n, [z3.Store(a, i, c) for a, c in zip(recv.v.arrs, comps)]), recv.none)
                self.assign(t.value, new, st)
            else:
                raise Unsupported(f"subscript store on {recv.ty}")
        else:
            raise Unsupported("assignment target")

    def update_lvalue(self, node: ast.AST, val: SV, st: State):
        """Rebind the l-value denoted by an expression node after an in-place mutation (append, pop, ...)."""
        key = None
        try:
            key = self.lvalue_key(node, st) if isinstance(node, (ast.Name, ast.Attribute)) else None
        except Unsupported:
            key = None
        self.assign(node, val, st)
        if key is not None:
            for grp in st.links:
                if any(self._same_lv(key, g) for g in grp):
                    for g in grp:
                        if not self._same_lv(key, g):
                            if g[0] == "name":
                                st.store[g[1]] = val
                            else:
                                self.store_field(st, g[1], g[2], val)

    def _same_lv(self, a, b) -> bool:
        if a[0] != b[0]:
            return False
        if a[0] == "name":
            return a[1] == b[1]
        return a[2] == b[2] and z3.is_expr(a[1].v) and z3.is_expr(b[1].v) and a[1].v.eq(b[1].v)

    def st_Return(self, s, st):
        val = self.ev(s.value, st) if s.value is not None else none_sv()
        if val.tag == ("truthonly",):
            raise Unsupported("heterogeneous and/or used as a value")
        outs = self.flush_raises(st)
        return outs + [Outcome("return", st, val=val)]

    def st_Break(self, s, st):
        return [Outcome("break", st)]

    def st_Continue(self, s, st):
        return [Outcome("continue", st)]

    def st_Raise(self, s, st):
        exc = "Exception"
        if s.exc is not None:
            e = s.exc
            if isinstance(e, ast.Call):
                for a in e.args:
                    try:
                        self.ev(a, st)
                    except Unsupported:
                        pass
                e = e.func
            if isinstance(e, ast.Name):
                exc = e.id
            elif isinstance(e, ast.Tuple):
                exc = "TypeError"        # raising a tuple is itself a TypeError
        self.pending_raises = []
        return [Outcome("raise", st, exc=exc, label="raise-stmt")]

    def st_Assert(self, s, st):
        c = self.truthy(st, self.ev(s.test, st))
        outs = self.flush_raises(st)
        self.may_raise("AssertionError", Not(c), "assert")
        outs += self.flush_raises(st)
        return outs + [Outcome("normal", st)]

    def st_If(self, s, st):
        cv = self.ev(s.test, st)
        c = self.truthy(st, cv)
        outs = self.flush_raises(st)
        res = list(outs)
        if self.contract is not None and self.contract.merge_ifs and not is_true(c) and not is_false(c) \
                and getattr(self, "stmt_labels", {}).get(id(s)) not in self.contract.merge_except:
            L = len(st.pc)
            sa, sb = st.fork(), st.fork()
            sa.assume(c)
            sb.assume(Not(c))
            self.apply_narrowing(sa, s.test, True)
            self.apply_narrowing(sb, s.test, False)
            fa, fb = self.feasible(sa), self.feasible(sb)
            if not fa or not fb:
                only = sb if not fa else sa
                body = s.orelse if not fa else s.body
                return res + (self.exec_block(body, only) if body else [Outcome("normal", only)])
            oa = self.exec_block(s.body, sa) if s.body else [Outcome("normal", sa)]
            ob = self.exec_block(s.orelse, sb) if s.orelse else [Outcome("normal", sb)]
            na = [o for o in oa if o.kind == "normal"]
            nb = [o for o in ob if o.kind == "normal"]
            if len(na) == 1 and len(nb) == 1:
                merged = self.merge_states(st, L, na[0].st, nb[0].st, c)
                if merged is not None:
                    return res + [o for o in oa + ob if o.kind != "normal"] + [Outcome("normal", merged)]
            return res + oa + ob
        for branch, cond, body in ((True, c, s.body), (False, Not(c), s.orelse)):
            if is_false(cond):
                continue
            bs = st.fork()
            bs.assume(cond)
            self.apply_narrowing(bs, s.test, branch)
            if not is_true(cond) and not self.feasible(bs):
                continue
            res.extend(self.exec_block(body, bs) if body else [Outcome("normal", bs)])
        return res

    def merge_states(self, st0: State, L: int, sa: State, sb: State, c) -> Optional[State]:
        m = st0.fork()
        m.pc = list(st0.pc[:L])
        for p in sa.pc[L:]:
            if not p.eq(c):
                m.pc.append(Implies(c, p))
        for p in sb.pc[L:]:
            if not (z3.is_not(p) and p.arg(0).eq(c)):
                m.pc.append(Implies(Not(c), p))
        for name in set(sa.store) | set(sb.store):
            va, vb = sa.store.get(name), sb.store.get(name)
            if va is None or vb is None:
                m.store[name] = va or vb
            elif va is vb:
                m.store[name] = va
            elif va.ty.kind == "small" and vb.ty.kind == "small":
                n = 0
                while n < len(va.v) and n < len(vb.v) and va.v[n][1] is vb.v[n][1] and va.v[n][0] is vb.v[n][0]:
                    n += 1
                m.store[name] = SV(Ty("small"), list(va.v[:n]) + [(And(c, ci), vi) for ci, vi in va.v[n:]] + [(And(Not(c), ci), vi) for ci, vi in vb.v[n:]])
            elif va.ty.kind == "func" or vb.ty.kind == "func":
                if va.tag != vb.tag:
                    return None
                m.store[name] = va
            else:
                try:
                    m.store[name] = ite_sv(c, va, vb)
                except TypeError:
                    return None
        for key in set(sa.heap) | set(sb.heap):
            ha, hb = sa.heap.get(key), sb.heap.get(key)
            if ha is None or hb is None:
                ty_arrs = ha or hb
                base = st0.heap.get(key) or [z3.Const(f"H0.{key}.{i}", a.sort()) for i, a in enumerate(ty_arrs)]
                ha, hb = ha or base, hb or base
            m.heap[key] = [x if x.eq(y) else z3.If(c, x, y) for x, y in zip(ha, hb)]
        m.alive = sa.alive if sa.alive.eq(sb.alive) else z3.If(c, sa.alive, sb.alive)
        m.written = {k: sa.written.get(k, []) + sb.written.get(k, []) for k in set(sa.written) | set(sb.written)}
        m.narrow = {k: v for k, v in sa.narrow.items() if sb.narrow.get(k) == v}
        m.defs_assumed = sa.defs_assumed & sb.defs_assumed
        m.havocked_fields = sa.havocked_fields | sb.havocked_fields
        m.rebound = sa.rebound | sb.rebound
        m.trace = list(sa.trace)
        return m

    def apply_narrowing(self, st: State, test: ast.AST, positive: bool):
        """isinstance(x, C) / type(x) is C on the positive branch refine the static class of x."""
        if isinstance(test, ast.UnaryOp) and isinstance(test.op, ast.Not):
            return self.apply_narrowing(st, test.operand, not positive)
        if isinstance(test, ast.BoolOp) and isinstance(test.op, ast.And) and positive:
            for v in test.values:
                self.apply_narrowing(st, v, True)
            return
        if isinstance(test, ast.BoolOp) and isinstance(test.op, ast.Or) and not positive:
            for v in test.values:
                self.apply_narrowing(st, v, False)
            return
        if not positive:
            return
        tgt = cls = None
        if isinstance(test, ast.Call) and isinstance(test.func, ast.Name) and test.func.id == "isinstance" \
                and isinstance(test.args[1], ast.Name):
            tgt, cls = test.args[0], test.args[1].id
        elif isinstance(test, ast.Compare) and len(test.ops) == 1 and isinstance(test.ops[0], ast.Is) \
                and isinstance(test.left, ast.Call) and isinstance(test.left.func, ast.Name) and test.left.func.id == "type" \
                and isinstance(test.comparators[0], ast.Name):
            tgt, cls = test.left.args[0], test.comparators[0].id
        if tgt is None or cls not in self.repo.classes:
            return
        saved = (self.pending_raises, self.spec_mode)
        self.spec_mode = True
        try:
            v = self.ev(tgt, st)
        except Unsupported:
            return
        finally:
            self.pending_raises, self.spec_mode = saved
        if v.ty.kind == "obj" and z3.is_expr(v.v):
            cur = self.static_class(st, v)
            if cur in self.repo.classes and cls in self.repo.mro(cur):
                return      # already at least as specific
            st.narrow[v.v.sexpr()] = cls

    def st_Try(self, s, st):
        if s.finalbody or s.orelse:
            raise Unsupported("try/finally/else")
        st.try_depth += 1
        outs = self.exec_block(s.body, st)
        res = []
        for o in outs:
            o.st.try_depth -= 1
            if o.kind != "raise":
                res.append(o)
                continue
            handled = False
            for h in s.handlers:
                names = []
                if h.type is None:
                    names = ["*"]
                elif isinstance(h.type, ast.Name):
                    names = [h.type.id]
                elif isinstance(h.type, ast.Attribute):
                    names = [h.type.attr]
                elif isinstance(h.type, ast.Tuple):
                    names = [e.id if isinstance(e, ast.Name) else e.attr for e in h.type.elts]
                if "*" in names or any(exc_matches(o.exc, nm) for nm in names):
                    handled = True
                    hs = o.st
                    if h.name:
                        hs.store[h.name] = SV(OBJ("Exception"), z3.Const(fresh_name("exc"), Obj))
                    res.extend(self.exec_block(h.body, hs))
                    break
            if not handled:
                res.append(o)
        return res

    def st_FunctionDef(self, s, st):
        if not hasattr(self, "nested_defs"):
            self.nested_defs = {}
        self.nested_defs[s.name] = s
        return [Outcome("normal", st)]

    def st_For(self, s, st):
        from . import loops
        return loops.exec_for(self, s, st)

    def st_While(self, s, st):
        raise Unsupported("while loop")


def _dflt(s):
    from .values import _default_of_sort
    return _default_of_sort(s)


EXC_PARENTS = {
    "IndexError": "LookupError", "KeyError": "LookupError", "LookupError": "Exception",
    "ValueError": "Exception", "TypeError": "Exception", "AttributeError": "Exception",
    "UnicodeDecodeError": "ValueError", "XMLSyntaxError": "Exception", "AssertionError": "Exception",
    "ZeroDivisionError": "ArithmeticError", "ArithmeticError": "Exception", "InvalidError": "Exception",
    "error": "Exception",
}


def exc_matches(exc: str, handler: str) -> bool:
    while exc:
        if exc == handler:
            return True
        exc = EXC_PARENTS.get(exc, "" if exc == "Exception" else "Exception")
        if exc == "Exception" and handler == "Exception":
            return True
    return False


BUILTIN_NAMES = {"len", "min", "max", "int", "str", "isinstance", "type", "cast", "list", "tuple", "set", "sorted",
                 "range", "enumerate", "filter", "getattr", "callable", "abs", "dict", "bool", "any", "all", "hash", "id",
                 "partial", "bisect_left", "bisect_right", "date", "datetime", "defaultdict", "super", "object",
                 "hasattr", "repr", "zip", "asdict", "hash_sha256", "ValueError", "AttributeError", "logger",
                 "SequenceMatcher", "fast_diff_match_patch", "etree", "lxml"}

STR_METHODS = {"strip", "rstrip", "lstrip", "lower", "upper", "isdigit", "isupper", "endswith", "startswith", "join",
               "split", "replace", "format", "encode"}
