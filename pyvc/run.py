"""Debug runner: verify a list of functions and print verdicts."""
import sys, time, os
sys.path.insert(0, os.path.dirname(os.path.dirname(os.path.abspath(__file__))))
from pyvc.front import Repo
from pyvc.contracts import Registry
from pyvc.engine import Engine
from pyvc.verify import verify_function
from pyvc import stdspecs, solve, report

def main():
    files = sys.argv[1].split(",")
    fns = sys.argv[2].split(",") if len(sys.argv) > 2 else None
    repo = Repo(report.REPO)
    reg = Registry(); stdspecs.install(reg)
    reg.load_dir(os.path.join(report.VERIF, "contracts"), only=files)
    e = Engine(repo, reg, prop="DBG")
    allobls = []
    for q in (fns or [q for q, c in reg.contracts.items() if not c.assumed]):
        t = time.time()
        r = verify_function(e, q)
        print(f"== {q}: paths={r.paths} obls={len(r.obligations)} err={r.error} gen={time.time()-t:.2f}s")
        allobls += r.obligations
    from pyvc.verify import lemma_obligations
    allobls += lemma_obligations(e)
    solve.discharge(allobls, "quick")
    for o in allobls:
        ok = (o.status == "discharged") if o.expect == "unsat" else (o.status == "refuted")
        print(("  ok  " if ok else "  BAD ") + f"{o.status:10s} {o.solver:10s} {o.seconds:6.2f}s {o.name}")
        if not ok and o.values and os.environ.get("PYVC_TRACE"):
            print("       model:", {k: v for k, v in list(o.values.items())[:12]})
        if not ok and os.environ.get("PYVC_TRACE"):
            print("       trace:", " ".join(o.info.get("trace", [])[-14:]))
        if os.environ.get("PYVC_DUMPALL") and os.environ["PYVC_DUMPALL"] in o.name:
            open("/tmp/d3/" + o.name.replace("/", "_") + ".smt2", "w").write(o.smt2)
        if not ok and os.environ.get("PYVC_DUMP"):
            open(os.environ["PYVC_DUMP"] + "/" + o.name.replace("/", "_") + ".smt2", "w").write(o.smt2)
    print("trusted:", e.trusted)

main()
