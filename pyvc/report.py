"""Evidence files, known findings, VIOLATION lines, exit codes.

Exit codes: 0 held (possibly with KNOWN-FINDING lines) / 1 violation / 3 checker crash.
Undecided obligations never produce a violation: the run still exits 0, but the
evidence level is downgraded from `proof` to `other` and the open obligations are named.
"""
from __future__ import annotations

import hashlib
import json
import os
import sys
import time
from typing import Any, Dict, List, Optional

VERIF = os.path.dirname(os.path.dirname(os.path.abspath(__file__)))
REPO = os.environ.get("EYECITE_REPO", "/repo")
# the seeded-change self-test (checks/seed_all.py) redirects both so that a run against a scratch copy never overwrites real evidence
EVIDENCE_DIR = os.environ.get("PYVC_EVIDENCE_DIR") or os.path.join(VERIF, "evidence")
REPLAY_DIR = os.environ.get("PYVC_REPLAY_DIR") or os.path.join(VERIF, "replay")
KNOWN = os.path.join(VERIF, "known_findings.json")


def load_known(prop: str) -> List[dict]:
    try:
        data = json.load(open(KNOWN))
    except FileNotFoundError:
        return []
    return [f for f in data.get("findings", []) if f.get("property") == prop and f.get("status") == "open"]


def sha256_text(s: str) -> str:
    return hashlib.sha256(s.encode("utf8")).hexdigest()


class Run:
    """Collects what one check run covered and writes the evidence file."""

    def __init__(self, prop: str, tier: str, seed: int):
        self.prop = prop
        self.tier = tier
        self.seed = seed
        self.t0 = time.time()
        self.obligations: List[Any] = []
        self.functions: Dict[str, dict] = {}
        self.trusted: List[str] = []
        self.assumptions: List[str] = []
        self.violations: List[dict] = []
        self.known_printed: List[str] = []
        self.bounded: Dict[str, Any] = {}
        self.notes: List[str] = []
        self.not_covered: List[str] = []
        self.extra: Dict[str, Any] = {}

    def trust(self, *items: str):
        for i in items:
            if i not in self.trusted:
                self.trusted.append(i)

    def assume(self, *items: str):
        for i in items:
            if i not in self.assumptions:
                self.assumptions.append(i)

    def add_obligations(self, obls):
        self.obligations.extend(obls)

    # ------------------------------------------------------------ violations
    def violation(self, obligation: str, payload: dict, reproduced: bool):
        os.makedirs(REPLAY_DIR, exist_ok=True)
        fname = f"{self.prop}-{_slug(obligation)}.json"
        path = os.path.join(REPLAY_DIR, fname)
        payload = dict(payload)
        payload.update({"property": self.prop, "obligation": obligation, "reproduced_on_real_code": reproduced})
        with open(path, "w") as f:
            json.dump(payload, f, indent=1, default=str)
        line = f"VIOLATION property={self.prop} replay={path}"
        if not reproduced:
            line += " no-failing-input-found"
        print(line, flush=True)
        self.violations.append({"obligation": obligation, "replay": path, "reproduced": reproduced})

    def known_finding(self, what: str):
        print(f"KNOWN-FINDING: property={self.prop} {what}", flush=True)
        self.known_printed.append(what)

    # ------------------------------------------------------------ evidence
    def finish(self, checker_cmd: str, explanation: str = "", samples: Optional[list] = None) -> int:
        proof_obls = [o for o in self.obligations if o.kind not in ("cover", "canary")]
        guards = [o for o in self.obligations if o.kind in ("cover", "canary")]
        n = len(proof_obls)
        discharged = sum(1 for o in proof_obls if o.status == "discharged")
        undecided = [o.name for o in proof_obls if o.status == "undecided"]
        refuted = [o.name for o in proof_obls if o.status == "refuted"]
        known_refuted = [o.name for o in proof_obls if o.status == "refuted" and o.info.get("known")]
        level = "proof"
        if undecided or n == 0 or (set(refuted) - set(known_refuted)):
            level = "other"
        by_solver: Dict[str, int] = {}
        solver_s = 0.0
        for o in proof_obls:
            by_solver[o.solver or "none"] = by_solver.get(o.solver or "none", 0) + 1
            solver_s += o.seconds
        per_fn: Dict[str, dict] = {}
        for o in proof_obls:
            fn = o.name.split("/")[0]
            d = per_fn.setdefault(fn, {"obligations": 0, "discharged": 0, "solver_s": 0.0})
            d["obligations"] += 1
            d["discharged"] += 1 if o.status == "discharged" else 0
            d["solver_s"] = round(d["solver_s"] + o.seconds, 3)
        for fn, meta in self.functions.items():
            per_fn.setdefault(fn, {"obligations": 0, "discharged": 0, "solver_s": 0.0}).update(meta)
        if samples is None:
            samples = []
            for o in proof_obls[:3]:
                samples.append({"obligation": o.name, "status": o.status, "solver": o.solver,
                                "smt2_head": (o.smt2 or "")[-1500:]})
        cov = {
            "obligations": n,
            "discharged": discharged if level == "proof" else discharged,
            "checker_cmd": checker_cmd,
            "trusted_base": self.trusted,
            "explanation": explanation or ("all obligations discharged" if level == "proof" else
                                           "proof not (fully) re-established on this run; see undecided/refuted"),
            "samples": samples,
            "functions_under_contract": per_fn,
            "discharged_by_solver": by_solver,
            "solver_seconds": round(solver_s, 2),
            "undecided": undecided,
            "refuted": refuted,
            "known_findings_printed": self.known_printed,
            "vacuity_guards": {"total": len(guards),
                               # a guard fails only when the solver PROVES the assumptions contradictory (unsat);
                               # `unknown` on a quantified satisfiability query is not evidence of vacuity
                               "ok": sum(1 for g in guards if g.status == "refuted"),
                               "unknown": sum(1 for g in guards if g.status == "undecided"),
                               "failed": _failed_guards(guards)},
            "bounded": self.bounded,
            "not_covered": self.not_covered,
            "notes": self.notes,
        }
        if level == "proof":
            # known findings: the refuted-and-known obligations are *not* counted as discharged;
            # they are excluded from the proof claim and listed.
            if known_refuted:
                cov["obligations"] = n - len(known_refuted)
                cov["excluded_known_findings"] = known_refuted
        cov.update(self.extra)
        ev = {
            "property_id": self.prop,
            "tier": self.tier,
            "seed": self.seed,
            "level": level,
            "coverage": cov,
            "assumptions": self.assumptions,
            "wall_s": round(time.time() - self.t0, 2),
            "violations": len(self.violations),
        }
        os.makedirs(EVIDENCE_DIR, exist_ok=True)
        with open(os.path.join(EVIDENCE_DIR, f"{self.prop}.json"), "w") as f:
            json.dump(ev, f, indent=1, default=str)
        print(f"[{self.prop}] tier={self.tier} obligations={n} discharged={discharged} "
              f"undecided={len(undecided)} refuted={len(refuted)} (known={len(known_refuted)}) "
              f"guards={cov['vacuity_guards']['ok']}/{len(guards)} level={level} wall={ev['wall_s']}s", flush=True)
        for u in undecided:
            print(f"  undecided: {u}")
        bad_guards = cov["vacuity_guards"]["failed"]
        if bad_guards:
            print("  VACUITY GUARD FAILED: " + ", ".join(bad_guards))
            return 3
        return 1 if self.violations else 0


def _failed_guards(guards):
    """cover guards fail when proved unsat; exit canaries fail only when EVERY sampled exit path of the function is proved unreachable"""
    failed = [g.name for g in guards if g.kind == "cover" and g.status == "discharged"]
    by_fn = {}
    for g in guards:
        if g.kind == "canary":
            by_fn.setdefault(g.name.split("/")[0], []).append(g)
    for fn, gs in by_fn.items():
        if all(g.status == "discharged" for g in gs):
            failed.append(fn + "/canary:exit-reachable")
    return failed


def _slug(s: str) -> str:
    import re
    return re.sub(r"[^A-Za-z0-9_.-]+", "_", s)[:100]


def tier_and_seed(argv=None):
    import argparse
    ap = argparse.ArgumentParser()
    ap.add_argument("--tier", default=os.environ.get("VERIF_TIER", "quick"))
    ap.add_argument("--replay", default=None)
    ap.add_argument("--only", default=None, help="substring filter on obligation/function names (debug)")
    ap.add_argument("-v", action="store_true")
    ap.add_argument("--write-baseline", action="store_true", help="record the discharged semantic obligations + source hashes under /verif/baseline (run on the committed, unchanged tree only; never part of a registered command)")
    a = ap.parse_args(argv)
    seed = int(os.environ.get("VERIF_SEED", "0") or 0)
    if a.tier not in ("quick", "thorough"):
        a.tier = "quick"
    return a, seed
