"""Dump eyecite's extractor database for the regex back end (DESIGN 3 E-DB, 4.1).

Run as:  /venv/bin/python /verif/pyvc/dump_db.py <out.json> [--patterns <in.json>]

With --patterns, <in.json> holds a list of {"name":..., "regex":..., "flags":int}; each is
parsed the same way and written under "patterns" (same record shape, atoms shared), so that
other checks can obtain CPython's parse tree and tables for patterns of eyecite/regexes.py.

Runs under the interpreter that has eyecite + reporters_db installed.  The
eyecite package is imported from $EYECITE_REPO (default /repo), which is put
first on sys.path so that a scratch copy can be examined.

Written to <out.json>:

  extractors   one record per entry of eyecite.tokenizers.EXTRACTORS, in order:
               index, regex, flags, strings, strings_lower, constructor, label,
               extra (short flag, edition short names), groupdict, final_flags,
               tree = CPython's own parse tree (re._parser.parse(regex, flags))
  atoms        for every distinct single-character atom that occurs in a tree
               (character class, case-insensitive literal, `.`) the exact set of
               code points 0..0x10FFFF it matches *in this CPython*, as a list
               of inclusive ranges.  The table is obtained by running the
               compiled atom over all code points, i.e. it is CPython's
               behaviour by construction.
  lower        per-code-point str.lower(): every code point whose lower() is
               not itself, with the code points of the result (multi-character
               results included), plus the context-dependent exceptions.

Tree node encoding (JSON lists; `key` indexes `atoms`, or is null when the node
is an ordinary case-sensitive literal that needs no table):

  ["LITERAL", cp, key]  ["NOT_LITERAL", cp, key]  ["ANY", key]
  ["IN", [item...], key]     item: ["NEGATE"] ["LITERAL", cp] ["RANGE", lo, hi]
                                   ["CATEGORY", "CATEGORY_DIGIT"]
  ["BRANCH", [seq...]]       ["SUBPATTERN", group|null, add_flags, del_flags, seq]
  ["MAX_REPEAT"|"MIN_REPEAT"|"POSSESSIVE_REPEAT", min, max|"INF", seq]
  ["AT", "AT_BEGINNING"]     ["ASSERT"|"ASSERT_NOT", direction, seq]
  ["GROUPREF", n]  ["GROUPREF_EXISTS", n, seq_yes, seq_no|null]  ["ATOMIC_GROUP", seq]

An opcode outside this list aborts the dump (exit status 2).
"""
import bisect
import json
import os
import random
import sys
import time

REPO = os.environ.get("EYECITE_REPO", "/repo")
sys.path.insert(0, REPO)

import re  # noqa: E402

try:  # Python >= 3.11
    import re._parser as sre_parse  # noqa: E402
    import re._constants as sre_c  # noqa: E402
except ImportError:  # pragma: no cover
    import sre_parse  # type: ignore
    import sre_constants as sre_c  # type: ignore

MAXCP = 0x10FFFF
# flags that influence what a single-character atom matches
ATOM_FLAGS = re.IGNORECASE | re.ASCII | re.DOTALL | re.UNICODE | re.LOCALE
UNSUPPORTED_GLOBAL = re.LOCALE


class UnknownNode(Exception):
    pass


CATEGORY_SRC = {
    "CATEGORY_DIGIT": r"\d", "CATEGORY_NOT_DIGIT": r"\D",
    "CATEGORY_SPACE": r"\s", "CATEGORY_NOT_SPACE": r"\S",
    "CATEGORY_WORD": r"\w", "CATEGORY_NOT_WORD": r"\W",
}


def esc(cp):
    return "\\U%08x" % cp


class Dumper:
    def __init__(self):
        self.atom_src = {}  # key -> (source, flags)

    def key(self, src, flags):
        fl = int(flags) & int(ATOM_FLAGS)
        k = "%d:%s" % (fl, src)
        self.atom_src.setdefault(k, (src, fl))
        return k

    def in_source(self, items):
        out = ["["]
        body = []
        for op, av in items:
            name = str(op)
            if name == "NEGATE":
                out.append("^")
            elif name == "LITERAL":
                body.append(esc(av))
            elif name == "RANGE":
                body.append(esc(av[0]) + "-" + esc(av[1]))
            elif name == "CATEGORY":
                cname = str(av)
                if cname not in CATEGORY_SRC:
                    raise UnknownNode("category %s" % cname)
                body.append(CATEGORY_SRC[cname])
            else:
                raise UnknownNode("IN item %s" % name)
        return "".join(out + body + ["]"])

    def seq(self, sp, flags):
        return [self.node(op, av, flags) for op, av in sp]

    def node(self, op, av, flags):
        name = str(op)
        if name == "LITERAL":
            k = self.key(esc(av), flags) if flags & re.IGNORECASE else None
            return ["LITERAL", av, k]
        if name == "NOT_LITERAL":
            return ["NOT_LITERAL", av, self.key("[^" + esc(av) + "]", flags)]
        if name == "ANY":
            return ["ANY", self.key(".", flags)]
        if name == "IN":
            items = []
            for o, a in av:
                on = str(o)
                if on == "NEGATE":
                    items.append(["NEGATE"])
                elif on == "LITERAL":
                    items.append(["LITERAL", a])
                elif on == "RANGE":
                    items.append(["RANGE", a[0], a[1]])
                elif on == "CATEGORY":
                    items.append(["CATEGORY", str(a)])
                else:
                    raise UnknownNode("IN item %s" % on)
            return ["IN", items, self.key(self.in_source(av), flags)]
        if name == "CATEGORY":  # bare category (not produced by current parsers)
            cname = str(av)
            if cname not in CATEGORY_SRC:
                raise UnknownNode("category %s" % cname)
            return ["IN", [["CATEGORY", cname]], self.key("[" + CATEGORY_SRC[cname] + "]", flags)]
        if name == "BRANCH":
            return ["BRANCH", [self.seq(b, flags) for b in av[1]]]
        if name == "SUBPATTERN":
            group, add_flags, del_flags, p = av
            inner = (flags | add_flags) & ~del_flags
            return ["SUBPATTERN", group, int(add_flags), int(del_flags), self.seq(p, inner)]
        if name in ("MAX_REPEAT", "MIN_REPEAT", "POSSESSIVE_REPEAT"):
            lo, hi, p = av
            return [name, int(lo), "INF" if hi == sre_c.MAXREPEAT else int(hi), self.seq(p, flags)]
        if name == "AT":
            return ["AT", str(av)]
        if name in ("ASSERT", "ASSERT_NOT"):
            return [name, int(av[0]), self.seq(av[1], flags)]
        if name == "GROUPREF":
            return ["GROUPREF", int(av)]
        if name == "GROUPREF_EXISTS":
            g, yes, no = av
            return ["GROUPREF_EXISTS", int(g), self.seq(yes, flags), self.seq(no, flags) if no is not None else None]
        if name == "ATOMIC_GROUP":
            return ["ATOMIC_GROUP", self.seq(av, flags)]
        raise UnknownNode("opcode %s" % name)

    def parse(self, regex, flags):
        sp = sre_parse.parse(regex, flags)
        final = int(sp.state.flags)
        if final & UNSUPPORTED_GLOBAL:
            raise UnknownNode("LOCALE flag")
        return {
            "tree": self.seq(sp, final),
            "final_flags": final,
            "groupdict": dict(sp.state.groupdict),
            "groups": int(sp.state.groups),
        }


ALLCHARS = None


def to_ranges(cps):
    out = []
    for cp in cps:
        if out and out[-1][1] == cp - 1:
            out[-1][1] = cp
        else:
            out.append([cp, cp])
    return out


def atom_table(src, flags, fullcheck):
    """All code points matched by the single-character atom `src` under `flags`."""
    global ALLCHARS
    pat = re.compile(src, flags)
    if fullcheck:
        fm = pat.fullmatch
        return to_ranges([cp for cp in range(MAXCP + 1) if fm(chr(cp))])
    if ALLCHARS is None:
        ALLCHARS = "".join(map(chr, range(MAXCP + 1)))
    cps = []
    for m in pat.finditer(ALLCHARS):
        s, e = m.span()
        if e != s + 1:
            raise UnknownNode("atom %r matched a span of length %d" % (src, e - s))
        cps.append(s)
    rs = to_ranges(cps)
    # cross-check against re.fullmatch on both sides of every range boundary
    fm = pat.fullmatch
    for lo, hi in rs:
        for cp, want in ((lo - 1, False), (lo, True), (hi, True), (hi + 1, False)):
            if 0 <= cp <= MAXCP and bool(fm(chr(cp))) != want:
                raise UnknownNode("atom table of %r disagrees with fullmatch at U+%04X" % (src, cp))
    rnd = random.Random(len(rs))
    los = [lo for lo, _ in rs]
    for _ in range(2000):
        cp = rnd.randrange(MAXCP + 1)
        j = bisect.bisect_right(los, cp) - 1
        inside = j >= 0 and rs[j][1] >= cp
        if bool(fm(chr(cp))) != inside:
            raise UnknownNode("atom table of %r disagrees with fullmatch at U+%04X" % (src, cp))
    return rs


def lower_table():
    """Per-code-point str.lower().  Returns (non-identity map, exceptions)."""
    table = []
    for cp in range(MAXCP + 1):
        c = chr(cp)
        lw = c.lower()
        if lw != c:
            table.append([cp, [ord(x) for x in lw]])
    # str.lower() is a per-code-point homomorphism except for GREEK CAPITAL SIGMA
    # (final-sigma rule).  Check that on random strings, and record the exception.
    rnd = random.Random(13)
    interesting = [cp for cp, _ in table] + list(range(32, 127)) + [0x17F, 0x131, 0x307, 0x3C2, 0x3C3]
    interesting = [cp for cp in interesting if cp != 0x3A3]
    checked = 0
    for _ in range(20000):
        s = "".join(chr(rnd.choice(interesting)) for _ in range(rnd.randrange(1, 8)))
        if s.lower() != "".join(ch.lower() for ch in s):
            raise UnknownNode("str.lower() is not per-code-point on %r" % s)
        checked += 1
    sigma = {
        "cp": 0x3A3,
        "results": sorted({ord(x) for ctx in ("Σ", "aΣ", "aΣa", "Σa", "aΣ ", " Σ")
                           for x in ctx.lower() if x not in "a "}),
        "note": "U+03A3 lower-cases to U+03C3 or U+03C2 depending on context (final sigma)",
    }
    return table, {"context_dependent": [sigma], "homomorphism_samples_checked": checked}


LABELS = {"IdToken": "ID", "SupraToken": "SUPRA", "ParagraphToken": "PARAGRAPH",
          "StopWordToken": "STOP_WORD", "SectionToken": "SECTION"}


def main(argv):
    patterns_in = None
    if len(argv) == 4 and argv[2] == "--patterns":
        patterns_in = argv[3]
    elif len(argv) != 2:
        print(__doc__)
        return 2
    t0 = time.time()
    fullcheck = os.environ.get("PYVC_DUMP_FULLCHECK", "") not in ("", "0")
    import eyecite
    import eyecite.tokenizers as tk
    import reporters_db

    d = Dumper()
    recs = []
    for i, e in enumerate(tk.EXTRACTORS):
        try:
            p = d.parse(e.regex, e.flags)
        except UnknownNode as ex:
            print("dump_db: extractor %d: unsupported regex node: %s\n  regex=%r" % (i, ex, e.regex), file=sys.stderr)
            return 2
        ctor = e.constructor
        cls = getattr(getattr(ctor, "__self__", None), "__name__", None) or getattr(ctor, "__qualname__", repr(ctor))
        extra = {}
        if e.extra:
            extra = {
                "short": bool(e.extra.get("short")),
                "exact_editions": [ed.short_name for ed in e.extra.get("exact_editions", [])],
                "variation_editions": [ed.short_name for ed in e.extra.get("variation_editions", [])],
            }
        if cls in LABELS:
            label = LABELS[cls]
        else:
            eds = extra.get("exact_editions") or ["~" + x for x in extra.get("variation_editions", [])] or ["?"]
            label = "cite:" + eds[0] + (":short" if extra.get("short") else "")
        strings = list(e.strings)
        rec = {
            "index": i, "regex": e.regex, "flags": int(e.flags), "strings": strings,
            "strings_lower": [s.lower() for s in strings],
            "constructor": cls, "label": label, "extra": extra,
        }
        rec.update(p)
        recs.append(rec)

    pats = []
    if patterns_in:
        for item in json.load(open(patterns_in)):
            try:
                p = d.parse(item["regex"], int(item.get("flags", 0)))
            except UnknownNode as ex:
                print("dump_db: pattern %r: unsupported regex node: %s" % (item.get("name"), ex), file=sys.stderr)
                return 2
            rec = {"name": item.get("name"), "regex": item["regex"], "flags": int(item.get("flags", 0))}
            rec.update(p)
            pats.append(rec)

    atoms = {}
    for k, (src, fl) in d.atom_src.items():
        atoms[k] = {"src": src, "flags": fl, "ranges": atom_table(src, fl, fullcheck)}
    lower, lower_info = lower_table()
    out = {
        "format": 1,
        "python": sys.version,
        "repo": REPO,
        "eyecite_file": getattr(eyecite, "__file__", None),
        "reporters_db_file": getattr(reporters_db, "__file__", None),
        "maxcp": MAXCP,
        "atom_method": "re.fullmatch on every code point" if fullcheck else
                       "finditer over the string of all code points, cross-checked with re.fullmatch at range boundaries",
        "extractors": recs,
        "patterns": pats,
        "atoms": atoms,
        "lower": lower,
        "lower_info": lower_info,
        "seconds": None,
    }
    out["seconds"] = round(time.time() - t0, 2)
    with open(argv[1], "w") as f:
        json.dump(out, f, separators=(",", ":"))
    print("dump_db: %d extractors, %d atoms, %d lower() entries, %.1fs -> %s" %
          (len(recs), len(atoms), len(lower), out["seconds"], argv[1]))
    return 0


if __name__ == "__main__":
    sys.exit(main(sys.argv))
